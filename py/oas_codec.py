# Independent OASIS (SEMI P39) codec written from the reading in DESIGN.md Appendix B. No gdstk code or tables are used.
#   decode(bytes)  -> strict decoder: dict model with every modal variable resolved, raises OasError on anything malformed
#   encode(layout, choices) -> bytes: specification-derived encoder; `choices` (a random.Random or None) picks among all
#                              legal serialisations (modal reuse, relative mode, repetition / point-list / real forms, name tables,
#                              CBLOCKs, PADs, START/END offset tables, validation scheme)
import struct
import zlib
from fractions import Fraction


class OasError(Exception):
    pass


MAGIC = b'%SEMI-OASIS\r\n'
DIRS = [(1, 0), (0, 1), (-1, 0), (0, -1), (1, 1), (-1, 1), (-1, -1), (1, -1)]


# ------------------------------------------------------------------------------------------------ CTRAPEZOID / TRAPEZOID geometry
def ctrapezoid_points(t, w, h):
    """vertices relative to (x, y); returns (points, w_used, h_used, w_after, h_after)"""
    if 16 <= t <= 19 or t == 25:
        h = w
    elif t in (20, 21):
        w = 2 * h
    elif t in (22, 23):
        h = 2 * w
    T = {
        0: [(0, 0), (w, 0), (w - h, h), (0, h)], 1: [(0, 0), (w - h, 0), (w, h), (0, h)],
        2: [(0, 0), (w, 0), (w, h), (h, h)], 3: [(h, 0), (w, 0), (w, h), (0, h)],
        4: [(0, 0), (w, 0), (w - h, h), (h, h)], 5: [(h, 0), (w - h, 0), (w, h), (0, h)],
        6: [(0, 0), (w - h, 0), (w, h), (h, h)], 7: [(h, 0), (w, 0), (w - h, h), (0, h)],
        8: [(0, 0), (w, 0), (w, h - w), (0, h)], 9: [(0, 0), (w, 0), (w, h), (0, h - w)],
        10: [(0, 0), (w, w), (w, h), (0, h)], 11: [(0, w), (w, 0), (w, h), (0, h)],
        12: [(0, 0), (w, w), (w, h - w), (0, h)], 13: [(0, w), (w, 0), (w, h), (0, h - w)],
        14: [(0, 0), (w, w), (w, h), (0, h - w)], 15: [(0, w), (w, 0), (w, h - w), (0, h)],
        16: [(0, 0), (w, 0), (0, w)], 17: [(0, 0), (w, w), (0, w)], 18: [(0, 0), (w, 0), (w, w)], 19: [(w, 0), (w, w), (0, w)],
        20: [(0, 0), (2 * h, 0), (h, h)], 21: [(0, h), (2 * h, h), (h, 0)],
        22: [(0, 0), (w, w), (0, 2 * w)], 23: [(w, 0), (w, 2 * w), (0, w)],
        24: [(0, 0), (w, 0), (w, h), (0, h)], 25: [(0, 0), (w, 0), (w, w), (0, w)],
    }
    if t not in T:
        raise OasError('ctrapezoid type %d' % t)
    return T[t], w, h


def ctrapezoid_uses(t):
    """(uses_w, uses_h)"""
    if 16 <= t <= 19 or t in (22, 23, 25):
        return True, False
    if t in (20, 21):
        return False, True
    return True, True


def trapezoid_points(vertical, w, h, da, db):
    if not vertical:
        return [(max(da, 0), h), (w + min(db, 0), h), (w - max(db, 0), 0), (-min(da, 0), 0)]
    # vertical: delta-a moves the lower end of the left side against the right side, delta-b the upper ends (corrected after comparing
    # with gdstk's reader and writer, which agree with each other and with the usual reading of figure 7-5: my first version transposed)
    return [(0, max(da, 0)), (0, h + min(db, 0)), (w, h - max(db, 0)), (w, -min(da, 0))]


# ------------------------------------------------------------------------------------------------ decoder
class _In:
    def __init__(self, data, base=0):
        self.d = data
        self.p = 0
        self.base = base

    def byte(self):
        if self.p >= len(self.d):
            raise OasError('unexpected end of data')
        b = self.d[self.p]
        self.p += 1
        return b

    def take(self, n):
        if self.p + n > len(self.d):
            raise OasError('unexpected end of data')
        b = self.d[self.p:self.p + n]
        self.p += n
        return b

    def uint(self):
        v = 0
        sh = 0
        while True:
            b = self.byte()
            v |= (b & 0x7F) << sh
            sh += 7
            if not b & 0x80:
                break
            if sh > 70:
                raise OasError('unsigned integer too long')
        if v >= 1 << 64:
            raise OasError('unsigned integer above 64 bits')
        return v

    def sint(self):
        v = self.uint()
        return -(v >> 1) if v & 1 else v >> 1

    def real(self, t=None):
        if t is None:
            t = self.uint()
        if t == 0:
            return float(self.uint())
        if t == 1:
            return -float(self.uint())
        if t == 2:
            return 1.0 / self._nz()
        if t == 3:
            return -1.0 / self._nz()
        if t == 4:
            a = self.uint()
            return a / self._nz()
        if t == 5:
            a = self.uint()
            return -a / self._nz()
        if t == 6:
            return struct.unpack('<f', self.take(4))[0]
        if t == 7:
            return struct.unpack('<d', self.take(8))[0]
        raise OasError('real type %d' % t)

    def _nz(self):
        v = self.uint()
        if v == 0:
            raise OasError('zero denominator in real')
        return float(v)

    def string(self, kind='b'):
        n = self.uint()
        s = self.take(n)
        if kind == 'a' and any(c < 0x20 or c > 0x7E for c in s):
            raise OasError('a-string with non-printable byte')
        if kind == 'n' and (n == 0 or any(c < 0x21 or c > 0x7E for c in s)):
            raise OasError('invalid n-string %r' % s)
        return bytes(s)

    def delta2(self):
        v = self.uint()
        d = DIRS[v & 3]
        m = v >> 2
        return (d[0] * m, d[1] * m)

    def delta3(self):
        v = self.uint()
        d = DIRS[v & 7]
        m = v >> 3
        return (d[0] * m, d[1] * m)

    def gdelta(self):
        v = self.uint()
        if v & 1 == 0:
            d = DIRS[(v >> 1) & 7]
            m = v >> 4
            return (d[0] * m, d[1] * m)
        x = v >> 2
        if v & 2:
            x = -x
        return (x, self.sint())

    def point_list(self, polygon):
        t = self.uint()
        n = self.uint()
        pts = []
        x = y = 0
        if t in (0, 1):
            hor = t == 0
            for _ in range(n):
                d = self.sint()
                if hor:
                    x += d
                else:
                    y += d
                hor = not hor
                pts.append((x, y))
            if polygon:
                if n < 2 or n % 2:
                    raise OasError('Manhattan polygon point list with %d deltas' % n)
                # one implied vertex closes the figure with a final pair of Manhattan edges
                pts.append((0, y) if hor else (x, 0))
        elif t == 2:
            for _ in range(n):
                d = self.delta2()
                x, y = x + d[0], y + d[1]
                pts.append((x, y))
        elif t == 3:
            for _ in range(n):
                d = self.delta3()
                x, y = x + d[0], y + d[1]
                pts.append((x, y))
        elif t == 4:
            for _ in range(n):
                d = self.gdelta()
                x, y = x + d[0], y + d[1]
                pts.append((x, y))
        elif t == 5:
            dx = dy = 0
            for _ in range(n):
                d = self.gdelta()
                dx, dy = dx + d[0], dy + d[1]
                x, y = x + dx, y + dy
                pts.append((x, y))
        else:
            raise OasError('point list type %d' % t)
        return t, pts

    def repetition(self):
        """returns (type, offsets) with offsets[0] == (0, 0); type 0 -> (0, None)"""
        t = self.uint()
        if t == 0:
            return 0, None
        if t == 1:
            nx, ny, dx, dy = self.uint() + 2, self.uint() + 2, self.uint(), self.uint()
            return t, [(i * dx, j * dy) for j in range(ny) for i in range(nx)]
        if t == 2:
            nx, dx = self.uint() + 2, self.uint()
            return t, [(i * dx, 0) for i in range(nx)]
        if t == 3:
            ny, dy = self.uint() + 2, self.uint()
            return t, [(0, j * dy) for j in range(ny)]
        if t in (4, 5, 6, 7):
            n = self.uint() + 2
            g = self.uint() if t in (5, 7) else 1
            out = [(0, 0)]
            c = 0
            for _ in range(n - 1):
                c += g * self.uint()
                out.append((c, 0) if t in (4, 5) else (0, c))
            return t, out
        if t == 8:
            n, m_ = self.uint() + 2, self.uint() + 2
            a, b = self.gdelta(), self.gdelta()
            return t, [(i * a[0] + j * b[0], i * a[1] + j * b[1]) for j in range(m_) for i in range(n)]
        if t == 9:
            n = self.uint() + 2
            a = self.gdelta()
            return t, [(i * a[0], i * a[1]) for i in range(n)]
        if t in (10, 11):
            n = self.uint() + 2
            g = self.uint() if t == 11 else 1
            out = [(0, 0)]
            x = y = 0
            for _ in range(n - 1):
                d = self.gdelta()
                x, y = x + g * d[0], y + g * d[1]
                out.append((x, y))
            return t, out
        raise OasError('repetition type %d' % t)


class _Modal:
    NAMES = ['layer', 'datatype', 'textlayer', 'texttype', 'geom_w', 'geom_h', 'polygon_points', 'path_points', 'path_halfwidth',
             'path_start_ext', 'path_end_ext', 'ctrapezoid_type', 'circle_radius', 'repetition', 'placement_cell', 'text_string',
             'last_property_name', 'last_value_list']

    def __init__(self):
        self.reset()

    def reset(self):
        self.v = {}
        self.absolute = True
        self.pos = {'placement': [0, 0], 'text': [0, 0], 'geometry': [0, 0]}

    def get(self, k):
        if k not in self.v:
            raise OasError('modal variable %s used before it is defined' % k)
        return self.v[k]

    def set(self, k, val):
        self.v[k] = val


def decode(data, strict_names=True):
    if data[:13] != MAGIC:
        raise OasError('bad magic')
    top = _In(data)
    top.p = 13
    model = {'cells': [], 'file_props': [], 'cellnames': {}, 'textstrings': {}, 'propnames': {}, 'propstrings': {}, 'layernames': [],
             'records': [], 'stats': {}, 'cblocks': 0}
    stats = model['stats']

    def stat(k, n=1):
        stats[k] = stats.get(k, 0) + n
    modal = _Modal()
    tables_mode = {}       # table -> 'implicit' | 'explicit'
    counters = {'cellname': 0, 'textstring': 0, 'propname': 0, 'propstring': 0}
    stack = [top]
    cur_props = model['file_props']
    cell = None
    seen_start = False
    end = None
    name_offsets = {'cellname': [], 'textstring': [], 'propname': [], 'propstring': [], 'layername': [], 'xname': []}

    def src():
        return stack[-1]

    def read_xy(s, which, bx, by, info):
        p = modal.pos[which]
        if info & bx:
            v = s.sint()
            p[0] = v if modal.absolute else p[0] + v
        if info & by:
            v = s.sint()
            p[1] = v if modal.absolute else p[1] + v
        return (p[0], p[1])

    def read_rep(s, info, bit):
        if not info & bit:
            return None
        t, offs = s.repetition()
        stat('rep_type_%d' % t)
        if t == 0:
            t2, offs = modal.get('repetition')
            return list(offs)
        modal.set('repetition', (t, offs))
        return list(offs)

    def layer_dt(s, info):
        if info & 0x01:
            modal.set('layer', s.uint())
        if info & 0x02:
            modal.set('datatype', s.uint())
        return modal.get('layer'), modal.get('datatype')

    def table_name(kind, explicit, s, strkind):
        string = s.string(strkind)
        mode = 'explicit' if explicit else 'implicit'
        if tables_mode.setdefault(kind, mode) != mode:
            raise OasError('%s table mixes implicit and explicit numbering' % kind)
        if explicit:
            ref = s.uint()
        else:
            ref = counters[kind]
            counters[kind] += 1
        tbl = model[kind + 's']
        if ref in tbl:
            raise OasError('%s reference number %d defined twice' % (kind, ref))
        entry = {'string': string, 'props': []}
        tbl[ref] = entry
        return entry

    while True:
        s = src()
        if s.p >= len(s.d):
            if len(stack) > 1:
                stack.pop()
                continue
            raise OasError('end of file without END record')
        at_top = len(stack) == 1
        off = s.p if at_top else None
        rec = s.uint()
        if at_top:
            model['records'].append((off, rec))
        stat('rec_%d' % rec)
        if not seen_start:
            if rec != 1:
                raise OasError('first record is not START')
            seen_start = True
            ver = s.string('a')
            if ver != b'1.0':
                raise OasError('version %r' % ver)
            model['unit'] = s.real()
            if not (model['unit'] > 0):
                raise OasError('unit not positive')
            flag = s.uint()
            if flag not in (0, 1):
                raise OasError('offset flag %d' % flag)
            model['offset_flag'] = flag
            if flag == 0:
                model['table_offsets'] = [(s.uint(), s.uint()) for _ in range(6)]
            modal.reset()
            continue
        if rec == 0:
            continue
        if rec == 1:
            raise OasError('START out of place')
        if rec == 2:
            if not at_top:
                raise OasError('END inside a CBLOCK')
            end_off = off
            if model['offset_flag'] == 1:
                model['table_offsets'] = [(s.uint(), s.uint()) for _ in range(6)]
            pad = s.string('b')
            scheme = s.uint()
            sig = None
            if scheme in (1, 2):
                sig = struct.unpack('<I', s.take(4))[0]
            elif scheme != 0:
                raise OasError('validation scheme %d' % scheme)
            if s.p != len(s.d):
                raise OasError('%d bytes after the END record' % (len(s.d) - s.p))
            if s.p - end_off != 256:
                raise OasError('END record is %d bytes long' % (s.p - end_off))
            end = {'offset': end_off, 'pad': len(pad), 'scheme': scheme, 'signature': sig}
            if scheme == 1:
                calc = zlib.crc32(data[:len(data) - 4]) & 0xFFFFFFFF
                if calc != sig:
                    raise OasError('CRC32 signature %08x, file has %08x' % (sig, calc))
            elif scheme == 2:
                calc = sum(data[:len(data) - 4]) & 0xFFFFFFFF
                if calc != sig:
                    raise OasError('CHECKSUM32 signature %08x, file has %08x' % (sig, calc))
            break
        if rec in (3, 4):
            e = table_name('cellname', rec == 4, s, 'n')
            cur_props = e['props']
            modal.reset()
            if at_top:
                name_offsets['cellname'].append(off)
            continue
        if rec in (5, 6):
            e = table_name('textstring', rec == 6, s, 'a')
            cur_props = e['props']
            modal.reset()
            if at_top:
                name_offsets['textstring'].append(off)
            continue
        if rec in (7, 8):
            e = table_name('propname', rec == 8, s, 'n')
            cur_props = e['props']
            modal.reset()
            if at_top:
                name_offsets['propname'].append(off)
            continue
        if rec in (9, 10):
            e = table_name('propstring', rec == 10, s, 'b')
            cur_props = e['props']
            modal.reset()
            if at_top:
                name_offsets['propstring'].append(off)
            continue
        if rec in (11, 12):
            name = s.string('n')
            ivs = []
            for _ in range(2):
                t = s.uint()
                if t == 0:
                    ivs.append((0, None))
                elif t in (1, 2, 3):
                    ivs.append((t, s.uint()))
                elif t == 4:
                    ivs.append((t, s.uint(), s.uint()))
                else:
                    raise OasError('interval type %d' % t)
            model['layernames'].append((rec, name, ivs))
            cur_props = []
            modal.reset()
            if at_top:
                name_offsets['layername'].append(off)
            continue
        if rec in (13, 14):
            cell = {'props': [], 'elements': [], 'offset': off}
            if rec == 13:
                cell['refnum'] = s.uint()
            else:
                cell['name'] = s.string('n')
            model['cells'].append(cell)
            cur_props = cell['props']
            modal.reset()
            continue
        if rec == 15:
            modal.absolute = True
            continue
        if rec == 16:
            modal.absolute = False
            continue
        if rec == 34:
            if not at_top:
                raise OasError('nested CBLOCK')
            ct = s.uint()
            if ct != 0:
                raise OasError('CBLOCK compression type %d' % ct)
            usize, csize = s.uint(), s.uint()
            raw = s.take(csize)
            try:
                dobj = zlib.decompressobj(-15)
                plain = dobj.decompress(raw) + dobj.flush()
            except zlib.error as e:
                raise OasError('CBLOCK inflate: %s' % e)
            if len(plain) != usize or dobj.unused_data:
                raise OasError('CBLOCK sizes: declared %d, got %d' % (usize, len(plain)))
            model['cblocks'] += 1
            stack.append(_In(plain))
            continue
        if rec in (28, 29):
            if rec == 29:
                name = modal.get('last_property_name')
                values = modal.get('last_value_list')
                std = modal.v.get('last_property_std', False)
            else:
                info = s.byte()
                if info & 0x04:
                    if info & 0x02:
                        name = ('ref', s.uint())
                    else:
                        name = ('str', s.string('n'))
                    modal.set('last_property_name', name)
                else:
                    name = modal.get('last_property_name')
                std = bool(info & 0x01)
                modal.v['last_property_std'] = std
                if info & 0x08:
                    if info >> 4:
                        raise OasError('PROPERTY with V=1 and UUUU=%d' % (info >> 4))
                    values = modal.get('last_value_list')
                else:
                    n = info >> 4
                    if n == 15:
                        n = s.uint()
                    values = []
                    for _ in range(n):
                        t = s.uint()
                        if t <= 7:
                            values.append(('r', s.real(t), t))
                        elif t == 8:
                            values.append(('u', s.uint()))
                        elif t == 9:
                            values.append(('i', s.sint()))
                        elif t in (10, 11, 12):
                            values.append(('s', s.string('abn'[t - 10]), 'abn'[t - 10]))
                        elif t in (13, 14, 15):
                            values.append(('sref', s.uint(), 'abn'[t - 13]))
                        else:
                            raise OasError('property value type %d' % t)
                        stat('propval_type_%d' % t)
                    modal.set('last_value_list', values)
            if cur_props is None:
                raise OasError('PROPERTY record with nothing to attach to')
            cur_props.append({'name': name, 'values': list(values), 'std': std})
            continue
        if rec in (30, 31):
            s.uint()
            s.string('b')
            if rec == 31:
                s.uint()
            cur_props = []
            modal.reset()
            if at_top:
                name_offsets['xname'].append(off)
            continue
        # ---- cell contents
        if cell is None:
            raise OasError('record %d outside a cell' % rec)
        if rec in (17, 18):
            info = s.byte()
            if info & 0x80:
                tgt = ('ref', s.uint()) if info & 0x40 else ('str', s.string('n'))
                modal.set('placement_cell', tgt)
            else:
                tgt = modal.get('placement_cell')
            if rec == 17:
                mag, ang = 1.0, 90.0 * ((info >> 1) & 3)
            else:
                mag = s.real() if info & 0x04 else 1.0
                ang = s.real() if info & 0x02 else 0.0
            x, y = read_xy(s, 'placement', 0x20, 0x10, info)
            rep = read_rep(s, info, 0x08)
            el = {'kind': 'placement', 'cell': tgt, 'x': x, 'y': y, 'mag': mag, 'angle': ang, 'flip': bool(info & 1), 'rep': rep, 'props': []}
        elif rec == 19:
            info = s.byte()
            if info & 0x80:
                raise OasError('TEXT info byte bit 7 set')
            if info & 0x40:
                txt = ('ref', s.uint()) if info & 0x20 else ('str', s.string('a'))
                modal.set('text_string', txt)
            else:
                txt = modal.get('text_string')
            if info & 0x01:
                modal.set('textlayer', s.uint())
            if info & 0x02:
                modal.set('texttype', s.uint())
            x, y = read_xy(s, 'text', 0x10, 0x08, info)
            rep = read_rep(s, info, 0x04)
            el = {'kind': 'text', 'string': txt, 'layer': modal.get('textlayer'), 'type': modal.get('texttype'), 'x': x, 'y': y, 'rep': rep, 'props': []}
        elif rec == 20:
            info = s.byte()
            layer, dt = layer_dt(s, info)
            if info & 0x40:
                modal.set('geom_w', s.uint())
            if info & 0x80:
                if info & 0x20:
                    raise OasError('RECTANGLE with S and H')
                modal.set('geom_h', modal.get('geom_w'))
            elif info & 0x20:
                modal.set('geom_h', s.uint())
            w, h = modal.get('geom_w'), modal.get('geom_h')
            x, y = read_xy(s, 'geometry', 0x10, 0x08, info)
            rep = read_rep(s, info, 0x04)
            el = {'kind': 'polygon', 'src': 'rectangle', 'layer': layer, 'datatype': dt, 'pts': [(x, y), (x + w, y), (x + w, y + h), (x, y + h)], 'rep': rep, 'props': []}
        elif rec == 21:
            info = s.byte()
            if info & 0xC0:
                raise OasError('POLYGON info byte reserved bits')
            layer, dt = layer_dt(s, info)
            if info & 0x20:
                t, pl = s.point_list(True)
                stat('pointlist_type_%d' % t)
                modal.set('polygon_points', pl)
            pl = modal.get('polygon_points')
            x, y = read_xy(s, 'geometry', 0x10, 0x08, info)
            rep = read_rep(s, info, 0x04)
            el = {'kind': 'polygon', 'src': 'polygon', 'layer': layer, 'datatype': dt, 'pts': [(x, y)] + [(x + a, y + b) for a, b in pl], 'rep': rep, 'props': []}
        elif rec == 22:
            info = s.byte()
            layer, dt = layer_dt(s, info)
            if info & 0x40:
                modal.set('path_halfwidth', s.uint())
            hw = modal.get('path_halfwidth')
            if info & 0x80:
                sch = s.uint()
                if sch & ~0x0F:
                    raise OasError('extension scheme %d' % sch)
                ss, ee = (sch >> 2) & 3, sch & 3
                if ss == 1:
                    modal.set('path_start_ext', 0)
                elif ss == 2:
                    modal.set('path_start_ext', hw)
                elif ss == 3:
                    modal.set('path_start_ext', s.sint())
                if ee == 1:
                    modal.set('path_end_ext', 0)
                elif ee == 2:
                    modal.set('path_end_ext', hw)
                elif ee == 3:
                    modal.set('path_end_ext', s.sint())
            ext = (modal.get('path_start_ext'), modal.get('path_end_ext'))
            if info & 0x20:
                t, pl = s.point_list(False)
                stat('pointlist_type_%d' % t)
                modal.set('path_points', pl)
            pl = modal.get('path_points')
            x, y = read_xy(s, 'geometry', 0x10, 0x08, info)
            rep = read_rep(s, info, 0x04)
            el = {'kind': 'path', 'layer': layer, 'datatype': dt, 'halfwidth': hw, 'ext': ext, 'pts': [(x, y)] + [(x + a, y + b) for a, b in pl], 'rep': rep, 'props': []}
        elif rec in (23, 24, 25):
            info = s.byte()
            layer, dt = layer_dt(s, info)
            if info & 0x40:
                modal.set('geom_w', s.uint())
            if info & 0x20:
                modal.set('geom_h', s.uint())
            w, h = modal.get('geom_w'), modal.get('geom_h')
            da = s.sint() if rec in (23, 24) else 0
            db = s.sint() if rec in (23, 25) else 0
            x, y = read_xy(s, 'geometry', 0x10, 0x08, info)
            rep = read_rep(s, info, 0x04)
            rel = trapezoid_points(bool(info & 0x80), w, h, da, db)
            el = {'kind': 'polygon', 'src': 'trapezoid', 'layer': layer, 'datatype': dt, 'pts': [(x + a, y + b) for a, b in rel], 'rep': rep, 'props': [],
                  'trap': (bool(info & 0x80), w, h, da, db)}
        elif rec == 26:
            info = s.byte()
            layer, dt = layer_dt(s, info)
            if info & 0x80:
                modal.set('ctrapezoid_type', s.uint())
            t = modal.get('ctrapezoid_type')
            uw, uh = ctrapezoid_uses(t)
            if info & 0x40:
                modal.set('geom_w', s.uint())
            if info & 0x20:
                modal.set('geom_h', s.uint())
            w = modal.get('geom_w') if uw else 0
            h = modal.get('geom_h') if uh else 0
            rel, w2, h2 = ctrapezoid_points(t, w, h)
            modal.set('geom_w', w2)
            modal.set('geom_h', h2)
            x, y = read_xy(s, 'geometry', 0x10, 0x08, info)
            rep = read_rep(s, info, 0x04)
            stat('ctrapezoid_type_%d' % t)
            el = {'kind': 'polygon', 'src': 'ctrapezoid', 'layer': layer, 'datatype': dt, 'pts': [(x + a, y + b) for a, b in rel], 'rep': rep, 'props': [], 'ctrap': t}
        elif rec == 27:
            info = s.byte()
            if info & 0xC0:
                raise OasError('CIRCLE info byte reserved bits')
            layer, dt = layer_dt(s, info)
            if info & 0x20:
                modal.set('circle_radius', s.uint())
            r = modal.get('circle_radius')
            x, y = read_xy(s, 'geometry', 0x10, 0x08, info)
            rep = read_rep(s, info, 0x04)
            el = {'kind': 'circle', 'layer': layer, 'datatype': dt, 'r': r, 'x': x, 'y': y, 'rep': rep, 'props': []}
        elif rec == 32:
            s.uint()
            s.string('b')
            el = {'kind': 'xelement', 'props': [], 'rep': None}
        elif rec == 33:
            info = s.byte()
            s.uint()
            layer_dt(s, info)
            s.string('b')
            x, y = read_xy(s, 'geometry', 0x10, 0x08, info)
            rep = read_rep(s, info, 0x04)
            el = {'kind': 'xgeometry', 'props': [], 'rep': rep}
        else:
            raise OasError('unknown record %d' % rec)
        cell['elements'].append(el)
        cur_props = el['props']

    # ---- resolve references
    def resolve(kind, tgt, what):
        if tgt[0] == 'str':
            return tgt[1]
        tbl = model[kind + 's']
        if tgt[1] not in tbl:
            raise OasError('%s refers to %s number %d which is never defined' % (what, kind, tgt[1]))
        return tbl[tgt[1]]['string']

    def fix_props(props):
        for p in props:
            p['name'] = resolve('propname', p['name'], 'property')
            vals = []
            for v in p['values']:
                if v[0] == 'sref':
                    vals.append(('s', resolve('propstring', ('ref', v[1]), 'property value'), v[2]))
                else:
                    vals.append(v)
            p['values'] = vals
    fix_props(model['file_props'])
    for kind in ('cellname', 'textstring', 'propname', 'propstring'):
        for e in model[kind + 's'].values():
            fix_props(e['props'])
    names = set()
    for c in model['cells']:
        if 'refnum' in c:
            c['name'] = resolve('cellname', ('ref', c['refnum']), 'CELL')
        if c['name'] in names:
            raise OasError('cell %r defined twice' % c['name'])
        names.add(c['name'])
        fix_props(c['props'])
        for e in c['elements']:
            fix_props(e['props'])
            if e['kind'] == 'placement':
                e['cellname'] = resolve('cellname', e['cell'], 'PLACEMENT')
            elif e['kind'] == 'text':
                e['text'] = resolve('textstring', e['string'], 'TEXT')
    # ---- table offsets
    model['end'] = end
    model['name_offsets'] = name_offsets
    kinds = ['cellname', 'textstring', 'propname', 'propstring', 'layername', 'xname']
    recnums = {'cellname': (3, 4), 'textstring': (5, 6), 'propname': (7, 8), 'propstring': (9, 10), 'layername': (11, 12), 'xname': (30, 31)}
    recs_at = dict(model['records'])
    for k, (strict, offv) in zip(kinds, model['table_offsets']):
        if strict not in (0, 1):
            raise OasError('%s table strict flag %d' % (k, strict))
        if offv:
            if recs_at.get(offv) not in recnums[k]:
                raise OasError('%s table offset %d does not point at a %s record (record there: %s)' % (k, offv, k, recs_at.get(offv)))
        if strict and name_offsets[k]:
            if not offv:
                raise OasError('%s table is strict, has records, but no offset' % k)
    return model


# ------------------------------------------------------------------------------------------------ encoder
class _Out:
    def __init__(self):
        self.b = bytearray()

    def byte(self, v):
        self.b.append(v & 0xFF)

    def uint(self, v):
        if v < 0:
            raise ValueError('negative unsigned')
        while True:
            b = v & 0x7F
            v >>= 7
            if v:
                self.b.append(b | 0x80)
            else:
                self.b.append(b)
                break

    def uint_padded(self, v, extra):
        """same value with `extra` redundant continuation bytes (legal: high-order zero groups)"""
        for _ in range(extra):
            self.b.append((v & 0x7F) | 0x80)
            v >>= 7
        self.uint(v) if v or True else None

    def sint(self, v):
        self.uint((abs(v) << 1) | (1 if v < 0 else 0))

    def string(self, s):
        self.uint(len(s))
        self.b += s

    def real(self, v, rnd=None):
        """v: float or Fraction. Picks among every form that represents v exactly."""
        forms = []
        fr = Fraction(v)
        if fr.denominator == 1 and abs(fr.numerator) < 1 << 63:
            forms.append(0 if fr >= 0 else 1)
        if fr.numerator in (1, -1) and fr.denominator < 1 << 63 and float(Fraction(1, fr.denominator)) == abs(float(v)):
            forms.append(2 if fr > 0 else 3)
        if fr.denominator < 1 << 40 and abs(fr.numerator) < 1 << 40 and abs(fr.numerator) / fr.denominator == abs(float(v)):
            forms.append(4 if fr >= 0 else 5)
        f32 = struct.unpack('<f', struct.pack('<f', float(v)))[0] if abs(float(v)) < 3e38 else None
        if f32 is not None and f32 == float(v):
            forms.append(6)
        forms.append(7)
        t = rnd.choice(forms) if rnd else forms[0]
        self.uint(t)
        if t in (0, 1):
            self.uint(abs(fr.numerator))
        elif t in (2, 3):
            self.uint(fr.denominator)
        elif t in (4, 5):
            self.uint(abs(fr.numerator))
            self.uint(fr.denominator)
        elif t == 6:
            self.b += struct.pack('<f', float(v))
        else:
            self.b += struct.pack('<d', float(v))
        return t

    def delta2(self, dx, dy):
        d = DIRS.index((_sg(dx), _sg(dy)))
        self.uint((max(abs(dx), abs(dy)) << 2) | d)

    def delta3(self, dx, dy):
        d = DIRS.index((_sg(dx), _sg(dy)))
        self.uint((max(abs(dx), abs(dy)) << 3) | d)

    def gdelta(self, dx, dy, rnd=None):
        oct_ok = dx == 0 or dy == 0 or abs(dx) == abs(dy)
        if (dx, dy) == (0, 0):
            oct_ok = True
        if oct_ok and not (rnd and rnd.random() < 0.3):
            d = DIRS.index((_sg(dx), _sg(dy))) if (dx, dy) != (0, 0) else 0
            self.uint((max(abs(dx), abs(dy)) << 4) | (d << 1))
        else:
            self.uint((abs(dx) << 2) | (2 if dx < 0 else 0) | 1)
            self.sint(dy)


def _sg(v):
    return (v > 0) - (v < 0)


def _pointlist_types(deltas, polygon):
    """all point-list types that can carry these deltas (deltas of the explicit vertices after the first)"""
    ok = [4, 5]
    if all(dx == 0 or dy == 0 or abs(dx) == abs(dy) for dx, dy in deltas) and all((dx, dy) != (0, 0) for dx, dy in deltas):
        ok.append(3)
    if all((dx == 0) != (dy == 0) for dx, dy in deltas):
        ok.append(2)
    return ok


def _write_pointlist(o, pts, polygon, rnd, stats):
    """pts: vertices relative to the first one (first not included). For polygons tries the implicit Manhattan forms too."""
    deltas = []
    px = py = 0
    for x, y in pts:
        deltas.append((x - px, y - py))
        px, py = x, y
    cands = _pointlist_types(deltas, polygon)
    # Manhattan alternating forms
    for t in (0, 1):
        use = deltas
        if polygon:
            # the last explicit vertex is implied: drop it if the figure closes with two alternating Manhattan edges
            if len(deltas) < 3 or len(deltas) % 2 == 0:
                continue
            last = pts[-1]
            use = deltas[:-1]
            hor = t == 0
            okc = True
            for dx, dy in use:
                if hor and not (dy == 0 and dx != 0) or (not hor) and not (dx == 0 and dy != 0):
                    okc = False
                    break
                hor = not hor
            if not okc:
                continue
            # after an even number of deltas the next edge has the first orientation; implied vertex: (0, y) or (x, 0)
            prev = pts[-2]
            implied = (0, prev[1]) if t == 0 else (prev[0], 0)
            if implied != last or implied == prev or implied == (0, 0):
                continue
            cands.append(t)
        else:
            hor = t == 0
            okc = bool(deltas)
            for dx, dy in use:
                if hor and not (dy == 0 and dx != 0) or (not hor) and not (dx == 0 and dy != 0):
                    okc = False
                    break
                hor = not hor
            if okc:
                cands.append(t)
    t = rnd.choice(cands) if rnd else min(cands)
    stats['pointlist_type_%d' % t] = stats.get('pointlist_type_%d' % t, 0) + 1
    o.uint(t)
    if t in (0, 1):
        use = deltas[:-1] if polygon else deltas
        o.uint(len(use))
        hor = t == 0
        for dx, dy in use:
            o.sint(dx if hor else dy)
            hor = not hor
    elif t == 2:
        o.uint(len(deltas))
        for dx, dy in deltas:
            o.delta2(dx, dy)
    elif t == 3:
        o.uint(len(deltas))
        for dx, dy in deltas:
            o.delta3(dx, dy)
    elif t == 4:
        o.uint(len(deltas))
        for dx, dy in deltas:
            o.gdelta(dx, dy, rnd)
    else:
        o.uint(len(deltas))
        pdx = pdy = 0
        for dx, dy in deltas:
            o.gdelta(dx - pdx, dy - pdy, rnd)
            pdx, pdy = dx, dy
    return t


def _write_repetition(o, offs, rnd, stats, modal):
    """offs: list of offsets with offs[0] == (0,0). Picks a legal encoding that enumerates the same multiset of offsets."""
    n = len(offs)
    cands = []
    if modal.get('repetition') == offs:
        cands.append(0)
    xs = [p[0] for p in offs]
    ys = [p[1] for p in offs]
    if all(y == 0 for y in ys) and all(xs[i] < xs[i + 1] for i in range(n - 1)):
        cands += [4, 5]
        d = xs[1] - xs[0]
        if all(xs[i + 1] - xs[i] == d for i in range(n - 1)):
            cands += [2, 9]
    if all(x == 0 for x in xs) and all(ys[i] < ys[i + 1] for i in range(n - 1)):
        cands += [6, 7]
        d = ys[1] - ys[0]
        if all(ys[i + 1] - ys[i] == d for i in range(n - 1)):
            cands += [3, 9]
    if n >= 2:
        a = offs[1]
        if a != (0, 0) and all(offs[i] == (i * a[0], i * a[1]) for i in range(n)) and 9 not in cands:
            cands.append(9)
    lat = _lattice(offs)
    if lat:
        cands.append(8)
        nx, ny, a, b = lat
        if a[1] == 0 and b[0] == 0 and a[0] > 0 and b[1] > 0:
            cands.append(1)
    cands += [10, 11]
    t = rnd.choice(cands) if rnd else cands[0]
    stats['rep_type_%d' % t] = stats.get('rep_type_%d' % t, 0) + 1
    o.uint(t)
    if t == 0:
        return
    modal['repetition'] = list(offs)
    if t == 1:
        nx, ny, a, b = lat
        o.uint(nx - 2), o.uint(ny - 2), o.uint(a[0]), o.uint(b[1])
    elif t == 2:
        o.uint(n - 2), o.uint(xs[1] - xs[0])
    elif t == 3:
        o.uint(n - 2), o.uint(ys[1] - ys[0])
    elif t in (4, 5, 6, 7):
        c = xs if t in (4, 5) else ys
        sp = [c[i + 1] - c[i] for i in range(n - 1)]
        o.uint(n - 2)
        if t in (5, 7):
            g = _gcd_list(sp)
            if rnd and rnd.random() < 0.5:
                g = 1
            o.uint(g)
            sp = [v // g for v in sp]
        for v in sp:
            o.uint(v)
    elif t == 8:
        nx, ny, a, b = lat
        o.uint(nx - 2), o.uint(ny - 2)
        o.gdelta(a[0], a[1], rnd)
        o.gdelta(b[0], b[1], rnd)
    elif t == 9:
        o.uint(n - 2)
        o.gdelta(offs[1][0], offs[1][1], rnd)
    else:
        sp = [(offs[i + 1][0] - offs[i][0], offs[i + 1][1] - offs[i][1]) for i in range(n - 1)]
        o.uint(n - 2)
        if t == 11:
            g = _gcd_list([abs(v) for p in sp for v in p])
            if rnd and rnd.random() < 0.5:
                g = 1
            o.uint(g)
            sp = [(p[0] // g, p[1] // g) for p in sp]
        for p in sp:
            o.gdelta(p[0], p[1], rnd)


def _gcd_list(vals):
    from math import gcd
    g = 0
    for v in vals:
        g = gcd(g, v)
    return g or 1


def _lattice(offs):
    """if offs enumerates i*a + j*b (i fastest) for nx, ny >= 2: (nx, ny, a, b)"""
    n = len(offs)
    if n < 4:
        return None
    a = offs[1]
    if a == (0, 0):
        return None
    nx = 1
    while nx < n and offs[nx] == (nx * a[0], nx * a[1]):
        nx += 1
    if nx < 2 or n % nx or n // nx < 2:
        return None
    ny = n // nx
    b = offs[nx]
    for j in range(ny):
        for i in range(nx):
            if offs[j * nx + i] != (i * a[0] + j * b[0], i * a[1] + j * b[1]):
                return None
    return nx, ny, a, b


def encode(layout, rnd=None, opts=None):
    """layout: {'unit': real, 'file_props': [...], 'cells': [{'name': bytes, 'props': [...], 'elements': [...]}]}
    elements as produced by decode() ('polygon' with optional 'as': rectangle|trapezoid|ctrapezoid and the fields needed, 'path',
    'text', 'placement', 'circle'). Returns (bytes, stats)."""
    opts = opts or {}
    stats = {}

    def stat(k):
        stats[k] = stats.get(k, 0) + 1

    def coin(p=0.5):
        return bool(rnd) and rnd.random() < p
    head = _Out()
    head.b += MAGIC
    head.uint(1)
    head.string(b'1.0')
    head.real(layout['unit'], rnd)
    offsets_in_start = coin(0.5)
    head.uint(0 if offsets_in_start else 1)
    # ---- name tables: decide which names go by reference
    cellnames = []
    for c in layout['cells']:
        cellnames.append(c['name'])
    for c in layout['cells']:
        for e in c['elements']:
            if e['kind'] == 'placement' and e['cellname'] not in cellnames:
                cellnames.append(e['cellname'])
    use_cell_refs = coin(0.6)
    cell_ref = {nm: i for i, nm in enumerate(cellnames)} if use_cell_refs else {}
    if use_cell_refs and coin(0.3):
        # some names stay inline
        for nm in list(cell_ref):
            if coin(0.3):
                del cell_ref[nm]
    cell_explicit = coin(0.5)
    if cell_explicit and rnd:
        perm = list(range(len(cell_ref) + 3))
        rnd.shuffle(perm)
        cell_ref = {nm: perm[i] for i, nm in enumerate(cell_ref)}
    else:
        cell_ref = {nm: i for i, nm in enumerate(cell_ref)}
    texts = []
    pnames = []
    pstrings = []

    def scan_props(props):
        for p in props:
            if p['name'] not in pnames:
                pnames.append(p['name'])
            for v in p['values']:
                if v[0] == 's' and v[1] not in pstrings:
                    pstrings.append(v[1])
    scan_props(layout.get('file_props', []))
    for c in layout['cells']:
        scan_props(c.get('props', []))
        for e in c['elements']:
            scan_props(e.get('props', []))
            if e['kind'] == 'text' and e['text'] not in texts:
                texts.append(e['text'])
    text_ref = {t: i for i, t in enumerate(t for t in texts if coin(0.6))}
    text_explicit = coin(0.5)
    if text_explicit and rnd:
        perm = list(range(len(text_ref) + 2))
        rnd.shuffle(perm)
        text_ref = {t: perm[i] for i, t in enumerate(text_ref)}
    pname_ref = {t: i for i, t in enumerate(t for t in pnames if coin(0.6))}
    pname_explicit = coin(0.5)
    if pname_explicit and rnd:
        perm = list(range(len(pname_ref) + 2))
        rnd.shuffle(perm)
        pname_ref = {t: perm[i] for i, t in enumerate(pname_ref)}
    pstr_ref = {t: i for i, t in enumerate(t for t in pstrings if coin(0.5))}
    pstr_explicit = coin(0.5)
    if pstr_explicit and rnd:
        perm = list(range(len(pstr_ref) + 2))
        rnd.shuffle(perm)
        pstr_ref = {t: perm[i] for i, t in enumerate(pstr_ref)}

    def emit_props(o, props, modal):
        for p in props:
            # record 29 repeats the last name and value list
            key = (p['name'], tuple(p['values']))
            if modal.get('last_prop') == key and coin(0.5):
                o.uint(29)
                stat('prop_repeat_record')
                continue
            o.uint(28)
            info = 0
            name_explicit = not (modal.get('last_property_name') == p['name'] and coin(0.5))
            if name_explicit:
                info |= 0x04
                if p['name'] in pname_ref:
                    info |= 0x02
            else:
                stat('modal_reuse_propname')
            reuse_vals = modal.get('last_value_list') == tuple(p['values']) and coin(0.5)
            n = len(p['values'])
            if reuse_vals:
                info |= 0x08
                stat('modal_reuse_propvalues')
            else:
                big = n >= 15 or coin(0.1)
                info |= (15 if big else n) << 4
            if p.get('std'):
                info |= 0x01
            o.byte(info)
            if name_explicit:
                if p['name'] in pname_ref:
                    o.uint(pname_ref[p['name']])
                else:
                    o.string(p['name'])
            if not reuse_vals:
                if (info >> 4) == 15:
                    o.uint(n)
                for v in p['values']:
                    if v[0] == 'r':
                        o.real(v[1], rnd)
                    elif v[0] == 'u':
                        o.uint(8)
                        o.uint(v[1])
                    elif v[0] == 'i':
                        o.uint(9)
                        o.sint(v[1])
                    else:
                        kind = v[2] if len(v) > 2 else 'b'
                        if v[1] in pstr_ref:
                            o.uint(13 + 'abn'.index(kind))
                            o.uint(pstr_ref[v[1]])
                            stat('propstring_by_reference')
                        else:
                            o.uint(10 + 'abn'.index(kind))
                            o.string(v[1])
            modal['last_property_name'] = p['name']
            modal['last_value_list'] = tuple(p['values'])
            modal['last_prop'] = key

    def name_records(kind):
        """list of byte strings, one per name record of that table"""
        out = []
        if kind == 'cellname':
            items, explicit, rec = cell_ref, cell_explicit, (3, 4)
        elif kind == 'textstring':
            items, explicit, rec = text_ref, text_explicit, (5, 6)
        elif kind == 'propname':
            items, explicit, rec = pname_ref, pname_explicit, (7, 8)
        else:
            items, explicit, rec = pstr_ref, pstr_explicit, (9, 10)
        order = sorted(items.items(), key=lambda kv: kv[1])
        if explicit and rnd:
            rnd.shuffle(order)
        for s_, num in order:
            o = _Out()
            o.uint(rec[1] if explicit else rec[0])
            o.string(s_)
            if explicit:
                o.uint(num)
            if kind == 'cellname':
                cp = layout.get('cellname_props', {}).get(s_)
                if cp:
                    emit_props(o, cp, {})
            out.append(bytes(o.b))
        return out
    tables = {k: name_records(k) for k in ('cellname', 'textstring', 'propname', 'propstring')}
    # table placement: 'front' (after START), 'back' (before END), 'scattered' (between cells)
    placement = {k: (rnd.choice(['front', 'back', 'scattered']) if rnd else 'back') for k in tables}
    body = []        # list of (tag, bytes) chunks at top level; tag = table kind for the first record of a contiguous table, else None

    def put_table(k):
        recs = tables[k]
        if recs:
            body.append((k, b''.join(recs)))
            stat('table_%s_%s' % (k, placement[k]))
    fo = _Out()
    emit_props(fo, layout.get('file_props', []), {})
    body.append((None, bytes(fo.b)))
    for k in tables:
        if placement[k] == 'front':
            put_table(k)
    scattered = {k: list(v) for k, v in tables.items() if placement[k] == 'scattered'}

    # ---- cells
    for ci, c in enumerate(layout['cells']):
        o = _Out()
        if c['name'] in cell_ref:
            o.uint(13)
            o.uint(cell_ref[c['name']])
            stat('cell_by_reference')
        else:
            o.uint(14)
            o.string(c['name'])
        modal = {}
        pos = {'placement': [0, 0], 'text': [0, 0], 'geometry': [0, 0]}
        absolute = True
        emit_props(o, c.get('props', []), modal)
        chunks = [bytes(o.b)]          # record-aligned chunks of the cell body (for CBLOCK cutting)
        for e in c['elements']:
            o = _Out()
            if coin(0.08):
                o.uint(0)
                stat('pad')
            if coin(0.15):
                absolute = not absolute
                o.uint(15 if absolute else 16)
                stat('xy_mode_switch')
            k = e['kind']

            def modal_field(name, value, bit, p=0.6):
                """returns the info bit if the field must be written explicitly"""
                if modal.get(name) == value and coin(p):
                    stat('modal_reuse_' + name)
                    return 0
                return bit

            def xy(which, x, y, bx, by):
                info = 0
                p = pos[which]
                if not (p[0] == x and coin(0.5)):
                    info |= bx
                if not (p[1] == y and coin(0.5)):
                    info |= by
                vals = []
                if info & bx:
                    vals.append(x if absolute else x - p[0])
                if info & by:
                    vals.append(y if absolute else y - p[1])
                if not absolute and (info & (bx | by)):
                    stat('relative_coordinate')
                if (info & (bx | by)) != (bx | by):
                    stat('modal_reuse_position')
                p[0], p[1] = x, y
                return info, vals
            rep = e.get('rep')
            if rep is not None and len(rep) < 2:
                rep = None
            if k == 'placement':
                ang = e['angle']
                simple = e['mag'] == 1.0 and ang in (0.0, 90.0, 180.0, 270.0) and not coin(0.3)
                info = 0
                tgt = e['cellname']
                if not (modal.get('placement_cell') == tgt and coin(0.6)):
                    info |= 0x80
                    if tgt in cell_ref:
                        info |= 0x40
                else:
                    stat('modal_reuse_placement_cell')
                xi, xv = xy('placement', e['x'], e['y'], 0x20, 0x10)
                info |= xi
                if rep:
                    info |= 0x08
                if e['flip']:
                    info |= 0x01
                if simple:
                    o.uint(17)
                    info |= (int(ang // 90) & 3) << 1
                else:
                    o.uint(18)
                    if e['mag'] != 1.0 or coin(0.3):
                        info |= 0x04
                    if ang != 0.0 or coin(0.3):
                        info |= 0x02
                o.byte(info)
                if info & 0x80:
                    if tgt in cell_ref:
                        o.uint(cell_ref[tgt])
                    else:
                        o.string(tgt)
                modal['placement_cell'] = tgt
                if not simple:
                    if info & 0x04:
                        o.real(e['mag'], rnd)
                    if info & 0x02:
                        o.real(ang, rnd)
                for v in xv:
                    o.sint(v)
                if rep:
                    _write_repetition(o, rep, rnd, stats, modal)
            elif k == 'text':
                o.uint(19)
                info = 0
                txt = e['text']
                if not (modal.get('text_string') == txt and coin(0.6)):
                    info |= 0x40
                    if txt in text_ref:
                        info |= 0x20
                else:
                    stat('modal_reuse_text_string')
                info |= modal_field('textlayer', e['layer'], 0x01)
                info |= modal_field('texttype', e['type'], 0x02)
                xi, xv = xy('text', e['x'], e['y'], 0x10, 0x08)
                info |= xi
                if rep:
                    info |= 0x04
                o.byte(info)
                if info & 0x40:
                    if txt in text_ref:
                        o.uint(text_ref[txt])
                    else:
                        o.string(txt)
                modal['text_string'] = txt
                if info & 0x01:
                    o.uint(e['layer'])
                if info & 0x02:
                    o.uint(e['type'])
                modal['textlayer'], modal['texttype'] = e['layer'], e['type']
                for v in xv:
                    o.sint(v)
                if rep:
                    _write_repetition(o, rep, rnd, stats, modal)
            else:
                info = modal_field('layer', e['layer'], 0x01) | modal_field('datatype', e['datatype'], 0x02)
                if rep:
                    info |= 0x04
                form = e.get('as', 'polygon') if k == 'polygon' else k

                def ld():
                    if info & 0x01:
                        o.uint(e['layer'])
                    if info & 0x02:
                        o.uint(e['datatype'])
                    modal['layer'], modal['datatype'] = e['layer'], e['datatype']
                if form == 'rectangle':
                    x, y, w, h = e['rect']
                    o.uint(20)
                    square = w == h and coin(0.7)
                    info |= modal_field('geom_w', w, 0x40)
                    if square:
                        info |= 0x80
                        stat('rectangle_square')
                    else:
                        info |= modal_field('geom_h', h, 0x20)
                    xi, xv = xy('geometry', x, y, 0x10, 0x08)
                    info |= xi
                    o.byte(info)
                    ld()
                    if info & 0x40:
                        o.uint(w)
                    if info & 0x20:
                        o.uint(h)
                    modal['geom_w'], modal['geom_h'] = w, h
                    for v in xv:
                        o.sint(v)
                elif form == 'trapezoid':
                    vertical, x, y, w, h, da, db = e['trap']
                    rec = 23 if (da and db) or coin(0.2) else (24 if db == 0 else 25)
                    if rec == 24 and db != 0 or rec == 25 and da != 0:
                        rec = 23
                    o.uint(rec)
                    if vertical:
                        info |= 0x80
                    info |= modal_field('geom_w', w, 0x40) | modal_field('geom_h', h, 0x20)
                    xi, xv = xy('geometry', x, y, 0x10, 0x08)
                    info |= xi
                    o.byte(info)
                    ld()
                    if info & 0x40:
                        o.uint(w)
                    if info & 0x20:
                        o.uint(h)
                    modal['geom_w'], modal['geom_h'] = w, h
                    if rec in (23, 24):
                        o.sint(da)
                    if rec in (23, 25):
                        o.sint(db)
                    for v in xv:
                        o.sint(v)
                    stat('trapezoid_rec_%d_%s' % (rec, 'v' if vertical else 'h'))
                elif form == 'ctrapezoid':
                    t, x, y, w, h = e['ctrap']
                    uw, uh = ctrapezoid_uses(t)
                    o.uint(26)
                    info |= modal_field('ctrapezoid_type', t, 0x80)
                    if uw:
                        info |= modal_field('geom_w', w, 0x40)
                    if uh:
                        info |= modal_field('geom_h', h, 0x20)
                    xi, xv = xy('geometry', x, y, 0x10, 0x08)
                    info |= xi
                    o.byte(info)
                    ld()
                    if info & 0x80:
                        o.uint(t)
                    if info & 0x40:
                        o.uint(w)
                    if info & 0x20:
                        o.uint(h)
                    modal['ctrapezoid_type'] = t
                    # a dimension the type does not use is not relied upon afterwards (readings differ on what it holds)
                    if uw:
                        modal['geom_w'] = w
                    else:
                        modal.pop('geom_w', None)
                    if uh:
                        modal['geom_h'] = h
                    else:
                        modal.pop('geom_h', None)
                    for v in xv:
                        o.sint(v)
                    stat('ctrapezoid_type_%d' % t)
                elif form == 'circle':
                    o.uint(27)
                    info |= modal_field('circle_radius', e['r'], 0x20)
                    xi, xv = xy('geometry', e['x'], e['y'], 0x10, 0x08)
                    info |= xi
                    o.byte(info)
                    ld()
                    if info & 0x20:
                        o.uint(e['r'])
                    modal['circle_radius'] = e['r']
                    for v in xv:
                        o.sint(v)
                elif form == 'polygon':
                    o.uint(21)
                    x0, y0 = e['pts'][0]
                    rel = tuple((x - x0, y - y0) for x, y in e['pts'][1:])
                    info |= modal_field('polygon_points', rel, 0x20)
                    xi, xv = xy('geometry', x0, y0, 0x10, 0x08)
                    info |= xi
                    o.byte(info)
                    ld()
                    if info & 0x20:
                        _write_pointlist(o, list(rel), True, rnd, stats)
                    modal['polygon_points'] = rel
                    for v in xv:
                        o.sint(v)
                elif form == 'path':
                    o.uint(22)
                    x0, y0 = e['pts'][0]
                    rel = tuple((x - x0, y - y0) for x, y in e['pts'][1:])
                    hw = e['halfwidth']
                    info |= modal_field('path_halfwidth', hw, 0x40)
                    es, ee = e['ext']
                    # extension scheme: 0 reuse / 1 flush / 2 half-width / 3 explicit
                    def ext_code(name, v):
                        opts_ = [3]
                        if v == 0:
                            opts_.append(1)
                        if v == hw:
                            opts_.append(2)
                        if modal.get(name) == v:
                            opts_.append(0)
                        return rnd.choice(opts_) if rnd else opts_[-1] if opts_[-1] != 0 else opts_[0]
                    cs, ce = ext_code('path_start_ext', es), ext_code('path_end_ext', ee)
                    if cs or ce or coin(0.3):
                        info |= 0x80
                    info |= modal_field('path_points', rel, 0x20)
                    xi, xv = xy('geometry', x0, y0, 0x10, 0x08)
                    info |= xi
                    o.byte(info)
                    ld()
                    if info & 0x40:
                        o.uint(hw)
                    modal['path_halfwidth'] = hw
                    if info & 0x80:
                        o.uint((cs << 2) | ce)
                        if cs == 3:
                            o.sint(es)
                        if ce == 3:
                            o.sint(ee)
                        stat('path_ext_scheme_%d%d' % (cs, ce))
                    modal['path_start_ext'], modal['path_end_ext'] = es, ee
                    if info & 0x20:
                        _write_pointlist(o, list(rel), False, rnd, stats)
                    modal['path_points'] = rel
                    for v in xv:
                        o.sint(v)
                else:
                    raise ValueError(form)
                if rep:
                    _write_repetition(o, rep, rnd, stats, modal)
            emit_props(o, e.get('props', []), modal)
            chunks.append(bytes(o.b))
        # CBLOCKs: wrap random runs of whole records of this cell (never the CELL record itself, to keep offsets meaningful)
        first, rest = chunks[0], chunks[1:]
        out = bytearray(first)
        i = 0
        while i < len(rest):
            if coin(0.25):
                j = rnd.randrange(i + 1, len(rest) + 1)
                raw = b''.join(rest[i:j])
                comp = zlib.compressobj(rnd.choice([1, 6, 9]), zlib.DEFLATED, -15)
                cz = comp.compress(raw) + comp.flush()
                co = _Out()
                co.uint(34)
                co.uint(0)
                co.uint(len(raw))
                co.uint(len(cz))
                out += co.b + cz
                stat('cblock')
                i = j
            else:
                out += rest[i]
                i += 1
        body.append((('cell', c['name']), bytes(out)))
        for k in list(scattered):
            if scattered[k] and coin(0.5):
                m = rnd.randrange(1, len(scattered[k]) + 1) if rnd else len(scattered[k])
                body.append((k if m == len(tables[k]) and len(scattered[k]) == len(tables[k]) else None, b''.join(scattered[k][:m])))
                scattered[k] = scattered[k][m:]
    for k in list(scattered):
        if scattered[k]:
            body.append((k if len(scattered[k]) == len(tables[k]) else None, b''.join(scattered[k])))
    for k in tables:
        if placement[k] == 'back':
            put_table(k)
    # ---- assemble with table offsets
    table_kinds = ['cellname', 'textstring', 'propname', 'propstring', 'layername', 'xname']

    def assemble(offs):
        o = _Out()
        o.b += head.b
        if offsets_in_start:
            for k in table_kinds:
                st, of = offs.get(k, (0, 0))
                o.uint(st)
                o.uint(of)
        positions = {}
        cell_offsets = {}
        for tag, bts in body:
            if isinstance(tag, str):
                positions[tag] = len(o.b)
            elif isinstance(tag, tuple):
                cell_offsets[tag[1]] = len(o.b)
            o.b += bts
        end_at = len(o.b)
        e_ = _Out()
        e_.uint(2)
        if not offsets_in_start:
            for k in table_kinds:
                st, of = offs.get(k, (0, 0))
                e_.uint(st)
                e_.uint(of)
        scheme = opts.get('scheme', rnd.choice([0, 1, 2]) if rnd else 0)
        tail = 1 + (4 if scheme else 0)
        padlen = 256 - len(e_.b) - tail
        # the pad b-string length prefix takes 1 byte below 128 and 2 bytes from 128 on
        n = padlen - 1 if padlen - 1 < 128 else padlen - 2
        e_.uint(n)
        e_.b += bytes(n)
        e_.uint(scheme)
        assert len(e_.b) + (4 if scheme else 0) == 256, (len(e_.b), scheme)
        o.b += e_.b
        if scheme == 1:
            o.b += struct.pack('<I', zlib.crc32(bytes(o.b)) & 0xFFFFFFFF)
        elif scheme == 2:
            o.b += struct.pack('<I', sum(o.b) & 0xFFFFFFFF)
        return bytes(o.b), positions, cell_offsets, end_at
    # offsets depend on the START length when they live in START: iterate to a fixed point
    offs = {}
    for _ in range(6):
        data, positions, cell_offsets, end_at = assemble(offs)
        new = {}
        for k in tables:
            if k in positions and placement[k] in ('front', 'back') and coin(0.8) if k not in offs else k in positions:
                strict = 1 if (placement[k] in ('front', 'back') and opts.get('strict', True) and not _names_inline(k, layout, cell_ref, text_ref, pname_ref, pstr_ref)) else 0
                new[k] = (strict, positions[k])
        if new == offs:
            break
        offs = new
    data, positions, cell_offsets, end_at = assemble(offs)
    stats['table_offsets_given'] = len(offs)
    stats['offsets_in_start'] = int(offsets_in_start)
    return data, stats, {'cell_offsets': cell_offsets, 'tables': offs}


def _names_inline(kind, layout, cell_ref, text_ref, pname_ref, pstr_ref):
    """strict mode promises that every name of that kind is given by reference; say whether some are inline"""
    if kind == 'cellname':
        for c in layout['cells']:
            if c['name'] not in cell_ref:
                return True
            for e in c['elements']:
                if e['kind'] == 'placement' and e['cellname'] not in cell_ref:
                    return True
        return False
    if kind == 'textstring':
        return any(e['kind'] == 'text' and e['text'] not in text_ref for c in layout['cells'] for e in c['elements'])
    allprops = list(layout.get('file_props', []))
    for c in layout['cells']:
        allprops += c.get('props', [])
        for e in c['elements']:
            allprops += e.get('props', [])
    if kind == 'propname':
        return any(p['name'] not in pname_ref for p in allprops)
    return any(v[0] == 's' and v[1] not in pstr_ref for p in allprops for v in p['values'])
