# C14 - point-in-polygon queries and measures vs exact integer predicates (online monitor mon_c14).
import os
import vfw


def run(tier):
    chk = vfw.Check('C14', tier)
    b = vfw.build()
    stats = vfw.run_online(chk, os.path.join(b, 'mon_c14'), 16)
    chk.coverage.update(stats)
    chk.evaluations = stats.get('contain_checks', 0) + stats.get('group_checks', 0) + stats.get('measure_checks', 0)
    exh = 'all vertex lists of length 0..4 on the 4x4 integer grid x all 81 half-integer query points'
    if tier == 'thorough':
        exh += ', plus length 5 on 4x4 (x81) and length 4 on 5x5 (x121)'
    chk.coverage['exhaustive'] = True
    chk.coverage['exhaustive_subspace'] = exh
    chk.rule = ('enumerated sub-space: ' + exh + ' (complete); then seeded random polygons of 0..30 vertices on the k/8 grid '
                '(staircase, repeated-vertex and general styles) queried at every vertex, edge mid-point, a point level with '
                'each vertex and 40 random points; groups of 0..5 polygons (each with a random repetition kind) x point lists '
                'of 0..23 points for inside/all_inside/any_inside/contain_all/contain_any; measures compared exactly '
                '(area, signed area) or to 4n ulp (perimeter). Non-trivial = query point on an edge/vertex or level with a '
                'vertex (enumerated part: counted per (polygon, point) pair, distinct by construction), random polygon '
                'with at least one boundary query, every group case.')
    chk.assumptions = ['coordinates are dyadic rationals small enough that every cross product is exact in double',
                       'exhaustive is claimed only for the enumerated grids']
    need = 69905 if tier == 'quick' else 69905 + 16 ** 5 + 25 ** 4
    chk.floor('exhaustive_polygons', stats.get('exhaustive_polygons', 0), need)
    chk.floor('contain_on_boundary', stats.get('contain_on_boundary', 0), 100000)
    chk.floor('group_empty_point_list', stats.get('group_empty_point_list', 0), 100)
    chk.floor('group_empty_polygon_list', stats.get('group_empty_polygon_list', 0), 100)
    chk.finish()


def replay(path):
    return vfw.replay_cmd(path)
