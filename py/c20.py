# C20 - containers, property lists and sorting against abstract models (online monitor mon_c20).
import os
import vfw


def run(tier):
    chk = vfw.Check('C20', tier)
    b = vfw.build()
    stats = vfw.run_online(chk, os.path.join(b, 'mon_c20'), 16)
    chk.coverage.update(stats)
    hist = sum(stats.get(k, 0) for k in ('map_histories', 'set_histories', 'tagmap_histories', 'stylemap_histories',
                                         'props_histories'))
    sorts = sum(v for k, v in stats.items() if k.startswith('sort_calls_')) + stats.get('sort_adversary_runs', 0)
    chk.evaluations = hist + sorts
    chk.rule = ('seeded operation histories (set/overwrite/get/has/del/iterate/to_array/copy/clear) over key pools mined to '
                'collide on one slot or on the last slots of the table, each compared op-by-op with std::map/std::set and '
                're-read completely through the API at check points; property-list histories vs an ordered list model; '
                'sort calls on 8 input patterns x 7 entry points + McIlroy adversary. Non-trivial: history contains a '
                'deletion followed by an occupied run (entries must be moved) or a growth step; property history removes '
                'a first/last/only entry; sort input longer than 16. Distinct = distinct op-sequence fingerprint.')
    chk.assumptions = ['FNV-1a is re-implemented only to mine colliding keys; no verdict depends on it',
                       'value type of Map is uint64_t; Set is instantiated with uint64_t (Tag)']
    for k, need in (('map_del_with_following_run', 100), ('map_del_run_wraps_table_end', 5), ('map_growth_steps', 50),
                    ('set_del_with_following_run', 100), ('tagmap_del_with_following_run', 100),
                    ('stylemap_del_with_following_run', 50), ('props_remove_first_last_or_only', 500),
                    ('props_remove_all_empties_list', 20), ('sort_calls_heap_sort', 50),
                    ('sort_adversary_forced_fallback', 1)):
        chk.floor(k, stats.get(k, 0), need)
    chk.finish()


def replay(path):
    return vfw.replay_cmd(path)
