# C10 - element transforms are the documented affine maps and compose correctly.
import copy
import math
import random

import geom
import genlib
import script
import vfw
from script import Case, fl

N = {'quick': 5000, 'thorough': 100000}
KINDS = ['p', 'f', 'r', 't', 'x', 'q']        # q: a repetition transformed on its own
ANG = [0.0, math.pi / 2, -math.pi / 2, math.pi, 0.3, -1.1, 2.0, math.pi / 4, 7.0]
MAG = [1.0, 2.0, 0.5, 1.5, -1.0, -2.0, 3.0]


def gen_ops(rnd, kind):
    n = rnd.choice([1, 1, 2, 3, 4])
    ops = []
    for _ in range(n):
        if kind in ('t', 'x'):
            name = 'transform'
        else:
            name = rnd.choice(['translate', 'scale', 'mirror', 'rotate', 'transform'])
        pt = lambda: (rnd.randrange(-40, 40) * 0.25, rnd.randrange(-40, 40) * 0.25)   # noqa: E731
        if name == 'translate':
            ops.append(('translate', pt()))
        elif name == 'scale':
            if kind == 'p':
                ops.append(('scale', (rnd.choice(MAG), rnd.choice(MAG)), pt()))
            else:
                ops.append(('scale', rnd.choice(MAG), pt()))
        elif name == 'mirror':
            a = pt()
            b = pt()
            if a == b:
                b = (a[0] + 1.0, a[1] + 0.5)
            ops.append(('mirror', a, b))
        elif name == 'rotate':
            ops.append(('rotate', rnd.choice(ANG), pt()))
        else:
            ops.append(('transform', rnd.choice(MAG), rnd.random() < 0.5, rnd.choice(ANG), pt()))
    return ops


def op_matrix(op):
    if op[0] == 'translate':
        return geom.m_translate(op[1])
    if op[0] == 'scale':
        s = op[1]
        if isinstance(s, tuple):
            return geom.m_scale(s[0], s[1], op[2])
        return geom.m_scale(s, s, op[2])
    if op[0] == 'mirror':
        return geom.m_mirror(op[1], op[2])
    if op[0] == 'rotate':
        return geom.m_rotate(op[1], op[2])
    return geom.m_placement(op[1], op[2], op[3], op[4])


def emit_op(c, h, op):
    if op[0] == 'translate':
        c.op('xform', h, 'translate', fl(op[1][0]), fl(op[1][1]))
    elif op[0] == 'scale':
        if isinstance(op[1], tuple):
            c.op('xform', h, 'scale', fl(op[1][0]), fl(op[1][1]), fl(op[2][0]), fl(op[2][1]))
        else:
            c.op('xform', h, 'scale', fl(op[1]), fl(op[2][0]), fl(op[2][1]))
    elif op[0] == 'mirror':
        c.op('xform', h, 'mirror', fl(op[1][0]), fl(op[1][1]), fl(op[2][0]), fl(op[2][1]))
    elif op[0] == 'rotate':
        c.op('xform', h, 'rotate', fl(op[1]), fl(op[2][0]), fl(op[2][1]))
    else:
        c.op('xform', h, 'transform', fl(op[1]), int(op[2]), fl(op[3]), fl(op[4][0]), fl(op[4][1]))


def make_case(i):
    sd = vfw.seed() * 1000003 + 100000 + i
    rnd = random.Random(sd)
    kind = KINDS[i % 6]
    if kind == 'q':
        return make_rep_case(i, sd, rnd)
    g = genlib.Gen(sd, dict(oas_props=False, gds_props=False, reps=(kind == 'x'), nonsimple=True, round_ends=True))
    c = Case('T%d' % i, timeout=60)
    c.op('lib', '4c', '1e-06', '1e-09')
    c.op('cell', '41', 'l0')
    c.op('cell', '42', 'l0')
    G = 0.01
    spec = None
    for k in range(2):
        if kind == 'p':
            spec = spec or {'tag': (1, 2), 'pts': g.polygon_pts(G), 'rep': None, 'props': []}
            genlib.emit_polygon(c, '-', spec)
        elif kind == 'f':
            if spec is None:
                spec = g.flexpath(G)
                spec['simple'] = False
                spec['tol'] = 1e-3
                for e in spec['elements']:
                    e['join'] = rnd.choice([0, 1, 2, 3])
                if rnd.random() < 0.4 and spec['calls'][0][1]:
                    # taper: end with a different width / offset
                    pts = spec['calls'][0][1]
                    nel = len(spec['elements'])
                    spec['calls'] = [('segment', pts[:-1])] if len(pts) > 1 else []
                    spec['calls'].append(('segment', pts[-1:], {'w': [e['width'] * rnd.choice([0.5, 1.5]) for e in spec['elements']],
                                                               'o': [e['offset'] * rnd.choice([1.0, 1.2]) for e in spec['elements']]}))
            genlib.emit_flexpath(c, '-', spec)
        elif kind == 'r':
            if spec is None:
                spec = g.robustpath(G)
                spec['simple'] = False
                spec['tol'] = 1e-3
            genlib.emit_robustpath(c, '-', spec)
        elif kind == 't':
            spec = spec or g.label(G)
            genlib.emit_label(c, '-', spec)
        else:
            if spec is None:
                spec = {'origin': (rnd.randrange(-50, 50) * 0.5, rnd.randrange(-50, 50) * 0.5), 'rotation': rnd.choice(ANG), 'mag': rnd.choice(MAG),
                        'xrefl': rnd.random() < 0.4, 'rep': g.repetition(G, True), 'props': []}
            c.handle('x')
            c.op('ref', '-', 'cell', 'c1', fl(spec['origin'][0]), fl(spec['origin'][1]), fl(spec['rotation']), fl(spec['mag']), int(spec['xrefl']))
            genlib.emit_rep(c, spec['rep'])
    ops = gen_ops(rnd, kind)
    h0, h1 = kind + '0', kind + '1'
    for op in ops:
        emit_op(c, h1, op)
    c.op('dump_el', h0, 'before')
    c.op('dump_el', h1, 'after')
    if kind in ('f', 'r'):
        c.op('to_polygons', h0)
        c.op('to_polygons', h1)
    c.meta = {'kind': kind, 'ops': ops, 'seed': sd, 'spec': spec}
    return c


def make_rep_case(i, sd, rnd):
    """the placement part of a transform (magnify, reflect across x, rotate) applied to a repetition, once or several times in a row"""
    g = genlib.Gen(sd, dict(oas_props=False, gds_props=False, reps=True, rep_zero=True))
    G = 0.01
    c = Case('T%d' % i, timeout=60)
    rep = None
    for _ in range(20):
        rep = g.repetition(G, True)
        if rep is not None:
            break
    spec = {'tag': (1, 2), 'pts': [(0.0, 0.0), (1.0, 0.0), (0.0, 1.0)], 'rep': rep, 'props': []}
    genlib.emit_polygon(c, '-', spec)
    c.op('rep_info', 'p0')
    ops = []
    for _ in range(rnd.choice([1, 1, 2, 3])):
        op = (rnd.choice(MAG), rnd.random() < 0.5, rnd.choice(ANG))
        ops.append(op)
        c.op('rep_transform', 'p0', fl(op[0]), int(op[1]), fl(op[2]))
    c.meta = {'kind': 'q', 'ops': ops, 'seed': sd, 'spec': spec}
    return c


def judge_rep(chk, c, evs):
    m = c.meta
    rp = {'case': c.text(), 'meta': {'seed': m['seed']}}
    if not script.check_exit(chk, c, evs):
        return
    info = [e for e in evs if e['op'] == 'rep_info' and e.get('k') != 'call']
    tr = [e for e in evs if e['op'] == 'rep_transform' and e.get('k') != 'call']
    if not info or len(tr) != len(m['ops']):
        chk.harness_error('%s: events missing' % c.id)
        return
    cur = pairs(info[0]['offsets'])
    M = (1.0, 0.0, 0.0, 0.0, 1.0, 0.0)
    for k, (op, e) in enumerate(zip(m['ops'], tr)):
        mag, xr, rot = op
        M = geom.m_mul(geom.m_placement(mag, xr, rot, (0.0, 0.0)), M)
        want = sorted((round(M[0] * x + M[1] * y, 9), round(M[3] * x + M[4] * y, 9)) for x, y in cur)
        got = sorted((round(x, 9), round(y, 9)) for x, y in pairs(e['offsets']))
        scale = max([1.0] + [abs(v) for p in want for v in p])
        if len(want) != len(got) or any(abs(a[0] - b[0]) > 1e-8 * scale or abs(a[1] - b[1]) > 1e-8 * scale for a, b in zip(want, got)):
            chk.violation('C10/repetition/transform', '%s repetition after transform %d of %s: vectors %s, the linear map gives %s' % (
                (m['spec']['rep'] or {}).get('kind'), k + 1, m['ops'], got[:5], want[:5]), rp)
            return
        chk.cov('repetition_transforms_checked')
    chk.cov('cases_judged')
    if len(cur) > 1:
        chk.fp(c.id)


def pairs(flat):
    return [(flat[k], flat[k + 1]) for k in range(0, len(flat), 2)]


def pts_close(A, B, tol=1e-9):
    if len(A) != len(B):
        return False
    s = max([1.0] + [abs(v) for p in A for v in p])
    return all(abs(a[0] - b[0]) <= tol * s and abs(a[1] - b[1]) <= tol * s for a, b in zip(A, B))


def placement_of(el):
    return geom.m_placement(el['mag'], el['xrefl'], el['rotation'], el['origin'])


def judge(chk, c, evs):
    if c.meta.get('kind') == 'q':
        return judge_rep(chk, c, evs)
    m = c.meta
    kind, ops = m['kind'], m['ops']
    rp = {'case': c.text(), 'meta': {'seed': m['seed'], 'ops': ops, 'kind': kind}}
    if not script.check_exit(chk, c, evs):
        return
    d = {e['label']: e['el'] for e in evs if e['op'] == 'dump_el'}
    if 'before' not in d or 'after' not in d:
        chk.harness_error('%s: dumps missing' % c.id)
        return
    M = geom.IDENT
    scale = 1.0          # product of |scale factors| (paths: uniform scalings only)
    flips = 0
    for op in ops:
        Mo = op_matrix(op)
        M = geom.m_mul(Mo, M)
        if geom.m_det(Mo) < 0:
            flips += 1
        if op[0] == 'scale' and not isinstance(op[1], tuple):
            scale *= abs(op[1])
        elif op[0] == 'transform':
            scale *= abs(op[1])
    b, a = d['before'], d['after']
    names = '+'.join(o[0] for o in ops)
    if kind == 'p':
        want = [geom.m_apply(M, p) for p in pairs(b['pts'])]
        if not pts_close(pairs(a['pts']), want):
            chk.violation('C10/polygon/' + ops[-1][0], 'polygon after %s: vertices %s..., the affine map gives %s...' % (names, pairs(a['pts'])[:2], want[:2]), rp)
    elif kind == 'f':
        want = [geom.m_apply(M, p) for p in pairs(b['spine'])]
        if not pts_close(pairs(a['spine']), want):
            chk.violation('C10/flexpath/spine', 'flexpath spine after %s: %s..., the affine map gives %s...' % (names, pairs(a['spine'])[:2], want[:2]), rp)
        sw = b['scale_width']
        for eb, ea in zip(b['elements'], a['elements']):
            hb, ha = pairs(eb['hwo']), pairs(ea['hwo'])
            wfac = scale if sw else 1.0
            ofac = scale * (-1.0 if flips % 2 else 1.0)
            want_hwo = [(hw * wfac, off * ofac) for hw, off in hb]
            if not pts_close(ha, want_hwo):
                chk.violation('C10/flexpath/width-offset', 'flexpath (scale_width=%s) after %s: half-width/offset %s..., expected %s... (widths x%g, offsets x%g)' % (
                    sw, names, ha[:2], want_hwo[:2], wfac, ofac), rp)
                break
            want_ext = (eb['ext'][0] * scale, eb['ext'][1] * scale)
            if not pts_close([tuple(ea['ext'])], [want_ext]):
                chk.violation('C10/flexpath/end-extensions', 'flexpath after %s: end extensions %s, expected %s' % (names, ea['ext'], want_ext), rp)
                break
    elif kind == 'r':
        want = geom.m_mul(M, tuple(b['trafo']))
        if not geom.m_close(tuple(a['trafo']), want):
            chk.violation('C10/robustpath/trafo', 'robustpath after %s: transformation %s, expected %s' % (names, a['trafo'], want), rp)
        wfac = scale if b['scale_width'] else 1.0
        ofac = scale * (-1.0 if flips % 2 else 1.0)
        if abs(a['width_scale'] - b['width_scale'] * wfac) > 1e-9 * max(1, abs(wfac)) or abs(a['offset_scale'] - b['offset_scale'] * ofac) > 1e-9 * max(1, abs(ofac)):
            chk.violation('C10/robustpath/width-offset', 'robustpath (scale_width=%s) after %s: width_scale %g offset_scale %g, expected %g and %g' % (
                b['scale_width'], names, a['width_scale'], a['offset_scale'], b['width_scale'] * wfac, b['offset_scale'] * ofac), rp)
        for eb, ea in zip(b['elements'], a['elements']):
            want_ext = (eb['ext'][0] * scale, eb['ext'][1] * scale)
            if not pts_close([tuple(ea['ext'])], [want_ext]):
                chk.violation('C10/robustpath/end-extensions', 'robustpath after %s: end extensions %s, expected %s' % (names, ea['ext'], want_ext), rp)
                break
    else:
        want = geom.m_mul(M, placement_of(b))
        got = placement_of(a)
        if not geom.m_close(got, want):
            chk.violation('C10/%s/placement' % ('label' if kind == 't' else 'reference'),
                          '%s after %s: fields (origin %s, rotation %g, magnification %g, reflection %s) give the map %s, the composition is %s' % (
                              'label' if kind == 't' else 'reference', names, a['origin'], a['rotation'], a['mag'], a['xrefl'], got, want), rp)
        # (the repetition of a reference is transformed separately, by Repetition::transform - decided in C11)
    # commutation: outline(T(e)) == T(outline(e)) for paths whose widths follow the scaling
    if kind in ('f', 'r'):
        tp = [e for e in evs if e['op'] == 'to_polygons' and e.get('k') != 'call']
        if len(tp) == 2 and (b['scale_width'] or abs(scale - 1.0) < 1e-12):
            P0 = [[geom.m_apply(M, p) for p in pairs(pp['pts'])] for pp in tp[0]['polys']]
            P1 = [pairs(pp['pts']) for pp in tp[1]['polys']]
            tol = (b['tolerance'] if kind == 'r' else b['tolerance']) * max(scale, 1.0)
            w = geom.region_diff(P0, P1, random.Random(m['seed'] + 2), guard=4 * tol + 1e-9, samples=150)
            chk.cov('outline_commutation_checks')
            if w:
                chk.violation('C10/%s/outline-commutation' % ('flexpath' if kind == 'f' else 'robustpath'),
                              'after %s the outline of the transformed path and the transformed outline differ at (%g,%g): covered by %d vs %d polygons' % (
                                  names, w[0], w[1], w[3], w[2]), rp)
    chk.cov('cases_judged')
    chk.cov('kind_' + kind)
    for o in ops:
        chk.cov('op_' + o[0])
    if len(ops) >= 2 or (kind in ('f', 'r') and flips):
        chk.fp(c.id)


def rep_from_dump(r):
    if r is None:
        return None
    if r['kind'] in ('rect', 'regular'):
        return r
    if r['kind'] == 'explicit':
        return {'kind': 'explicit', 'offsets': pairs(r['offsets'])}
    return r


def work(rec, b, indices):
    cases = [make_case(i) for i in indices]
    ev = script.run_cases(rec, b, cases, shards=1)
    for c in cases:
        rec.evaluations += 1
        judge(rec, c, ev.get(c.id, []))


def run(tier):
    chk = vfw.Check('C10', tier)
    b = vfw.build()
    n = N[tier]
    vfw.run_sharded(chk, b, n, work)
    c = make_case(1)
    chk.sample({'case': c.id, 'kind': c.meta['kind'], 'ops': c.meta['ops']})
    chk.rule = ('polygons, flexible paths (1-3 elements, offsets, tapers, all joins/ends), robust paths, labels and references (with every '
                'repetition kind) x sequences of 1-4 transforms drawn from translate/scale/mirror/rotate/transform with magnifications '
                '{1,2,.5,1.5,-1,-2,3}, both reflection states, right and arbitrary angles, arbitrary centres/axes. Oracle: 2x3 matrices composed by '
                'hand; polygon vertices and path spines equal the matrix image; half-widths scale by the product of |factors| iff scale_width, '
                'offsets always scale and flip once per orientation-reversing map, end extensions scale by |factor|; robust-path transformation '
                'matrix equals the product; label/reference fields must reproduce the composed placement; reference repetition vectors follow '
                'the linear part; outline(T(path)) vs T(outline(path)) by region sampling. Non-trivial: >= 2 transforms, or a reflection acting '
                'on a path.')
    chk.assumptions = ['offset sign convention: positive offset is to the left of the direction of travel; an orientation-reversing map flips it',
                       'outline commutation is sampled with a guard of 4 tolerances']
    chk.floor('cases_judged', chk.coverage.get('cases_judged', 0), int(0.95 * n))
    chk.finish()


def replay(path):
    import c01
    return c01.replay(path)
