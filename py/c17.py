# C17 - partial and alternative GDSII readers agree with the full reader (and with the independent decoder).
import random

import c03
import gds_codec
import genlib
import model
import script
import vfw
from script import Case, fl, hx

NEWTS = (2033, 4, 5, 6, 7, 8)
UNITS = [1e-6, 1e-3, 1e-9, 2e-6, 1e-5, 0.5e-6]


def make_case(i):
    sd = vfw.seed() * 1000003 + 170000 + i
    rnd = random.Random(sd)
    c = Case('P%d' % i, timeout=60)
    # one gdstk-written file in ten uses layer / type numbers above 32767 (16-bit fields with the top bit set: outside what GDSII defines,
    # but gdstk writes them, and the readers must still agree with one another on what they find)
    hightags = i % 20 == 6
    if i % 2 == 0:
        g = genlib.Gen(sd, dict(oas_props=False, nonsimple=False, max_cells=5, ref_by_name=(i % 4 == 0), max_tag=65535 if hightags else 32767))
        lib = g.library()
        lh, chs = genlib.emit_library(c, lib)
        c.op('write_gds', lh, 'orig.gds', 0, '2018 5 6 7 8 9')
        origin = 'gdstk'
        data = None
    else:
        lay = c03.gen_abstract(rnd)
        ch = gds_codec.Choices(random.Random(sd + 1), hostile=True)
        data = gds_codec.encode(lay, ch)
        c.op('mkfile', 'orig.gds', hx(data))
        origin = 'independent'
    c.op('filehex', 'orig.gds')
    c.op('gds_info', 'orig.gds')
    c.op('gds_units', 'orig.gds')
    c.op('gds_timestamp', 'orig.gds')
    c.op('read_gds', 'orig.gds', 0, 0)          # l? full
    # handles: for gdstk-origin cases l0 is the built library
    nl = 1 if origin == 'gdstk' else 0
    hfull = 'l%d' % nl
    c.op('dump_lib', hfull, 'full')
    # filter: chosen blindly from a small alphabet of tags (so that some match and some do not)
    k = rnd.randrange(1, 5)
    tags = [(rnd.choice([0, 1, 2, 3, 7, 255, 256, 32767]), rnd.choice([0, 1, 5, 7, 32767])) for _ in range(k)]
    c.op('read_gds', 'orig.gds', 0, 0, k, *[v for t in tags for v in t])
    c.op('dump_lib', 'l%d' % (nl + 1), 'filtered')
    u = rnd.choice(UNITS)
    c.op('read_gds', 'orig.gds', fl(u), 0)
    c.op('dump_lib', 'l%d' % (nl + 2), 'rescaled')
    # timestamp rewrite on a copy
    c.op('truncate', 'orig.gds', 'copy.gds', 1 << 40)
    c.op('gds_timestamp', 'copy.gds', *NEWTS)
    c.op('filehex', 'copy.gds')
    c.op('gds_timestamp', 'copy.gds')
    c.meta = {'origin': origin, 'tags': tags, 'unit': u, 'seed': sd, 'nl': nl, 'hightags': hightags}
    return c


def raw_stage(c, cell_names, rnd):
    """second stage ops (need the cell names, known only after stage one for gdstk-written files)"""
    subset = [n for n in cell_names if rnd.random() < 0.6] or cell_names[:1]
    rnd.shuffle(subset)
    c.op('read_rawcells', 'orig.gds')
    c.op('gw_write', 'raw_out.gds', hx('RAW'), '1e-06', '1e-09', 0, '2018 5 6 7 8 9', *['n' + n.hex() for n in subset])
    c.op('filehex', 'raw_out.gds')
    c.op('read_gds', 'raw_out.gds', 0, 0)
    return subset


def work(rec, b, indices):
    cases = [make_case(i) for i in indices]
    ev = script.run_cases(rec, b, cases, shards=1)
    # stage 2: raw cells (cell names come from the independent decoder of the stage-1 file)
    stage2 = []
    info = {}
    for c in cases:
        evs = ev.get(c.id, [])
        rec.evaluations += 1
        if not script.check_exit(rec, c, evs):
            continue
        fh = [e for e in evs if e['op'] == 'filehex']
        if not fh or fh[0]['hex'] is None:
            rec.harness_error('%s: no file' % c.id)
            continue
        data = bytes.fromhex(fh[0]['hex'])
        try:
            dec = gds_codec.decode(data, strict_ranges=not c.meta['hightags'])
        except gds_codec.GdsError as ex:
            rec.harness_error('%s: independent decoder rejects the source file (%s): %s' % (c.id, c.meta['origin'], ex))
            continue
        judge_stage1(rec, c, evs, data, dec)
        rnd = random.Random(c.meta['seed'] + 5)
        c2 = Case(c.id + 'r', timeout=60)
        c2.op('mkfile', 'orig.gds', hx(data))
        subset = raw_stage(c2, [cc['name'] for cc in dec['cells']], rnd)
        c2.op('dump_lib', 'l0', 'fromraw')
        c2.op('read_gds', 'orig.gds', 0, 0)
        c2.op('dump_lib', 'l1', 'fromorig')
        c2.meta = dict(c.meta)
        c2.meta['subset'] = subset
        info[c2.id] = (data, dec)
        stage2.append(c2)
    ev2 = script.run_cases(rec, b, stage2, shards=1)
    for c2 in stage2:
        evs = ev2.get(c2.id, [])
        if script.check_exit(rec, c2, evs):
            judge_stage2(rec, c2, evs, *info[c2.id])


def tagset(pairs):
    return set((a, b) for a, b in pairs)


def judge_stage1(chk, c, evs, data, dec):
    rp = {'case': c.text()[:300000], 'meta': {k: v for k, v in c.meta.items()}}
    res = {}
    for e in evs:
        if e.get('k') == 'call':
            continue
        res.setdefault(e['op'], []).append(e)
    dumps = {e['label']: e for e in res.get('dump_lib', [])}
    if not all(k in dumps for k in ('full', 'filtered', 'rescaled')):
        chk.harness_error('%s: dumps missing' % c.id)
        return
    full = dumps['full']
    # ---- summary vs independent decoder and vs the full load
    info = res['gds_info'][0]
    names = [cc['name'].decode('latin-1') for cc in dec['cells']]
    npoly = sum(1 for cc in dec['cells'] for e in cc['elements'] if e['kind'] in ('boundary', 'box'))
    npath = sum(1 for cc in dec['cells'] for e in cc['elements'] if e['kind'] == 'path')
    nref = sum(1 for cc in dec['cells'] for e in cc['elements'] if e['kind'] in ('sref', 'aref'))
    nlab = sum(1 for cc in dec['cells'] for e in cc['elements'] if e['kind'] == 'text')
    # (the decoder reads the 16-bit fields as signed; gdstk keeps tags as unsigned 32-bit numbers: same value modulo 2^32)
    M32 = 0xFFFFFFFF
    stags = tagset((e['layer'] & M32, e['datatype'] & M32) for cc in dec['cells'] for e in cc['elements'] if e['kind'] in ('boundary', 'box', 'path'))
    ltags = tagset((e['layer'] & M32, e['texttype'] & M32) for cc in dec['cells'] for e in cc['elements'] if e['kind'] == 'text')
    if info['err'] not in (0,):
        chk.violation('C17/gds_info/error-code', 'gds_info returned %d on a valid file' % info['err'], rp)
    got = (info['cell_names'], info['num_polygons'], info['num_paths'], info['num_references'], info['num_labels'],
           tagset(info['shape_tags']), tagset(info['label_tags']))
    want = (names, npoly, npath, nref, nlab, stags, ltags)
    if got != want:
        chk.violation('C17/gds_info/summary', 'gds_info reports %s; the file holds %s' % (str(got)[:500], str(want)[:500]), rp)
    # the full load must find the same
    fl_names = [cc['name'] for cc in full['cells']]
    fl_counts = (sum(len(cc['polys']) for cc in full['cells']), sum(len(cc['fpaths']) for cc in full['cells']),
                 sum(len(cc['refs']) for cc in full['cells']), sum(len(cc['labels']) for cc in full['cells']))
    fl_stags = tagset((e_['layer'], e_['type']) for cc in full['cells'] for e_ in cc['polys']) | tagset(
        (el_['layer'], el_['type']) for cc in full['cells'] for f_ in cc['fpaths'] for el_ in f_['elements'])
    fl_ltags = tagset((e_['layer'], e_['type']) for cc in full['cells'] for e_ in cc['labels'])
    if (fl_stags, fl_ltags) != (tagset(info['shape_tags']), tagset(info['label_tags'])):
        chk.violation('C17/gds_info/tags-vs-full-load', 'gds_info reports shape tags %s label tags %s; the full load finds %s and %s' % (
            sorted(tagset(info['shape_tags']))[:8], sorted(tagset(info['label_tags']))[:8], sorted(fl_stags)[:8], sorted(fl_ltags)[:8]), rp)
    if c.meta['hightags'] and any(a > 32767 or b > 32767 for a, b in fl_stags | fl_ltags):
        chk.cov('files_with_tags_above_32767')
    if fl_names != names or fl_counts != (npoly, npath, nref, nlab):
        chk.violation('C17/full-load/summary', 'full load has cells %s counts %s; the file holds %s %s' % (fl_names, fl_counts, names, (npoly, npath, nref, nlab)), rp)
    # ---- units
    gu = res['gds_units'][0]
    if gu['err'] != 0 or gu['unit'] != full['unit'] or gu['precision'] != full['precision'] or info['unit'] != full['unit'] or info['precision'] != full['precision']:
        chk.violation('C17/gds_units/values', 'gds_units gives (%r, %r), gds_info (%r, %r), the full load (%r, %r)' % (
            gu['unit'], gu['precision'], info['unit'], info['precision'], full['unit'], full['precision']), rp)
    exp_unit = float(dec['db_in_m'] / dec['db_in_user'])
    if abs(full['unit'] - exp_unit) > 1e-13 * exp_unit or abs(full['precision'] - float(dec['db_in_m'])) > 1e-14 * float(dec['db_in_m']):
        chk.violation('C17/units/vs-file', 'loaded unit/precision (%r, %r), UNITS record says (%r, %r)' % (full['unit'], full['precision'], exp_unit, float(dec['db_in_m'])), rp)
    # ---- timestamp
    ts = res['gds_timestamp']
    if ts[0]['err'] != 0 or ts[0]['tm'] != dec['bgnlib'][:6]:
        chk.violation('C17/gds_timestamp/read', 'gds_timestamp returned %s (code %d); BGNLIB holds %s' % (ts[0]['tm'], ts[0]['err'], dec['bgnlib'][:6]), rp)
    # ---- filtered load == full load minus other shape tags
    want_tags = tagset(c.meta['tags'])
    mfull = model.from_dump(full)
    mfil = model.from_dump(dumps['filtered'])
    removed = 0
    for name, cc in mfull['cells'].items():
        exp_items = {}
        for key, n in cc['items'].items():
            if key[0] in ('poly', 'path') and (key[1], key[2]) not in want_tags:
                removed += n
                continue
            exp_items[key] = n
        got_items = dict(mfil['cells'].get(name, {'items': {}})['items'])
        if got_items != exp_items:
            lost = [k for k in exp_items if got_items.get(k, 0) < exp_items[k]]
            extra = [k for k in got_items if got_items[k] > exp_items.get(k, 0)]
            chk.violation('C17/filter/contents', 'filtered load of cell %s with tags %s: missing %s, extra %s' % (
                name, sorted(want_tags), model._short(lost[:1]), model._short(extra[:1])), rp)
            break
    if set(mfil['cells']) != set(mfull['cells']):
        chk.violation('C17/filter/cells', 'filtered load has a different cell set', rp)
    # ---- rescaled load == native load rescaled
    res_d = dumps['rescaled']
    u = c.meta['unit']
    if res_d['unit'] != u or res_d['precision'] != full['precision']:
        chk.violation('C17/rescale/units', 'load with unit %r reports unit %r precision %r (native precision %r)' % (u, res_d['unit'], res_d['precision'], full['precision']), rp)
    else:
        mres = model.from_dump(res_d)
        if mres['off_grid'] or {k: v['items'] for k, v in mres['cells'].items()} != {k: v['items'] for k, v in mfull['cells'].items()}:
            chk.violation('C17/rescale/contents', 'load with target unit %r differs from the native load on the database grid (off-grid: %d)' % (u, mres['off_grid']), rp)
        # paths keep the same physical tolerance (default: one database unit) whatever unit they are loaded in
        for a, bcell in zip(full['cells'], res_d['cells']):
            for pa, pb in zip(a['fpaths'], bcell['fpaths']):
                want_tol = pa['tolerance'] * full['unit'] / u
                if abs(pb['tolerance'] - want_tol) > 1e-9 * want_tol:
                    chk.violation('C17/rescale/path-tolerance', 'a path loaded natively has tolerance %r (unit %r); loaded with unit %r it has %r, expected %r' % (
                        pa['tolerance'], full['unit'], u, pb['tolerance'], want_tol), rp)
                    break
                chk.cov('rescaled_path_tolerances')
        # one explicit coordinate: native * unit_native/u
        for a, bcell in zip(full['cells'], res_d['cells']):
            for pa, pb in zip(a['polys'], bcell['polys']):
                for x, y in zip(pa['pts'][:2], pb['pts'][:2]):
                    want_xy = x * full['unit'] / u
                    if abs(y - want_xy) > 1e-12 * max(abs(want_xy), 1e-300):
                        chk.violation('C17/rescale/coordinate', 'coordinate %r loaded natively becomes %r with unit %r (expected %r)' % (x, y, u, want_xy), rp)
                break
            break
    # ---- timestamp rewrite: only the 24-byte fields differ
    fh = res['filehex']
    if len(fh) >= 2 and fh[1]['hex'] is not None:
        new = bytes.fromhex(fh[1]['hex'])
        exp_new = bytearray(data)
        import struct
        stamp = struct.pack('>12H', *(list(NEWTS) * 2))
        for off, rt, dt, payload in gds_codec.split_records(data):
            if rt in (gds_codec.BGNLIB, gds_codec.BGNSTR):
                exp_new[off + 4:off + 28] = stamp
        if bytes(exp_new) != new:
            ndiff = sum(1 for a, bb in zip(exp_new, new) if a != bb) if len(exp_new) == len(new) else -1
            chk.violation('C17/gds_timestamp/rewrite', 'after rewriting timestamps the file differs from the original outside the timestamp fields or the fields hold other values (%d differing bytes, sizes %d/%d)' % (ndiff, len(new), len(exp_new)), rp)
        if ts[1]['tm'] != dec['bgnlib'][:6] or ts[2]['tm'] != list(NEWTS):
            chk.violation('C17/gds_timestamp/rewrite-return', 'rewrite returned %s (old %s), re-read %s (new %s)' % (ts[1]['tm'], dec['bgnlib'][:6], ts[2]['tm'], list(NEWTS)), rp)
    chk.cov('files_stage1')
    chk.cov('elements_removed_by_filter', removed)
    tags_in_file = stags
    if len(dec['cells']) >= 2 and len(tags_in_file) >= 2 and removed > 0:
        chk.fp(c.id)


def judge_stage2(chk, c, evs, data, dec):
    rp = {'case': c.text()[:300000], 'meta': {k: v for k, v in c.meta.items() if k != 'subset'}}
    res = {}
    for e in evs:
        if e.get('k') == 'call':
            continue
        res.setdefault(e['op'], []).append(e)
    rr = res['read_rawcells'][0]
    names = [cc['name'].decode('latin-1') for cc in dec['cells']]
    if rr['err'] not in (0, 4) or sorted(x['name'] for x in rr['cells']) != sorted(names):
        chk.violation('C17/read_rawcells/cells', 'read_rawcells (code %d) found %s; the file holds %s' % (rr['err'], sorted(x['name'] for x in rr['cells']), sorted(names)), rp)
        return
    by_name = {cc['name'].decode('latin-1'): cc for cc in dec['cells']}
    for x in rr['cells']:
        cc = by_name[x['name']]
        if x['size'] != cc['end'] - cc['offset']:
            chk.violation('C17/read_rawcells/size', 'raw cell %s has size %d; its records span %d bytes' % (x['name'], x['size'], cc['end'] - cc['offset']), rp)
        deps = sorted(set(e['sname'].decode('latin-1') for e in cc['elements'] if e['kind'] in ('sref', 'aref') and e['sname'].decode('latin-1') in by_name))
        if sorted(x['deps']) != deps:
            chk.violation('C17/read_rawcells/dependencies', 'raw cell %s lists dependencies %s; its references name %s' % (x['name'], sorted(x['deps']), deps), rp)
    fh = res['filehex'][0]
    if fh['hex'] is None:
        chk.harness_error('%s: no raw output' % c.id)
        return
    out = bytes.fromhex(fh['hex'])
    try:
        dec2 = gds_codec.decode(out, strict_ranges=not c.meta['hightags'])
    except gds_codec.GdsError as ex:
        chk.violation('C17/rawcell/output-invalid', 'file assembled from raw cells is rejected by the strict decoder: %s' % ex, rp)
        return
    subset = [n.decode('latin-1') for n in c.meta['subset']]
    if [cc['name'].decode('latin-1') for cc in dec2['cells']] != subset:
        chk.violation('C17/rawcell/cells', 'file assembled from raw cells %s holds %s' % (subset, [cc['name'] for cc in dec2['cells']]), rp)
        return
    for cc2 in dec2['cells']:
        src = by_name[cc2['name'].decode('latin-1')]
        if out[cc2['offset']:cc2['end']] != data[src['offset']:src['end']]:
            chk.violation('C17/rawcell/bytes', 'bytes of raw cell %s differ between source and destination file' % cc2['name'], rp)
    dumps = {e['label']: e for e in res.get('dump_lib', [])}
    if 'fromraw' in dumps and 'fromorig' in dumps:
        a = model.from_dump(dumps['fromraw'])
        bb = model.from_dump(dumps['fromorig'])
        # compare on the file's own grid: the destination file uses unit 1e-6/precision 1e-9, which only matters for scaling
        for n in subset:
            ia = a['cells'].get(n.encode('latin-1'))
            ib = bb['cells'].get(n.encode('latin-1'))
            if ia is None or ib is None or ia['items'] != ib['items']:
                chk.violation('C17/rawcell/load', 'cell %s loads differently from the copy than from the original' % n, rp)
                break
    chk.cov('files_stage2')
    chk.cov('raw_cells_copied', len(subset))


NCASES = {'quick': 1600, 'thorough': 30000}


def run(tier):
    chk = vfw.Check('C17', tier)
    b = vfw.build()
    n = NCASES[tier]
    vfw.run_sharded(chk, b, n, work)
    c = make_case(0)
    chk.sample({'case': c.id, 'origin': c.meta['origin'], 'filter_tags': c.meta['tags'], 'target_unit': c.meta['unit'], 'script_head': c.lines[-12:]})
    chk.rule = ('files alternately written by gdstk (generated libraries) and by the independent encoder (random legal serialisations); per file: '
                'gds_info / gds_units / gds_timestamp vs the independent decoder and vs the full load; read_gds with a filter set of 1-4 tags vs '
                'full load minus other shape tags; read_gds with a target unit vs the native load on the database grid; read_rawcells -> GdsWriter '
                'of a random ordered subset -> byte ranges identical to the source and loads equal; timestamp rewrite on a copy changes only the '
                'BGNLIB/BGNSTR fields. Non-trivial: >= 2 cells, >= 2 distinct shape tags and the filter removes something.')
    chk.assumptions = ['py/gds_codec.py decoder as in C03', 'the rescaled load is compared on the database grid (unit/precision of the loaded library) plus one raw coordinate']
    chk.floor('files_stage1', chk.coverage.get('files_stage1', 0), int(0.9 * n))
    chk.floor('files_stage2', chk.coverage.get('files_stage2', 0), int(0.9 * n))
    chk.finish()


def replay(path):
    import c01
    return c01.replay(path)
