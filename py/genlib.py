# Seeded generator of library specs (plain dicts) and their translation into gdsmon script lines.
# A spec describes what the layout *is*; oracles derive expectations from the spec, never from
# gdstk's dump of the built library.
import math
import random
from fractions import Fraction

from script import hx, fl

UNITS = [(1e-6, 1e-9), (1e-3, 1e-9), (1.0, 1e-3), (1e-6, 5e-10), (2.5e-7, 1e-10)]
FRACS = [0.0, 0.0, 0.0, 0.1, -0.1, 0.2, -0.2]   # sums of two never reach a half-grid tie
ANCHORS = [0, 1, 2, 4, 5, 6, 8, 9, 10]
ANGLES = [0.0, math.pi / 2, -math.pi / 2, math.pi, 0.3, -1.1, 2.0, math.pi / 4, 3 * math.pi / 2]
MAGS = [1.0, 1.0, 2.0, 0.5, 1.5, 3.0, 16.0, 0.0625, 1.0, 2.0, 0.5]      # includes exact powers of 16 (boundary of the GDSII real normalisation)


def _seg_dist(a, b, c, d):
    """distance between segments ab and cd (integers in, float out)"""
    def pd(p, q, r_):
        dx, dy = r_[0] - q[0], r_[1] - q[1]
        l2 = dx * dx + dy * dy
        t = 0.0 if l2 == 0 else max(0.0, min(1.0, ((p[0] - q[0]) * dx + (p[1] - q[1]) * dy) / l2))
        return math.hypot(p[0] - q[0] - t * dx, p[1] - q[1] - t * dy)

    def orient(p, q, r_):
        v = (q[0] - p[0]) * (r_[1] - p[1]) - (q[1] - p[1]) * (r_[0] - p[0])
        return (v > 0) - (v < 0)
    if orient(a, b, c) != orient(a, b, d) and orient(c, d, a) != orient(c, d, b):
        return 0.0
    return min(pd(a, c, d), pd(b, c, d), pd(c, a, b), pd(d, a, b))


def self_approach(ipts, clearance):
    """True if two non-adjacent segments of the polyline come closer than clearance"""
    n = len(ipts) - 1
    for i in range(n):
        for j in range(i + 2, n):
            if _seg_dist(ipts[i], ipts[i + 1], ipts[j], ipts[j + 1]) < clearance:
                return True
    return False


class Gen:
    def __init__(self, seed, opts=None):
        self.r = random.Random(seed)
        self.o = dict(max_tag=32767, gds_props=True, oas_props=False, paths=True, rpaths=True, nonsimple=True,
                      big_polys=False, max_cells=5, neg_mag=False, ref_by_name=True, label_transform=True,
                      ext_neg=True, reps=True, rep_zero=False, frac=True, round_ends=True, odd_widths=False)
        if opts:
            self.o.update(opts)

    # ---- primitives
    def tag(self):
        r = self.r
        m = self.o['max_tag']
        if r.random() < 0.7:
            return (r.choice([0, 1, 2, 3, 7]), r.choice([0, 0, 1, 5]))
        return (r.choice([m, m - 1, 255, 256, r.randrange(0, m + 1)]), r.choice([m, 0, r.randrange(0, m + 1)]))

    def coord(self, g, span=200):
        f = self.r.choice(FRACS) if self.o['frac'] else 0.0
        return (self.r.randrange(-span, span + 1) + f) * g

    def on_grid(self, g, lo, hi):
        return self.r.randrange(lo, hi + 1) * g

    def name(self, used, oasis_safe=False):
        r = self.r
        while True:
            n = r.choice(['A', 'cell', 'TOP', 'x_1', 'Sub$2', 'm', 'dev', 'q']) + str(r.randrange(0, 50))
            if r.random() < 0.3:
                n += r.choice(['', 'Z', '_odd', '#'])
            if n not in used:
                used.add(n)
                return n

    def polygon_pts(self, g):
        r = self.r
        kind = r.randrange(6)
        cx, cy = r.randrange(-150, 150), r.randrange(-150, 150)
        pts = []
        if kind == 0:      # rectangle
            w, h = r.randrange(1, 60), r.randrange(1, 60)
            pts = [(cx, cy), (cx + w, cy), (cx + w, cy + h), (cx, cy + h)]
        elif kind == 1:    # star-shaped (simple by construction)
            n = r.randrange(3, 14)
            a0 = r.uniform(0, 2 * math.pi)   # evenly spread with jitter: every angular gap < pi, so the polygon is star-shaped about its centre
            angs = [a0 + (k + r.uniform(-0.35, 0.35)) * 2 * math.pi / n for k in range(n)]
            for a in angs:
                rad = r.randrange(5, 80)
                pts.append((cx + round(rad * math.cos(a)), cy + round(rad * math.sin(a))))
        elif kind == 2:    # staircase (Manhattan)
            n = r.randrange(2, 7)
            x, y = cx, cy
            pts.append((x, y))
            for _ in range(n):
                x += r.randrange(1, 15)
                pts.append((x, y))
                y += r.randrange(1, 15)
                pts.append((x, y))
            pts.append((cx, y))
        elif kind == 3:    # triangle
            pts = [(cx, cy), (cx + r.randrange(1, 70), cy + r.randrange(-20, 20)), (cx + r.randrange(-20, 20), cy + r.randrange(1, 70))]
        elif kind == 4:    # trapezoid-ish / octagon
            w, h, c = r.randrange(10, 60), r.randrange(10, 60), r.randrange(1, 5)
            pts = [(cx + c, cy), (cx + w - c, cy), (cx + w, cy + c), (cx + w, cy + h - c), (cx + w - c, cy + h),
                   (cx + c, cy + h), (cx, cy + h - c), (cx, cy + c)]
        else:              # comb
            teeth = r.randrange(2, 6)
            x = cx
            pts = [(cx, cy)]
            for _ in range(teeth):
                pts += [(x, cy + 30), (x + 4, cy + 30), (x + 4, cy + 8), (x + 8, cy + 8)]
                x += 8
            pts += [(x, cy)]
        # drop exact duplicates of neighbours
        out = []
        for p in pts:
            if not out or out[-1] != p:
                out.append(p)
        if len(out) > 1 and out[0] == out[-1]:
            out.pop()
        fr = (lambda: self.r.choice(FRACS)) if self.o['frac'] else (lambda: 0.0)
        return [((x + fr()) * g, (y + fr()) * g) for x, y in out]

    def repetition(self, g, for_ref=False):
        r = self.r
        if not self.o['reps'] or r.random() < 0.55:
            return None
        k = r.randrange(5)
        lo = 0 if self.o['rep_zero'] else 1
        if k == 0:
            return {'kind': 'rect', 'cols': r.choice([lo, 1, 2, 3, 4]), 'rows': r.choice([lo, 1, 2, 3]),
                    'spacing': (r.choice([-1, 1]) * self.on_grid(g, 1, 90), r.choice([-1, 1]) * self.on_grid(g, 1, 90))}
        if k == 1:
            return {'kind': 'regular', 'cols': r.choice([lo, 1, 2, 3]), 'rows': r.choice([lo, 1, 2, 3]),
                    'v1': (self.on_grid(g, -60, 60), self.on_grid(g, -60, 60)),
                    'v2': (self.on_grid(g, -60, 60), self.on_grid(g, -60, 60))}
        if k == 2:
            n = r.randrange(0, 6)
            offs = [(self.on_grid(g, -90, 90), self.on_grid(g, -90, 90)) for _ in range(n)]
            if offs and r.random() < 0.3:
                offs.append(offs[0])
            return {'kind': 'explicit', 'offsets': offs}
        n = r.randrange(0, 6)
        cs = [self.on_grid(g, -90, 90) for _ in range(n)]
        if cs and r.random() < 0.3:
            cs.append(cs[0])
        return {'kind': 'ex' if k == 3 else 'ey', 'coords': cs}

    def gds_props(self):
        r = self.r
        if not self.o['gds_props'] or r.random() < 0.6:
            return []
        out = []
        used = set()
        for _ in range(r.randrange(1, 4)):
            a = r.choice([0, 1, 2, 126, 127, 32767, r.randrange(0, 32768)])
            if a in used:
                continue
            used.add(a)
            n = r.choice([0, 1, 2, 3, 8, 9])
            out.append({'gds': a, 'value': ''.join(r.choice('abcXYZ 09_') for _ in range(n))})
        return out

    def oas_props(self):
        r = self.r
        if not self.o['oas_props'] or r.random() < 0.6:
            return []
        out = []
        for _ in range(r.randrange(1, 4)):
            name = r.choice(['p', 'note', 'S_USER', 'k1', 'name with space'][:4])
            vals = []
            for _ in range(r.randrange(1, 4)):
                t = r.choice('uirsb')
                if t == 'u':
                    vals.append(('u', r.choice([0, 1, 127, 128, 2 ** 32, 2 ** 63, r.randrange(0, 2 ** 40)])))
                elif t == 'i':
                    vals.append(('i', r.choice([0, -1, 63, -64, 64, -2 ** 40, 2 ** 62, r.randrange(-2 ** 30, 2 ** 30)])))
                elif t == 'r':
                    vals.append(('r', r.choice([0.5, -0.25, 1e-3, 3.0, -7.0, 1.0 / 3.0, 2.5e10, r.uniform(-1, 1)])))
                elif t == 's':
                    vals.append(('s', ''.join(r.choice('abc XYZ09') for _ in range(r.randrange(0, 9)))))
                else:
                    vals.append(('b', bytes(r.randrange(0, 256) for _ in range(r.randrange(1, 9)))))
            out.append({'name': name, 'values': vals})
        return out

    def _spine(self, g, els, allow_oblique=True):
        """polyline with long segments (>= 4 widths) and turns of at most 90 degrees, so that neither offsets nor
        joins fold over (no degenerate self-overlap: the domain of C07 and of the GDSII path semantics)"""
        r = self.r
        x, y = r.randrange(-100, 100), r.randrange(-100, 100)
        ipts = [(x, y)]
        last = None
        oblique_ok = allow_oblique and all(e['offset'] == 0 for e in els)
        for _ in range(r.randrange(1, 6)):
            for _try in range(20):
                k = r.random()
                if k < 0.25 and oblique_ok:
                    d = (r.choice([-1, 1]) * r.randrange(60, 100), r.choice([-1, 1]) * r.randrange(60, 100))
                elif k < 0.62:
                    d = (r.choice([-1, 1]) * r.randrange(60, 140), 0)
                else:
                    d = (0, r.choice([-1, 1]) * r.randrange(60, 140))
                if last is None:
                    break
                dot = d[0] * last[0] + d[1] * last[1]
                cross = d[0] * last[1] - d[1] * last[0]
                if dot >= 0 and (cross != 0):
                    break
            else:
                break
            last = d
            x += d[0]
            y += d[1]
            ipts.append((x, y))
        return (ipts[0][0] * g, ipts[0][1] * g), [(px * g, py * g) for px, py in ipts[1:]], ipts

    def flexpath(self, g):
        r = self.r
        nel = r.choice([1, 1, 1, 2, 3])
        simple = (not self.o['nonsimple']) or r.random() < 0.6
        els = []
        for i in range(nel):
            w = self.on_grid(g, 1, 21) if (self.o.get('odd_widths') and simple) else self.on_grid(g, 1, 10) * 2      # odd widths only where no outline lands on half-grid ties
            off = 0.0 if (nel == 1 and r.random() < 0.7) else (i - (nel - 1) / 2) * self.on_grid(g, 8, 14) * 2
            ends = [0, 2, 3] + ([1] if self.o['round_ends'] else [])
            end = r.choice(ends)
            lo = -3 if self.o['ext_neg'] else 0
            ext = (self.on_grid(g, lo, 8), self.on_grid(g, lo, 8)) if end == 3 else (0.0, 0.0)
            els.append({'width': w, 'offset': off, 'tag': self.tag(), 'join': r.choice([0, 1, 2, 3]) if not simple else 0,
                        'end': end, 'ext': ext, 'bend': 0, 'bend_radius': 0.0})
        for _attempt in range(30):
            p0, pts, ipts = self._spine(g, els)
            # two legs of the path must stay apart even after the elements are displaced sideways by their offsets
            if not self_approach(ipts, 20 + 2 * max(abs(e['offset']) + e['width'] / 2 for e in els) / g):
                break
        else:
            p0, pts = (ipts[0][0] * g, ipts[0][1] * g), [(ipts[1][0] * g, ipts[1][1] * g)]
        return {'p0': p0, 'tol': 1e-2 * 10 * g, 'elements': els, 'simple': simple, 'scale_width': r.random() < 0.8,
                'calls': [('segment', pts)], 'rep': self.repetition(g), 'props': self.gds_props() + self.oas_props()}

    def robustpath(self, g):
        r = self.r
        nel = r.choice([1, 1, 2])
        simple = (not self.o['nonsimple']) or r.random() < 0.6
        els = []
        for i in range(nel):
            w = self.on_grid(g, 1, 21) if (self.o.get('odd_widths') and simple) else self.on_grid(g, 1, 10) * 2      # odd widths only where no outline lands on half-grid ties
            off = 0.0 if (nel == 1 or simple) else (i - (nel - 1) / 2) * self.on_grid(g, 8, 14) * 2
            ends = [0, 2, 3] + ([1] if self.o['round_ends'] else [])
            end = r.choice(ends)
            lo = -3 if self.o['ext_neg'] else 0
            ext = (self.on_grid(g, lo, 8), self.on_grid(g, lo, 8)) if end == 3 else (0.0, 0.0)
            els.append({'width': w, 'offset': off, 'tag': self.tag(), 'end': end, 'ext': ext})
        for _attempt in range(30):
            # simple robust paths stay Manhattan: gdstk samples each section at interior points whose individual
            # rounding would be visible on an oblique line
            p0, pts, ipts = self._spine(g, els, allow_oblique=not simple)
            if not self_approach(ipts, 20 + 2 * max(abs(e['offset']) + e['width'] / 2 for e in els) / g):
                break
        else:
            p0, pts = (ipts[0][0] * g, ipts[0][1] * g), [(ipts[1][0] * g, ipts[1][1] * g)]
        calls = [('segment', p) for p in pts]
        return {'p0': p0, 'tol': 1e-2 * 10 * g, 'max_evals': 1000, 'elements': els, 'simple': simple,
                'scale_width': r.random() < 0.8, 'calls': calls, 'rep': self.repetition(g),
                'props': self.gds_props() + self.oas_props()}

    def label(self, g):
        r = self.r
        tr = self.o['label_transform']
        return {'tag': self.tag(), 'text': r.choice(['L', 'ab', 'net_7', 'VDD!', 'odd', 'a b c', 'x' * r.randrange(1, 40)]),
                'origin': (self.coord(g), self.coord(g)), 'anchor': r.choice(ANCHORS) if tr else 0,
                'rotation': r.choice(ANGLES) if tr and r.random() < 0.5 else 0.0,
                'mag': r.choice(MAGS) if tr else 1.0, 'xrefl': tr and r.random() < 0.3,
                'rep': self.repetition(g), 'props': self.gds_props() + self.oas_props()}

    def reference(self, g, ncells_before, absent_names):
        r = self.r
        rot = r.choice(ANGLES) if r.random() < 0.6 else 0.0
        mag = r.choice(MAGS)
        if self.o['neg_mag'] and r.random() < 0.1:
            mag = -mag
        ref = {'origin': (self.on_grid(g, -200, 200), self.on_grid(g, -200, 200)), 'rotation': rot, 'mag': mag,
               'xrefl': r.random() < 0.3, 'rep': self.repetition(g, True), 'props': self.gds_props() + self.oas_props()}
        if self.o['ref_by_name'] and (ncells_before == 0 or r.random() < 0.15):
            ref['kind'] = 'name'
            ref['target'] = r.choice(absent_names)
        else:
            ref['kind'] = 'cell'
            ref['target'] = r.randrange(ncells_before)
        return ref

    def library(self):
        r = self.r
        unit, prec = r.choice(UNITS)
        g = prec / unit
        used = set()
        absent = [self.name(used) for _ in range(2)]
        cells = []
        ncells = r.randrange(1, self.o['max_cells'] + 1)
        for ci in range(ncells):
            c = {'name': self.name(used), 'polys': [], 'labels': [], 'refs': [], 'fpaths': [], 'rpaths': [], 'props': self.oas_props()}
            for _ in range(r.choice([0, 1, 1, 2, 3, 5])):
                c['polys'].append({'tag': self.tag(), 'pts': self.polygon_pts(g), 'rep': self.repetition(g),
                                   'props': self.gds_props() + self.oas_props()})
            for _ in range(r.choice([0, 0, 1, 2])):
                c['labels'].append(self.label(g))
            if self.o['paths']:
                for _ in range(r.choice([0, 0, 1, 2])):
                    c['fpaths'].append(self.flexpath(g))
            if self.o['rpaths']:
                for _ in range(r.choice([0, 0, 0, 1])):
                    c['rpaths'].append(self.robustpath(g))
            if ci > 0 or self.o['ref_by_name']:
                for _ in range(r.choice([0, 1, 1, 2, 3]) if ci > 0 else r.choice([0, 0, 1])):
                    c['refs'].append(self.reference(g, ci, absent))
            cells.append(c)
        return {'name': r.choice(['LIB', 'library', 'odd', 'x']), 'unit': unit, 'precision': prec, 'cells': cells,
                'props': self.oas_props()}


# ------------------------------------------------------------------------------------ emission
def emit_rep(case, rep):
    if rep is None:
        return
    k = rep['kind']
    if k == 'rect':
        case.op('rep', 'rect', rep['cols'], rep['rows'], fl(rep['spacing'][0]), fl(rep['spacing'][1]))
    elif k == 'regular':
        case.op('rep', 'regular', rep['cols'], rep['rows'], fl(rep['v1'][0]), fl(rep['v1'][1]), fl(rep['v2'][0]), fl(rep['v2'][1]))
    elif k == 'explicit':
        case.op('rep', 'explicit', len(rep['offsets']), *[fl(c) for p in rep['offsets'] for c in p])
    else:
        case.op('rep', k, len(rep['coords']), *[fl(c) for c in rep['coords']])


def emit_props(case, props):
    # gdstk prepends: emit in reverse so that the list order in memory equals the spec order
    for p in reversed(props):
        if 'gds' in p:
            case.op('gprop', p['gds'], hx(p['value']))
        else:
            first = True
            for t, v in reversed(p['values']):
                if t == 'u' or t == 'i':
                    case.op('prop', t, hx(p['name']), v, 1 if first else 0)
                elif t == 'r':
                    case.op('prop', 'r', hx(p['name']), fl(v), 1 if first else 0)
                elif t == 's':
                    case.op('prop', 's', hx(p['name']), hx(v), 1 if first else 0)
                else:
                    case.op('prop', 'b', hx(p['name']), hx(v), 1 if first else 0)
                first = False


def pts_tokens(pts):
    return [len(pts)] + [fl(c) for p in pts for c in p]


def emit_flexpath(case, cell_h, fp):
    h = case.handle('f')
    toks = []
    for e in fp['elements']:
        toks += [fl(e['width']), fl(e['offset']), e['tag'][0], e['tag'][1]]
    case.op('fpath', cell_h, fl(fp['p0'][0]), fl(fp['p0'][1]), len(fp['elements']), fl(fp['tol']), *toks)
    case.op('fpset', h, int(fp['simple']), int(fp['scale_width']))
    if fp.get('raith'):
        r_ = fp['raith']
        case.op('fpraith', h, hx(r_['name']), fl(r_['pitch'][0]), fl(r_['pitch'][1]), fl(r_['pitch'][2]), r_['periods'], r_['grating'], r_['dots'], r_['dwell'])
    for i, e in enumerate(fp['elements']):
        case.op('fpel', h, i, e['join'], e['end'], fl(e['ext'][0]), fl(e['ext'][1]), e['bend'], fl(e['bend_radius']))
    for call in fp['calls']:
        emit_fpcall(case, h, call)
    case.op('target', h)
    emit_rep(case, fp['rep'])
    emit_props(case, fp['props'])
    return h


def emit_fpcall(case, h, call):
    name = call[0]
    rel = 0
    w = o = '-'
    extra = call[2] if len(call) > 2 else {}
    if extra.get('rel'):
        rel = 1
    if extra.get('w') is not None:
        w = 'W ' + ' '.join(fl(x) for x in extra['w'])
    if extra.get('o') is not None:
        o = 'O ' + ' '.join(fl(x) for x in extra['o'])
    a = call[1]
    if name in ('segment', 'cubic', 'cubic_smooth', 'quadratic', 'quadratic_smooth', 'bezier'):
        case.op('fpcall', h, name, rel, w, o, *pts_tokens(a))
    elif name in ('segment1', 'quadratic_smooth1'):
        case.op('fpcall', h, name, rel, w, o, fl(a[0]), fl(a[1]))
    elif name in ('horizontal', 'vertical'):
        case.op('fpcall', h, name, rel, w, o, fl(a))
    elif name in ('horizontals', 'verticals'):
        case.op('fpcall', h, name, rel, w, o, len(a), *[fl(x) for x in a])
    elif name == 'arc':
        case.op('fpcall', h, name, rel, w, o, *[fl(x) for x in a])
    elif name == 'turn':
        case.op('fpcall', h, name, rel, w, o, fl(a[0]), fl(a[1]))
    elif name == 'parametric':
        case.op('fpcall', h, name, rel, w, o, len(a), *[fl(x) for x in a])
    elif name == 'interpolation':
        pts, angles, tens, ic, fc, cyc = a
        toks = pts_tokens(pts)
        for con, ang in angles:
            toks += [int(con), fl(ang)]
        for t0, t1 in tens:
            toks += [fl(t0), fl(t1)]
        toks += [fl(ic), fl(fc), int(cyc)]
        case.op('fpcall', h, name, rel, w, o, *toks)
    elif name == 'commands':
        toks = [len(a)] + [('@' + x) if isinstance(x, str) else fl(x) for x in a]
        case.op('fpcall', h, name, rel, w, o, *toks)
    else:
        raise ValueError(name)


def interp_tokens(spec):
    if spec is None:
        return '-'
    out = ['I']
    for s in spec:
        if s[0] in 'cls':
            out += [s[0], fl(s[1])]
        else:
            out += ['p', len(s[1])] + [fl(x) for x in s[1]]
    return ' '.join(str(x) for x in out)


def emit_rpcall(case, h, call):
    name = call[0]
    a = call[1]
    extra = call[2] if len(call) > 2 else {}
    rel = 1 if extra.get('rel') else 0
    w = interp_tokens(extra.get('w'))
    o = interp_tokens(extra.get('o'))
    if name in ('segment', 'quadratic_smooth'):
        case.op('rpcall', h, name, rel, w, o, fl(a[0]), fl(a[1]))
    elif name in ('horizontal', 'vertical'):
        case.op('rpcall', h, name, rel, w, o, fl(a))
    elif name in ('cubic', 'cubic_smooth', 'quadratic'):
        case.op('rpcall', h, name, rel, w, o, *[fl(c) for p in a for c in p])
    elif name == 'bezier':
        case.op('rpcall', h, name, rel, w, o, *pts_tokens(a))
    elif name == 'arc':
        case.op('rpcall', h, name, rel, w, o, *[fl(x) for x in a])
    elif name == 'turn':
        case.op('rpcall', h, name, rel, w, o, fl(a[0]), fl(a[1]))
    elif name == 'parametric':
        case.op('rpcall', h, name, rel, w, o, int(extra.get('grad', 1)), len(a), *[fl(x) for x in a])
    elif name == 'interpolation':
        pts, angles, tens, ic, fc, cyc = a
        toks = pts_tokens(pts)
        for con, ang in angles:
            toks += [int(con), fl(ang)]
        for t0, t1 in tens:
            toks += [fl(t0), fl(t1)]
        toks += [fl(ic), fl(fc), int(cyc)]
        case.op('rpcall', h, name, rel, w, o, *toks)
    elif name == 'commands':
        toks = [len(a)] + [('@' + x) if isinstance(x, str) else fl(x) for x in a]
        case.op('rpcall', h, name, rel, w, o, *toks)
    else:
        raise ValueError(name)


def emit_robustpath(case, cell_h, rp):
    h = case.handle('r')
    toks = []
    for e in rp['elements']:
        toks += [fl(e['width']), fl(e['offset']), e['tag'][0], e['tag'][1]]
    case.op('rpath', cell_h, fl(rp['p0'][0]), fl(rp['p0'][1]), len(rp['elements']), fl(rp['tol']), rp['max_evals'], *toks)
    case.op('rpset', h, int(rp['simple']), int(rp['scale_width']))
    for i, e in enumerate(rp['elements']):
        case.op('rpel', h, i, e['end'], fl(e['ext'][0]), fl(e['ext'][1]))
    for call in rp['calls']:
        emit_rpcall(case, h, call)
    case.op('target', h)
    emit_rep(case, rp['rep'])
    emit_props(case, rp['props'])
    return h


def emit_polygon(case, cell_h, p):
    h = case.handle('p')
    case.op('poly', cell_h, p['tag'][0], p['tag'][1], *pts_tokens(p['pts']))
    emit_rep(case, p.get('rep'))
    emit_props(case, p.get('props', []))
    return h


def emit_label(case, cell_h, l):
    h = case.handle('t')
    case.op('label', cell_h, l['tag'][0], l['tag'][1], hx(l['text']), fl(l['origin'][0]), fl(l['origin'][1]), l['anchor'],
            fl(l['rotation']), fl(l['mag']), int(l['xrefl']))
    emit_rep(case, l.get('rep'))
    emit_props(case, l.get('props', []))
    return h


def emit_library(case, lib, add_cells=None):
    """Emit the build of one library. Returns (lib handle, [cell handles])."""
    lh = case.handle('l')
    case.op('lib', hx(lib['name']), fl(lib['unit']), fl(lib['precision']))
    emit_props(case, lib.get('props', []))
    chs = []
    for ci, c in enumerate(lib['cells']):
        ch = case.handle('c')
        chs.append(ch)
        in_lib = c.get('in_lib', True)
        case.op('cell', hx(c['name']), lh if in_lib else '-')
        emit_props(case, c.get('props', []))
        for p in c['polys']:
            emit_polygon(case, ch, p)
        for f in c['fpaths']:
            emit_flexpath(case, ch, f)
        for rp in c['rpaths']:
            emit_robustpath(case, ch, rp)
        for l in c['labels']:
            emit_label(case, ch, l)
        for rf in c['refs']:
            case.handle('x')
            if rf['kind'] == 'cell':
                case.op('ref', ch, 'cell', chs[rf['target']], fl(rf['origin'][0]), fl(rf['origin'][1]), fl(rf['rotation']),
                        fl(rf['mag']), int(rf['xrefl']))
            else:
                case.op('ref', ch, 'name', hx(rf['target']), fl(rf['origin'][0]), fl(rf['origin'][1]), fl(rf['rotation']),
                        fl(rf['mag']), int(rf['xrefl']))
            emit_rep(case, rf.get('rep'))
            emit_props(case, rf.get('props', []))
    return lh, chs


# ------------------------------------------------------------------------------------ repetition semantics
def rep_offsets(rep):
    """The oracle's own enumeration of a repetition's displacement vectors (zero vector first)."""
    if rep is None:
        return [(0.0, 0.0)]
    k = rep['kind']
    if k == 'rect':
        return [(i * rep['spacing'][0], j * rep['spacing'][1]) for i in range(rep['cols']) for j in range(rep['rows'])]
    if k == 'regular':
        return [(i * rep['v1'][0] + j * rep['v2'][0], i * rep['v1'][1] + j * rep['v2'][1])
                for i in range(rep['cols']) for j in range(rep['rows'])]
    if k == 'explicit':
        return [(0.0, 0.0)] + [tuple(p) for p in rep['offsets']]
    if k == 'ex':
        return [(0.0, 0.0)] + [(c, 0.0) for c in rep['coords']]
    return [(0.0, 0.0)] + [(0.0, c) for c in rep['coords']]


def to_grid(x, unit, precision):
    """exact round-half-away-from-zero of x*unit/precision (x, unit, precision taken as the exact doubles);
    returns (integer, is_near_tie)"""
    q = Fraction(x) * Fraction(unit) / Fraction(precision)
    fl_ = q.numerator // q.denominator
    frac = q - fl_
    tie = abs(frac - Fraction(1, 2)) < Fraction(1, 10 ** 6)
    if frac >= Fraction(1, 2):
        fl_ += 1
    if q < 0 and frac == Fraction(1, 2):
        fl_ -= 1  # half away from zero for negatives
    return fl_, tie
