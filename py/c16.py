# C16 - library edits keep the cell graph consistent: histories of add/remove/rename/replace/remap/copy interleaved with
# top-level, dependency and tag queries, checked step by step against an abstract cell-graph model.
import copy
import random

import gds_codec
import script
import vfw
from script import Case, fl, hx

N = {'quick': 2500, 'thorough': 60000}
TS = [2020, 1, 1, 0, 0, 0] * 2
TAGS = [(0, 0), (1, 0), (2, 5), (7, 1), (255, 0), (1, 1)]


def raw_file(rnd):
    """a small GDSII file (independent encoder) whose structures become raw cells; returns bytes, names, direct deps"""
    names = ['RA', 'RB', 'RC', 'RD'][:rnd.randrange(2, 5)]
    deps = {}
    cells = []
    for k, n in enumerate(names):
        els = [{'kind': 'boundary', 'layer': 9, 'datatype': 9, 'xy': [(0, 0), (10, 0), (10, 10), (0, 0)], 'props': []}]
        d = set()
        for j in range(k):
            if rnd.random() < 0.5:
                d.add(names[j])
                els.append({'kind': 'sref', 'sname': names[j].encode(), 'xy': [(5, 5)], 'xrefl': False, 'mag': 1, 'angle': 0, 'props': []})
        deps[n] = d
        cells.append({'name': n.encode(), 'bgnstr': TS, 'elements': els})
    lay = {'name': b'RAW', 'db_in_user': 0.001, 'db_in_m': 1e-9, 'bgnlib': TS, 'cells': cells}
    from fractions import Fraction
    lay['db_in_user'] = Fraction(1, 1000)
    lay['db_in_m'] = Fraction(1, 10 ** 9)
    data = gds_codec.encode(lay, gds_codec.Choices(rnd, hostile=False))
    return data, names, deps


class Model:
    def __init__(self):
        self.cells = {}          # id -> {'name', 'refs': [(kind, target)], 'shape': [tags], 'label': [tags]}
        self.lib = []            # ids in the library
        self.raws = []           # raw names in the library
        self.raw_deps = {}

    def names_in_use(self):
        return set(self.cells[i]['name'] for i in self.lib) | set(self.raws)

    def direct_deps(self, cid):
        return set(t for k, t in self.cells[cid]['refs'] if k == 'cell')

    def deps(self, cid, rec):
        out = set()
        for t in self.direct_deps(cid):
            out.add(t)
            if rec:
                out |= self.deps(t, True)
        return out

    def raw_closure(self, name):
        out = set()
        for d in self.raw_deps.get(name, ()):
            out.add(d)
            out |= self.raw_closure(d)
        return out

    def raw_deps_of(self, cid, rec):
        out = set()
        for k, t in self.cells[cid]['refs']:
            if k == 'raw':
                out.add(t)
                if rec:
                    out |= self.raw_closure(t)
            elif k == 'cell' and rec:
                out |= self.raw_deps_of(t, True)
        return out

    def top_level(self):
        dep = set()
        rdep = set()
        for i in self.lib:
            dep |= self.direct_deps(i)
            rdep |= self.raw_deps_of(i, False)
        for r in self.raws:
            rdep |= set(self.raw_deps.get(r, ()))
        return set(i for i in self.lib if i not in dep), set(r for r in self.raws if r not in rdep)

    def referenced(self, cid):
        return any(('cell', cid) in self.cells[i]['refs'] for i in self.lib)


def make_case(i):
    sd = vfw.seed() * 1000003 + 160000 + i
    rnd = random.Random(sd)
    c = Case('G%d' % i, timeout=60)
    data, rnames, rdeps = raw_file(rnd)
    c.op('mkfile', 'raw.gds', hx(data))
    c.op('read_rawcells', 'raw.gds')
    c.op('lib', hx('L'), '1e-06', '1e-09')
    M = Model()
    M.raw_deps = rdeps
    ncells = rnd.randrange(3, 7)
    nspare = rnd.randrange(2, 5)
    names = ['c%d' % k for k in range(ncells + nspare)]
    absent = ['ghost1', 'ghost2']
    for k in range(ncells + nspare):
        in_lib = k < ncells
        c.op('cell', hx(names[k]), 'l0' if in_lib else '-')
        cell = {'name': names[k], 'refs': [], 'shape': [], 'label': []}
        for _ in range(rnd.randrange(0, 3)):
            tg = rnd.choice(TAGS)
            c.op('poly', 'c%d' % k, tg[0], tg[1], 3, '0.0', '0.0', '1.0', '0.0', '0.0', '1.0')
            cell['shape'].append(tg)
        for _ in range(rnd.randrange(0, 2)):
            tg = rnd.choice(TAGS)
            c.op('label', 'c%d' % k, tg[0], tg[1], hx('t'), '0.0', '0.0', 0, '0.0', '1.0', 0)
            cell['label'].append(tg)
        pool = list(range(min(k, ncells))) if in_lib else list(range(ncells))
        for _ in range(rnd.randrange(0, 4)):
            x = rnd.random()
            if x < 0.6 and pool:
                t_ = rnd.choice(pool)
                c.op('ref', 'c%d' % k, 'cell', 'c%d' % t_, '0.0', '0.0', '0.0', '1.0', 0)
                cell['refs'].append(('cell', t_))
            elif x < 0.8:
                rn = rnd.choice(rnames)
                c.op('ref', 'c%d' % k, 'rawname', hx(rn), '0.0', '0.0', '0.0', '1.0', 0)
                cell['refs'].append(('raw', rn))
            else:
                # by name: to an absent cell, or (less often) to a cell of the library - rename/replace must follow those too
                gn = rnd.choice(absent) if (rnd.random() < 0.6 or not pool) else names[rnd.choice(pool)]
                c.op('ref', 'c%d' % k, 'name', hx(gn), '0.0', '0.0', '0.0', '1.0', 0)
                cell['refs'].append(('name', gn))
        M.cells[k] = cell
        if in_lib:
            M.lib.append(k)
    # references from library cells to cells that were never added to the library (kept acyclic: the outside cell only refers to
    # library cells created before the referring one)
    for k in range(ncells):
        if rnd.random() < 0.3:
            ok_ = [s_ for s_ in range(ncells, ncells + nspare) if all(t_ < k for kind_, t_ in M.cells[s_]['refs'] if kind_ == 'cell')]
            if ok_:
                s_ = rnd.choice(ok_)
                c.op('ref', 'c%d' % k, 'cell', 'c%d' % s_, '0.0', '0.0', '0.0', '1.0', 0)
                M.cells[k]['refs'].append(('cell', s_))
    for rn in rnames:
        if rnd.random() < 0.5:
            c.op('lib_add_raw', 'l0', 'n' + rn.encode().hex())
            M.raws.append(rn)
    c.op('dump_lib', 'l0', 'start')
    steps = []
    fresh = [0]

    def new_name():
        fresh[0] += 1
        return 'n%d_%s' % (fresh[0], rnd.choice(['a', 'bb', 'ccc']))

    def query(tag):
        c.op('graph', 'l0')
        c.op('top_level', 'l0')
        present = M.names_in_use()
        byname_present = any(k_ == 'name' and t_ in present for i_ in M.lib for k_, t_ in M.cells[i_]['refs'])
        q = {'graph': snapshot(M), 'top': M.top_level(), 'tag': tag, 'byname_present': byname_present}
        if M.lib:
            cid = rnd.choice(M.lib)
            rec = rnd.random() < 0.5
            c.op('dependencies', 'c%d' % cid, int(rec))
            c.op('raw_dependencies', 'c%d' % cid, int(rec))
            q['deps'] = (cid, rec, M.deps(cid, rec), M.raw_deps_of(cid, rec))
        c.op('lib_tags', 'l0')
        q['tags'] = (set(t for i in M.lib for t in M.cells[i]['shape']), set(t for i in M.lib for t in M.cells[i]['label']))
        steps.append(q)

    query('initial')
    nontrivial = False
    nops = rnd.randrange(5, 25)
    for _ in range(nops):
        spare = [k for k in M.cells if k not in M.lib]
        x = rnd.random()
        if x < 0.12 and spare:
            k = rnd.choice(spare)
            if M.cells[k]['name'] in M.names_in_use():
                continue
            c.op('lib_add_cell', 'l0', 'c%d' % k)
            M.lib.append(k)
            query('add')
        elif x < 0.2:
            cand = [k for k in M.lib if not M.referenced(k)]
            if not cand:
                continue
            k = rnd.choice(cand)
            c.op('lib_remove_cell', 'l0', 'c%d' % k)
            M.lib.remove(k)
            query('remove')
        elif x < 0.45 and M.lib:
            k = rnd.choice(M.lib)
            old = M.cells[k]['name']
            new = new_name()
            if rnd.random() < 0.5:
                c.op('rename_cell', 'l0', 'byname', hx(old), hx(new))
            else:
                c.op('rename_cell', 'l0', 'byptr', 'c%d' % k, hx(new))
            rewrote = False
            for i in M.lib:
                refs = M.cells[i]['refs']
                for j, (kind, t_) in enumerate(refs):
                    if kind == 'name' and t_ == old:
                        refs[j] = ('name', new)
                        rewrote = True
            M.cells[k]['name'] = new
            if rewrote or M.referenced(k):
                nontrivial = True
            query('rename')
        elif x < 0.8 and rnd.random() < 0.2 and len(spare) >= 2:
            # replace a cell that is not (or no longer) in the library: nothing is inserted, references are redirected all the same
            refd = [k for k in spare if M.referenced(k)]
            old_id = rnd.choice(refd) if refd and rnd.random() < 0.8 else rnd.choice(spare)
            new_id = rnd.choice([k for k in spare if k != old_id])
            old_name, new_name_ = M.cells[old_id]['name'], M.cells[new_id]['name']
            if new_name_ in M.names_in_use() or old_name in M.names_in_use():
                continue
            T = copy.deepcopy(M.cells)
            for i_ in M.lib:
                T[i_]['refs'] = [(('cell', new_id) if r_ == ('cell', old_id) else r_) for r_ in T[i_]['refs']]

            def cyc2(v, stack, seen):
                if v in stack:
                    return True
                if v in seen:
                    return False
                seen.add(v)
                stack.add(v)
                for k_, t_ in T[v]['refs']:
                    if k_ == 'cell' and cyc2(t_, stack, seen):
                        return True
                stack.discard(v)
                return False
            if any(cyc2(v, set(), set()) for v in T):
                continue
            c.op('replace_cell', 'l0', 'c%d' % old_id, 'c%d' % new_id)
            rewrote = False
            for i in M.lib:
                refs = M.cells[i]['refs']
                for j, r_ in enumerate(refs):
                    if r_ == ('cell', old_id):
                        refs[j] = ('cell', new_id)
                        rewrote = True
                    elif r_ == ('name', old_name) and new_name_ != old_name:
                        refs[j] = ('name', new_name_)
                        rewrote = True
            if rewrote:
                nontrivial = True
            query('replace_absent')
        elif x < 0.8:
            # replace: choose overload
            olds = []
            if M.lib:
                olds.append('cell')
            if M.raws:
                olds.append('raw')
            if not olds:
                continue
            ok = rnd.choice(olds)
            nk = rnd.choice(['cell', 'raw'])
            if nk == 'cell':
                spare_ok = [k for k in spare]
                if not spare_ok:
                    continue
                new_id = rnd.choice(spare_ok)
            else:
                cand = [r for r in M.raw_deps if r not in M.raws]
                if not cand:
                    continue
                new_raw = rnd.choice(cand)
            if ok == 'cell':
                old_id = rnd.choice(M.lib)
                old_name = M.cells[old_id]['name']
            else:
                old_raw = rnd.choice(M.raws)
                old_name = old_raw
            new_name_ = M.cells[new_id]['name'] if nk == 'cell' else new_raw
            # uniqueness of names after the operation
            others = M.names_in_use() - {old_name}
            if new_name_ in others:
                continue
            if nk == 'cell' and new_id in M.lib:
                continue
            # the operation must keep the graph acyclic (domain of the property): try it on a copy of the model first
            if nk == 'cell':
                T = copy.deepcopy(M.cells)
                old_t_ = ('cell', old_id) if ok == 'cell' else ('raw', old_raw)
                libnew = [x_ for x_ in M.lib if not (ok == 'cell' and x_ == old_id)] + [new_id]
                for i_ in libnew:
                    T[i_]['refs'] = [(('cell', new_id) if r_ == old_t_ else r_) for r_ in T[i_]['refs']]

                def cyc(v, stack, seen):
                    if v in stack:
                        return True
                    if v in seen:
                        return False
                    seen.add(v)
                    stack.add(v)
                    for k_, t_ in T[v]['refs']:
                        if k_ == 'cell' and cyc(t_, stack, seen):
                            return True
                    stack.discard(v)
                    return False
                if any(cyc(v, set(), set()) for v in T):
                    continue
            oh = 'c%d' % old_id if ok == 'cell' else 'n' + old_raw.encode().hex()
            nh = 'c%d' % new_id if nk == 'cell' else 'n' + new_raw.encode().hex()
            c.op('replace_cell', 'l0', oh, nh)
            # ---- model
            if ok == 'cell' and nk == 'cell':
                M.lib[M.lib.index(old_id)] = new_id
            elif ok == 'cell' and nk == 'raw':
                M.lib.remove(old_id)
                M.raws.append(new_raw)
            elif ok == 'raw' and nk == 'cell':
                M.raws.remove(old_raw)
                M.lib.append(new_id)
            else:
                M.raws[M.raws.index(old_raw)] = new_raw
            old_t = ('cell', old_id) if ok == 'cell' else ('raw', old_raw)
            new_t = ('cell', new_id) if nk == 'cell' else ('raw', new_raw)
            rewrote = False
            for i in M.lib:
                refs = M.cells[i]['refs']
                for j, r_ in enumerate(refs):
                    if r_ == old_t:
                        refs[j] = new_t
                        rewrote = True
                    elif r_[0] == 'name' and r_[1] == old_name and new_name_ != old_name:
                        refs[j] = ('name', new_name_)
                        rewrote = True
            if rewrote:
                nontrivial = True
            query('replace_%s_%s' % (ok, nk))
        elif x < 0.9:
            n = rnd.randrange(1, 4)
            mp = {}
            for _k in range(n):
                a, b = rnd.choice(TAGS), rnd.choice(TAGS + [(9, 9)])
                mp[a] = b
            if rnd.random() < 0.5:
                # a larger map (the table grows several times while it is filled): entries for tags nobody uses, interleaved at random
                extra = [((100 + q_, q_ % 3), (200 + q_, 0)) for q_ in rnd.sample(range(40), rnd.randrange(3, 18))]
                items_ = list(mp.items()) + extra
                rnd.shuffle(items_)
                mp = dict(items_)
            toks = []
            for a, b in mp.items():
                toks += [a[0], a[1], b[0], b[1]]
            c.op('remap_tags', 'l0', len(mp), *toks)
            for i2 in M.lib:
                M.cells[i2]['shape'] = [mp.get(t_, t_) for t_ in M.cells[i2]['shape']]
                M.cells[i2]['label'] = [mp.get(t_, t_) for t_ in M.cells[i2]['label']]
            query('remap')
        else:
            deep = rnd.random() < 0.5
            c.op('lib_copy', 'l0', int(deep))
            lh = c.handle('l') if False else None
            present = M.names_in_use()
            steps.append({'tag': 'copy', 'deep': deep, 'graph': snapshot(M), 'top': M.top_level(),
                          'byname_present': any(k_ == 'name' and t_ in present for i_ in M.lib for k_, t_ in M.cells[i_]['refs'])})
            nlib = sum(1 for s_ in steps if s_['tag'] == 'copy')
            c.op('graph', 'l%d' % nlib)
            c.op('top_level', 'l%d' % nlib)
    c.op('dump_lib', 'l0', 'end')
    c.meta = {'seed': sd, 'steps': steps, 'model': M, 'nontrivial': nontrivial, 'ncells0': ncells + nspare}
    return c


def snapshot(M):
    return {'cells': {i: {'name': M.cells[i]['name'], 'refs': list(M.cells[i]['refs'])} for i in M.lib}, 'raws': sorted(M.raws)}


def graph_of(e):
    cells = {}
    for c in e['cells']:
        refs = []
        for kind, tid, tname in c['refs']:
            if kind == 'cell':
                refs.append(('cell', tid))
            elif kind == 'raw':
                refs.append(('raw', tname))
            else:
                refs.append(('name', tname))
        cells[c['id']] = {'name': c['name'], 'refs': refs}
    return {'cells': cells, 'raws': sorted(e['raws'])}


def judge(chk, c, evs):
    m = c.meta
    rp = {'case': c.text(), 'meta': {'seed': m['seed']}}
    if not script.check_exit(chk, c, evs):
        return
    it = iter([e for e in evs if e.get('k') != 'call' and e['op'] in ('graph', 'top_level', 'dependencies', 'raw_dependencies', 'lib_tags')])
    for q in m['steps']:
        try:
            g = next(it)
        except StopIteration:
            chk.harness_error('%s: fewer observations than steps' % c.id)
            return
        if q['tag'] == 'copy':
            got = graph_of(g)
            want = q['graph']
            if q['deep']:
                # new cell objects with the same names; their references keep designating the source library's cells
                gn = sorted((v['name'], sorted(map(str, v['refs']))) for v in got['cells'].values())
                wn = sorted((v['name'], sorted(map(str, v['refs']))) for v in want['cells'].values())
                if gn != wn or any(i_ < m['ncells0'] for i_ in got['cells']):
                    chk.violation('C16/copy/deep', 'deep copy: cells %s, expected (new objects) %s' % (gn[:3], wn[:3]), rp)
            else:
                if {k: (v['name'], sorted(map(str, v['refs']))) for k, v in got['cells'].items()} != {k: (v['name'], sorted(map(str, v['refs']))) for k, v in want['cells'].items()}:
                    chk.violation('C16/copy/shallow', 'shallow copy differs from its source', rp)
            if got['raws'] != want['raws']:
                chk.violation('C16/copy/raws', 'copy lists raw cells %s, source %s' % (got['raws'], want['raws']), rp)
            # top level of the copy: a shallow copy holds the same cell objects; in a deep copy every by-pointer reference still designates
            # a cell of the source library, which is not a member of the copy, so no member is referenced by another member
            tlc = next(it)
            wt_c = set(q['top'][0]) if not q['deep'] else set(got['cells'])
            if q.get('byname_present'):
                chk.cov('top_level_not_judged_by_name_reference_to_present_cell')
            elif set(tlc['cells']) != wt_c or set(tlc['raws']) != set(q['top'][1]):
                chk.violation('C16/copy/top_level', '%s copy: top_level reports cells %s raws %s; no other cell of that library references %s %s' % (
                    'deep' if q['deep'] else 'shallow', sorted(tlc['cells']), sorted(tlc['raws']), sorted(wt_c), sorted(q['top'][1])), rp)
            else:
                chk.cov('copy_top_level_judged')
            chk.cov('op_copy')
            continue
        got = graph_of(g)
        want = q['graph']
        tag = q['tag']
        if set(got['cells']) != set(want['cells']) or got['raws'] != want['raws']:
            chk.violation('C16/%s/membership' % tag, 'after %s the library holds cells %s raws %s; the model says %s %s' % (
                tag, sorted(got['cells']), got['raws'], sorted(want['cells']), want['raws']), rp)
            return
        for cid in want['cells']:
            if got['cells'][cid]['name'] != want['cells'][cid]['name']:
                chk.violation('C16/%s/cell-name' % tag, 'after %s cell #%d is named %r, expected %r' % (tag, cid, got['cells'][cid]['name'], want['cells'][cid]['name']), rp)
                return
            if got['cells'][cid]['refs'] != want['cells'][cid]['refs']:
                chk.violation('C16/%s/reference-target' % tag, 'after %s the references of cell #%d (%s) designate %s; their author meant %s' % (
                    tag, cid, want['cells'][cid]['name'], got['cells'][cid]['refs'], want['cells'][cid]['refs']), rp)
                return
        tl = next(it)
        wt, wr = q['top']
        if q.get('byname_present'):
            chk.cov('top_level_not_judged_by_name_reference_to_present_cell')
        elif set(tl['cells']) != wt or set(tl['raws']) != wr:
            chk.violation('C16/top_level', 'after %s top_level reports cells %s raws %s; the graph gives %s %s' % (tag, sorted(tl['cells']), sorted(tl['raws']), sorted(wt), sorted(wr)), rp)
        if 'deps' in q:
            d1 = next(it)
            d2 = next(it)
            cid, rec, wd, wrd = q['deps']
            if set(d1['deps']) != wd:
                chk.violation('C16/dependencies', 'get_dependencies(recursive=%s) of cell #%d: %s, the graph gives %s' % (rec, cid, sorted(d1['deps']), sorted(wd)), rp)
            if set(d2['deps']) != wrd:
                chk.violation('C16/raw_dependencies', 'get_raw_dependencies(recursive=%s) of cell #%d: %s, the graph gives %s' % (rec, cid, sorted(d2['deps']), sorted(wrd)), rp)
        tg = next(it)
        ws, wl = q['tags']
        if set(map(tuple, tg['shape_tags'])) != ws or set(map(tuple, tg['label_tags'])) != wl:
            chk.violation('C16/tags', 'after %s tags in use: shapes %s labels %s; expected %s %s' % (tag, sorted(map(tuple, tg['shape_tags'])), sorted(map(tuple, tg['label_tags'])), sorted(ws), sorted(wl)), rp)
        chk.cov('op_' + tag)
        chk.cov('steps_checked')
    # all other content untouched: element counts/geometry of cells present at start and end
    dumps = {e['label']: e for e in evs if e['op'] == 'dump_lib'}
    if 'start' in dumps and 'end' in dumps:
        s0 = {cc['id']: cc for cc in dumps['start']['cells']}
        for cc in dumps['end']['cells']:
            if cc['id'] in s0:
                a, b_ = s0[cc['id']], cc
                pa = [(tuple(p['pts'])) for p in a['polys']]
                pb = [(tuple(p['pts'])) for p in b_['polys']]
                la = [(l['text'], tuple(l['origin'])) for l in a['labels']]
                lb = [(l['text'], tuple(l['origin'])) for l in b_['labels']]
                ra = [(r['origin'], r['rotation'], r['mag'], r['xrefl']) for r in a['refs']]
                rb = [(r['origin'], r['rotation'], r['mag'], r['xrefl']) for r in b_['refs']]
                if pa != pb or la != lb or ra != rb:
                    chk.violation('C16/content-changed', 'content of cell #%d other than names/targets/tags changed during the history' % cc['id'], rp)
                    break
    chk.cov('cases_judged')
    if m['nontrivial']:
        chk.fp(c.id)


def work(rec, b, indices):
    cases = [make_case(i) for i in indices]
    ev = script.run_cases(rec, b, cases, shards=1)
    for c in cases:
        rec.evaluations += 1
        judge(rec, c, ev.get(c.id, []))


def run(tier):
    chk = vfw.Check('C16', tier)
    b = vfw.build()
    n = N[tier]
    vfw.run_sharded(chk, b, n, work)
    c = make_case(0)
    chk.sample({'case': c.id, 'operations': [q['tag'] for q in c.meta['steps']], 'script_tail': c.lines[-10:]})
    chk.rule = ('libraries of 3-6 cells (+2-4 spare cells outside the library, 2-4 raw cells read from an independently encoded file) with shared '
                'sub-cells, references by pointer, to raw cells and by name to absent cells; histories of 5-24 operations drawn from add, remove '
                '(unreferenced cells), rename (both overloads), the four replace_cell overloads, remap_tags, deep/shallow copy; after every '
                'operation the graph (each reference\'s type and target identity), top_level (also on every shallow and deep library copy), get_dependencies / get_raw_dependencies (direct '
                'or recursive) of a random cell and the tags in use are compared with an abstract cell-graph model; element content compared '
                'between start and end. Non-trivial: a rename or replace that rewrites at least one reference (followed by the queries).')
    chk.assumptions = ['top_level is not judged while a by-name reference designates a cell present in the library (the statement does not fix whether such a reference makes its target a dependency); rename/replace must still follow those references',
                       'a deep library copy keeps designating the source library\'s cells, as Reference::copy_from is written',
                       'cell and raw-cell names stay unique in the library (operations that would break this are not generated)']
    chk.floor('cases_judged', chk.coverage.get('cases_judged', 0), int(0.95 * n))
    for k in ('op_rename', 'op_replace_cell_cell', 'op_replace_cell_raw', 'op_replace_raw_cell', 'op_replace_raw_raw', 'op_replace_absent', 'op_remap', 'op_copy'):
        chk.floor(k, chk.coverage.get(k, 0), 30)
    chk.finish()


def replay(path):
    import c01
    return c01.replay(path)
