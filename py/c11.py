# C11 - repetitions enumerate exactly their offsets and expand into exactly those copies.
import copy
import math
import random

import genlib
import script
import vfw
from script import Case, fl

N = {'quick': 6000, 'thorough': 120000}
KINDS = ['p', 'f', 'r', 't', 'x']


def gen_rep(rnd):
    k = rnd.randrange(6)
    sp = lambda: rnd.choice([-1, 1]) * rnd.choice([0.5, 1.0, 2.5, 7.0, 0.001, 100.0])   # noqa: E731
    cnt = lambda: rnd.choice([0, 1, 1, 2, 3, 4, 7])                                      # noqa: E731
    if k == 0:
        return {'kind': 'rect', 'cols': cnt(), 'rows': cnt(), 'spacing': (sp(), sp())}
    if k == 1:
        return {'kind': 'regular', 'cols': cnt(), 'rows': cnt(), 'v1': (sp(), sp() * rnd.choice([0, 1])), 'v2': (sp() * rnd.choice([0, 1]), sp())}
    if k == 2:
        n = rnd.choice([0, 1, 2, 5, 12])
        offs = [(sp() * rnd.randrange(0, 5), sp() * rnd.randrange(0, 5)) for _ in range(n)]
        if offs and rnd.random() < 0.4:
            offs.append(offs[0])
        return {'kind': 'explicit', 'offsets': offs}
    if k in (3, 4):
        n = rnd.choice([0, 1, 2, 5, 12])
        cs = [sp() * rnd.randrange(0, 6) for _ in range(n)]
        if cs and rnd.random() < 0.4:
            cs.append(cs[0])
        return {'kind': 'ex' if k == 3 else 'ey', 'coords': cs}
    return {'kind': 'rect', 'cols': rnd.choice([1, 2, 30]), 'rows': rnd.choice([1, 2, 30]), 'spacing': (sp(), sp())}


def make_case(i):
    sd = vfw.seed() * 1000003 + 110000 + i
    rnd = random.Random(sd)
    kind = KINDS[i % 5]
    rep = gen_rep(rnd)
    g = genlib.Gen(sd, dict(oas_props=True, reps=False))
    c = Case('N%d' % i, timeout=60)
    c.op('lib', '4c', '1e-06', '1e-09')
    c.op('cell', '41', 'l0')
    c.op('cell', '42', 'l0')
    els = []
    for copy_i in range(2):
        if kind == 'p':
            spec = {'tag': g.tag(), 'pts': g.polygon_pts(0.001), 'rep': rep, 'props': g.gds_props() + g.oas_props()} if copy_i == 0 else copy.deepcopy(els[0])
            genlib.emit_polygon(c, '-', spec)
        elif kind == 'f':
            if copy_i == 0:
                spec = g.flexpath(0.001)
                spec['rep'] = rep
                spec['props'] = g.gds_props() + g.oas_props()
            else:
                spec = copy.deepcopy(els[0])
            genlib.emit_flexpath(c, '-', spec)
        elif kind == 'r':
            if copy_i == 0:
                spec = g.robustpath(0.001)
                spec['rep'] = rep
                spec['props'] = g.gds_props() + g.oas_props()
            else:
                spec = copy.deepcopy(els[0])
            genlib.emit_robustpath(c, '-', spec)
        elif kind == 't':
            if copy_i == 0:
                spec = g.label(0.001)
                spec['rep'] = rep
                spec['props'] = g.gds_props() + g.oas_props()
            else:
                spec = copy.deepcopy(els[0])
            genlib.emit_label(c, '-', spec)
        else:
            c.handle('x')
            spec = {'origin': (rnd.randrange(-50, 50) * 0.5, rnd.randrange(-50, 50) * 0.5), 'rotation': rnd.choice([0.0, 0.3, math.pi / 2]),
                    'mag': rnd.choice([1.0, 2.0]), 'xrefl': rnd.random() < 0.3, 'rep': rep, 'props': g.gds_props() + g.oas_props()} if copy_i == 0 else copy.deepcopy(els[0])
            c.op('ref', '-', 'cell', 'c1', fl(spec['origin'][0]), fl(spec['origin'][1]), fl(spec['rotation']), fl(spec['mag']), int(spec['xrefl']))
            genlib.emit_rep(c, spec['rep'])
            genlib.emit_props(c, spec['props'])
        els.append(spec)
    h0, h1 = kind + '0', kind + '1'
    c.op('dump_el', h0, 'before')
    c.op('rep_info', h0)
    c.op('rep_copy_info', h0)
    c.op('apply_repetition', h0)
    mag = rnd.choice([1.0, 1.0, 2.0, 0.5, -1.5])
    xr = rnd.random() < 0.5
    rot = rnd.choice([0.0, 0.0, math.pi / 2, math.pi, 0.7, -2.1])
    c.op('rep_transform', h1, fl(mag), int(xr), fl(rot))
    c.meta = {'kind': kind, 'rep': rep, 'seed': sd, 'trafo': (mag, xr, rot), 'has_props': bool(els[0]['props'])}
    return c


def close(a, b, tol=1e-9):
    return abs(a - b) <= tol * max(1.0, abs(a), abs(b))


def same_multiset(A, B, tol=1e-9):
    if len(A) != len(B):
        return False
    B = list(B)
    for a in A:
        for k, b in enumerate(B):
            if close(a[0], b[0], tol) and close(a[1], b[1], tol):
                del B[k]
                break
        else:
            return False
    return True


def pairs(flat):
    return [(flat[k], flat[k + 1]) for k in range(0, len(flat), 2)]


def anchor_of(kind, el):
    """a point that moves with the element"""
    if kind == 'p':
        return (el['pts'][0], el['pts'][1])
    if kind == 'f':
        return (el['spine'][0], el['spine'][1])
    if kind == 'r':
        t = el['trafo']
        sp = el['subpaths'][0]
        b = sp[1] if sp[0] in (0, 3, 4) else None
        if sp[0] == 0:
            b = sp[1]
        elif sp[0] in (3, 4):
            b = sp[1]
        else:
            b = el['end_point']
        return (b[0] * t[0] + b[1] * t[1] + t[2], b[0] * t[3] + b[1] * t[4] + t[5])
    return tuple(el['origin'])


def strip(kind, el, v=(0.0, 0.0)):
    """element without its position and repetition: what must be identical in every copy"""
    e = copy.deepcopy(el)
    e.pop('rep', None)
    if kind == 'p':
        pts = pairs(e.pop('pts'))
        e['shape'] = [(round(x - pts[0][0], 9), round(y - pts[0][1], 9)) for x, y in pts]
    elif kind == 'f':
        pts = pairs(e.pop('spine'))
        e['shape'] = [(round(x - pts[0][0], 9), round(y - pts[0][1], 9)) for x, y in pts]
        e.pop('last_ctrl', None)
    elif kind == 'r':
        a = anchor_of('r', el)
        t = e.pop('trafo')
        e['linear'] = [t[0], t[1], t[3], t[4]]
        # end_point and the sub-paths live in path-local coordinates: translate() only moves the transformation
    else:
        e.pop('origin')
    return e


def judge(chk, c, evs):
    m = c.meta
    kind, rep = m['kind'], m['rep']
    rp = {'case': c.text(), 'meta': {'seed': m['seed'], 'rep': rep, 'kind': kind}}
    V = genlib.rep_offsets(rep)
    empty = rep['kind'] in ('rect', 'regular') and (rep['cols'] == 0 or rep['rows'] == 0)
    if not script.check_exit(chk, c, evs):
        return
    info = [e for e in evs if e['op'] == 'rep_info' and e.get('k') != 'call']
    app = [e for e in evs if e['op'] == 'apply_repetition' and e.get('k') != 'call']
    tr = [e for e in evs if e['op'] == 'rep_transform' and e.get('k') != 'call']
    before = [e for e in evs if e['op'] == 'dump_el'][0]['el']
    if not info or not app or not tr:
        chk.harness_error('%s: events missing' % c.id)
        return
    offs = pairs(info[0]['offsets'])
    ext = pairs(info[0]['extrema'])
    if empty:
        V = []
    # ---- count / offsets / extrema
    if info[0]['count'] != len(V):
        chk.violation('C11/count', '%s: get_count %d, the repetition denotes %d vectors' % (rep['kind'], info[0]['count'], len(V)), rp)
    if not same_multiset(offs, V):
        chk.violation('C11/offsets', '%s: get_offsets yields %s..., expected %s...' % (rep['kind'], offs[:4], V[:4]), rp)
    elif offs and offs[0] != (0.0, 0.0):
        chk.violation('C11/offsets-zero-first', 'first enumerated offset is %s, not the zero vector' % (offs[0],), rp)
    if V:
        for e in ext:
            if not any(close(e[0], v[0]) and close(e[1], v[1]) for v in V):
                chk.violation('C11/extrema-not-member', '%s: extreme offset %s is not one of the vectors' % (rep['kind'], e), rp)
                break
        bb = lambda P: (min(p[0] for p in P), min(p[1] for p in P), max(p[0] for p in P), max(p[1] for p in P))   # noqa: E731
        if not ext or any(not close(a, b) for a, b in zip(bb(ext), bb(V))):
            chk.violation('C11/extrema-span', '%s: extremes %s span %s, the vectors span %s' % (rep['kind'], ext, bb(ext) if ext else None, bb(V)), rp)
    elif ext:
        chk.violation('C11/extrema-empty', 'empty lattice reports extremes %s' % ext, rp)
    # ---- a copied repetition (Repetition::copy_from, used by every element copy and hierarchy query) denotes the same vectors
    cpi = [e for e in evs if e['op'] == 'rep_copy_info' and e.get('k') != 'call']
    if not cpi:
        chk.harness_error('%s: rep_copy_info event missing' % c.id)
        return
    if cpi[0]['count'] != info[0]['count'] or not same_multiset(pairs(cpi[0]['offsets']), offs) or \
            not same_multiset(pairs(cpi[0]['extrema']), ext):
        chk.violation('C11/copy', '%s: a copy of the repetition enumerates count %d, offsets %s..., extremes %s; its source count %d, offsets %s..., extremes %s' % (
            rep['kind'], cpi[0]['count'], pairs(cpi[0]['offsets'])[:4], pairs(cpi[0]['extrema']), info[0]['count'], offs[:4], ext), rp)
    else:
        chk.cov('copies_compared')
    # ---- expansion
    a = app[0]
    copies = a['copies']
    want = V[1:] if V else []
    if len(copies) != len(want):
        chk.violation('C11/apply/copies', '%s on a %s: %d copies, expected %d' % (rep['kind'], kind, len(copies), len(want)), rp)
    else:
        a0 = anchor_of(kind, before)
        disp = [(anchor_of(kind, cp)[0] - a0[0], anchor_of(kind, cp)[1] - a0[1]) for cp in copies]
        if not same_multiset(disp, want, 1e-9):
            chk.violation('C11/apply/displacements', '%s on a %s: copies displaced by %s..., expected %s...' % (rep['kind'], kind, disp[:4], want[:4]), rp)
        base = strip(kind, before)
        for cp in copies:
            if cp.get('rep') is not None:
                chk.violation('C11/apply/copy-keeps-repetition', 'a copy still carries a repetition', rp)
                break
            if strip(kind, cp) != base:
                chk.violation('C11/apply/copy-differs', 'a copy of the %s differs from the original in more than its position' % kind, rp)
                break
    if a['orig'].get('rep') is not None:
        chk.violation('C11/apply/original-keeps-repetition', 'the original still carries its repetition after apply_repetition', rp)
    o1 = copy.deepcopy(a['orig'])
    b0 = copy.deepcopy(before)
    o1.pop('rep', None)
    b0.pop('rep', None)
    if o1 != b0:
        chk.violation('C11/apply/original-changed', 'apply_repetition changed the original beyond removing the repetition', rp)
    if a['orig_after'] != a['orig']:
        chk.violation('C11/apply/copies-not-independent', 'mutating a copy changed the original', rp)
    # ---- transform
    mag, xr, rot = m['trafo']
    ca, sa = math.cos(rot), math.sin(rot)

    def L(v):
        x, y = v[0] * mag, v[1] * mag
        if xr:
            y = -y
        return (x * ca - y * sa, x * sa + y * ca)
    Vt = [L(v) for v in V]
    offs_t = pairs(tr[0]['offsets'])
    if tr[0]['count'] != len(Vt) or not same_multiset(offs_t, Vt, 1e-9):
        chk.violation('C11/transform', '%s transformed by (mag %g, reflect %s, rot %g): offsets %s..., expected %s...' % (
            rep['kind'], mag, xr, rot, offs_t[:4], Vt[:4]), rp)
    chk.cov('cases_judged')
    chk.cov('kind_' + kind)
    chk.cov('rep_' + rep['kind'])
    if empty:
        chk.cov('empty_lattices')
    if len(V) >= 2 and m['has_props']:
        chk.fp(c.id)


def work(rec, b, indices):
    cases = [make_case(i) for i in indices]
    ev = script.run_cases(rec, b, cases, shards=1)
    for c in cases:
        rec.evaluations += 1
        judge(rec, c, ev.get(c.id, []))


def run(tier):
    chk = vfw.Check('C11', tier)
    b = vfw.build()
    n = N[tier]
    vfw.run_sharded(chk, b, n, work)
    c = make_case(3)
    chk.sample({'case': c.id, 'element_kind': c.meta['kind'], 'repetition': c.meta['rep'], 'transform': c.meta['trafo']})
    chk.rule = ('every element kind (polygon, flexpath, robustpath, label, reference; with GDSII and OASIS properties and sub-structure) x '
                'repetition drawn from all five kinds with counts 0,1,2,3,4,7,30, spacings of either sign (0.001..100), explicit lists of '
                '0..13 entries with zero and duplicate entries; get_count/get_offsets/get_extrema on the repetition and on a Repetition::copy_from copy of it (must agree), apply_repetition (copies dumped, then one '
                'copy mutated and the original dumped again) and Repetition::transform. Oracle: the checker\'s own enumeration of the vector '
                'set; empty lattices (0 columns or rows) only require mutual consistency and "no copies". Non-trivial: >= 2 vectors on an '
                'element that carries properties.')
    chk.assumptions = ['for empty lattices the stricter reading (zero vector always included) is not enforced, DESIGN.md 7/C11']
    chk.floor('cases_judged', chk.coverage.get('cases_judged', 0), int(0.95 * n))
    chk.floor('empty_lattices', chk.coverage.get('empty_lattices', 0), 50)
    chk.finish()


def replay(path):
    import c01
    return c01.replay(path)
