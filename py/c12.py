# C12 - fracture and slice partition a polygon without changing the region.
import random

import gds_codec
import genlib
import geom
import script
import vfw
from script import Case, fl, hx

N = {'quick': 2400, 'thorough': 50000}
PRECS = [1e-3, 1.0, 0.5, 1e-2, 0.25]
WRITER_LIMITS = [0, 1, 2, 3, 4, 5, 6, 8, 17, 199, 8190]


def make_case(i):
    sd = vfw.seed() * 1000003 + 120000 + i
    rnd = random.Random(sd)
    prec = rnd.choice(PRECS)
    big = rnd.random() < 0.75
    G = geom.gen_big_polygon(rnd, 5, 600 if rnd.random() < 0.3 else 120) if big else geom.gen_polygon(rnd, rnd.choice([1, 5]), 60)
    frac = rnd.random() < 0.2        # off-grid input: the original is rounded to the grid first
    fr = (lambda: rnd.choice([0.0, 0.2, -0.2, 0.3, -0.1])) if frac else (lambda: 0.0)
    pts = [((x + fr()) * prec, (y + fr()) * prec) for x, y in G]
    c = Case('F%d' % i, timeout=120)
    c.op('poly', '-', 3, 4, len(pts), *[fl(v) for p in pts for v in p])
    if rnd.random() < 0.5:
        c.op('rep', 'rect', 2, 3, fl(7 * prec), fl(-5 * prec))
    if rnd.random() < 0.5:
        c.op('gprop', 12, hx('abc'))
        c.op('prop', 'u', hx('key'), 77, 1)
    maxp = rnd.choice([5, 6, 7, 8, 10, 17, 50, 199, 200]) if rnd.random() < 0.93 else rnd.choice([0, 3, 4])
    c.op('dump_el', 'p0', 'orig')
    c.op('fracture', 'p0', maxp, fl(prec))
    # slice on either axis, cuts inside / outside / on the bounding box, duplicates
    xs = sorted(set(p[0] for p in G))
    ys = sorted(set(p[1] for p in G))
    axis = rnd.choice(['x', 'y'])
    vals = xs if axis == 'x' else ys
    lo, hi = vals[0], vals[-1]
    ncut = rnd.randrange(0, 7)
    cuts = []
    for _ in range(ncut):
        k = rnd.random()
        if k < 0.55:
            cuts.append(rnd.randrange(lo, hi + 1))
        elif k < 0.7:
            cuts.append(rnd.choice(vals))                   # through vertices
        elif k < 0.8:
            cuts.append(rnd.choice([lo, hi]))               # on the bounding box
        elif k < 0.9:
            cuts.append(rnd.choice([lo - rnd.randrange(1, 50), hi + rnd.randrange(1, 50)]))
        else:
            cuts.append(rnd.randrange(lo, hi + 1) + 0.3)    # off-grid position: the cut itself is rounded
    cuts.sort()
    c.op('slice', 'p0', axis, fl(1.0 / prec), len(cuts), *[fl(v * prec) for v in cuts])
    c.meta = {'G': G, 'pts': pts, 'prec': prec, 'maxp': maxp, 'axis': axis, 'cuts': cuts, 'seed': sd, 'frac': frac}
    # the GDSII writer applies the same partition to every polygon (and path outline) above its vertex limit
    wr = random.Random(sd + 17)
    wmaxp = wr.choice(WRITER_LIMITS)
    if prec == 1e-3 and wr.random() < 0.5:
        c.op('lib', '4c', '1e-06', '1e-09')
    else:
        c.op('lib', '4c', '1', fl(prec))
    c.op('cell', '41', 'l0')
    c.op('poly', 'c0', 3, 4, len(pts), *[fl(v) for p in pts for v in p])
    path = None
    if wr.random() < 0.5:
        nseg = wr.choice([2, 3, 5, 9, 20, 45])
        L = wr.randrange(24, 50)
        x, y = wr.randrange(-50, 50), wr.randrange(2000, 2100)       # far above the polygon
        p0 = (x, y)
        zz = []
        for k in range(nseg):
            x += L + wr.randrange(0, 10)
            y = p0[1] + (wr.randrange(0, 25) if k % 2 == 0 else -wr.randrange(0, 25))
            zz.append((x, y))
        path = {'p0': p0, 'pts': zz, 'width': wr.choice([6, 8, 10]), 'join': wr.choice([0, 0, 1, 2, 3]), 'end': wr.choice([0, 0, 1, 2])}
        fp = {'elements': [{'width': path['width'] * prec, 'offset': 0.0, 'tag': (7, 1), 'join': path['join'], 'end': path['end'],
                            'ext': (0.0, 0.0), 'bend': 0, 'bend_radius': 0.0}],
              'p0': (p0[0] * prec, p0[1] * prec), 'tol': 0.05 * prec, 'simple': False, 'scale_width': True,
              'calls': [('segment', [(px * prec, py * prec) for px, py in zz])], 'rep': None, 'props': []}
        fh = genlib.emit_flexpath(c, 'c0', fp)
        c.op('to_polygons', fh)
    c.op('write_gds', 'l0', 'w.gds', wmaxp, '2021 3 4 5 6 7')
    c.op('filehex', 'w.gds')
    c.meta['wmaxp'] = wmaxp
    c.meta['path'] = path
    return c


def snap(polys, scale):
    out = []
    off = 0
    for p in polys:
        xs = p['pts']
        pts = []
        for k in range(0, len(xs), 2):
            vx, vy = xs[k] * scale, xs[k + 1] * scale
            ix, iy = int(round(vx)), int(round(vy))
            if abs(vx - ix) > 1e-6 * max(1.0, abs(vx)) or abs(vy - iy) > 1e-6 * max(1.0, abs(vy)):
                off += 1
            pts.append((ix, iy))
        out.append(pts)
    return out, off


def judge(chk, c, evs):
    m = c.meta
    rp = {'case': c.text(), 'meta': {'seed': m['seed'], 'max_points': m['maxp'], 'precision': m['prec'], 'axis': m['axis'], 'cuts': m['cuts']}}
    np_ = [e for e in evs if e['op'] == 'fracture_no_progress']
    if np_:
        chk.violation('C12/fracture/no-progress', 'fracture re-slicing loop ran %d iterations (limit %d) with %d pieces pending: no progress' % (
            np_[0]['iterations'], np_[0]['limit'], np_[0]['result_count']), rp)
        return
    if not script.check_exit(chk, c, evs):
        return
    fr = [e for e in evs if e['op'] == 'fracture' and e.get('k') != 'call']
    sl = [e for e in evs if e['op'] == 'slice' and e.get('k') != 'call']
    orig_dump = [e for e in evs if e['op'] == 'dump_el'][0]['el']
    if not fr or not sl:
        chk.harness_error('%s: results missing' % c.id)
        return
    prec = m['prec']
    scale = 1.0 / prec
    # the original rounded to the grid (exactly as the statement says); generator fractions never produce ties
    O = [(int(round(x / prec)), int(round(y / prec))) for x, y in m['pts']]
    if not m['frac']:
        assert O == list(m['G'])
    rnd = random.Random(m['seed'] + 3)
    guard2 = 4.0
    x0, y0, x1, y1 = geom.bbox([[O]])
    # ------------------------------------------------ fracture
    maxp = m['maxp']
    pieces, off = snap(fr[0]['polys'], scale)
    if maxp < 5:
        if pieces:
            chk.violation('C12/fracture/limit-below-5', 'limit %d produced %d pieces (must leave the polygon alone)' % (maxp, len(pieces)), rp)
    else:
        # (pieces that needed no cut are plain copies of the original and may be off the grid like the original itself)
        over = [len(p) for p in pieces if len(p) > maxp]
        if over:
            chk.violation('C12/fracture/too-many-vertices', 'piece with %d vertices for limit %d' % (max(over), maxp), rp)
        for pe in fr[0]['polys']:
            if (pe['layer'], pe['type']) != (3, 4) or pe['rep'] != orig_dump['rep'] or pe['props'] != orig_dump['props']:
                chk.violation('C12/fracture/attributes', 'piece does not carry the tag/repetition/properties of the original', rp)
                break
        a_o = abs(geom.area2(O))
        a_p = sum(abs(geom.area2(p)) for p in pieces)
        slack = 2 * sum(geom.perimeter(p) for p in pieces) + 2 * geom.perimeter(O) + 16
        if abs(a_o - a_p) > slack:
            chk.violation('C12/fracture/area', 'pieces cover %d/2, the original %d/2 (slack %d/2)' % (a_p, a_o, slack), rp)
        tested = 0
        verts = O
        for t in range(1200):
            if tested >= 300:
                break
            if t % 2 == 0:
                vx, vy = rnd.choice(verts)
                px, py = 2 * vx + rnd.randrange(-15, 16) | 1, 2 * vy + rnd.randrange(-15, 16) | 1
            else:
                px, py = rnd.randrange(2 * x0 - 5, 2 * x1 + 6) | 1, rnd.randrange(2 * y0 - 5, 2 * y1 + 6) | 1
            # doubled coordinates: sample points are never on the (integer) grid lines the cuts run along
            O2 = [(2 * x, 2 * y) for x, y in O]
            if geom.min_dist2([[O2]], px, py) < 4 * guard2:
                continue
            w = geom.winding(O2, px, py)
            if w is None:
                continue
            cnt = 0
            for p in pieces:
                wp = geom.winding([(2 * x, 2 * y) for x, y in p], px, py)
                if wp is None:
                    cnt = None
                    break
                if wp != 0:
                    cnt += 1
            if cnt is None:
                continue
            tested += 1
            if (w != 0) != (cnt > 0):
                chk.violation('C12/fracture/membership', 'point (%g,%g) grid units is %s the original but covered by %d pieces' % (
                    px / 2, py / 2, 'inside' if w else 'outside', cnt), rp)
                break
            if cnt > 1:
                chk.violation('C12/fracture/overlap', 'point (%g,%g) grid units is covered by %d pieces' % (px / 2, py / 2, cnt), rp)
                break
        chk.cov('fracture_points_tested', tested)
        chk.cov('fracture_pieces', len(pieces))
        chk.cov('fracture_steps', len(fr[0]['steps']))
        if len(O) > maxp:
            chk.cov('fracture_over_limit_cases')
    # ------------------------------------------------ slice
    bins = sl[0]['bins']
    cuts = [int(round(v)) if abs(v - round(v)) > 1e-9 else int(v) for v in m['cuts']]   # cut positions are rounded to the grid
    if sl[0]['err'] != 0:
        chk.violation('C12/slice/error-code', 'slice returned %d' % sl[0]['err'], rp)
    if len(bins) != len(cuts) + 1:
        chk.violation('C12/slice/bins', '%d bins for %d cuts' % (len(bins), len(cuts)), rp)
        return
    sb = []
    for bn in bins:
        pp, off = snap(bn, scale)
        sb.append(pp)
    axis = 0 if m['axis'] == 'x' else 1
    lo, hi = (x0, x1) if axis == 0 else (y0, y1)
    # interval of bin i: (c[i-1], c[i]) with c[-1] = lower bound of the box and c[n] = upper bound
    bounds = [lo] + cuts + [hi]
    tested = 0
    crossing = any(lo < cc < hi for cc in cuts)
    O2 = [(2 * x, 2 * y) for x, y in O]
    for t in range(1200):
        if tested >= 200:
            break
        if t % 2 == 0:
            vx, vy = rnd.choice(O)
            px, py = 2 * vx + rnd.randrange(-15, 16) | 1, 2 * vy + rnd.randrange(-15, 16) | 1
        else:
            px, py = rnd.randrange(2 * x0 - 5, 2 * x1 + 6) | 1, rnd.randrange(2 * y0 - 5, 2 * y1 + 6) | 1
        if geom.min_dist2([[O2]], px, py) < 4 * guard2:
            continue
        w = geom.winding(O2, px, py)
        if w is None:
            continue
        tcoord = (px, py)[axis]
        ok = True
        for bi, pp in enumerate(sb):
            a, bnd = 2 * bounds[bi], 2 * bounds[bi + 1]
            want = (w != 0) and (min(a, bnd) < tcoord < max(a, bnd)) and a < bnd
            cnt = 0
            for p in pp:
                wp = geom.winding([(2 * x, 2 * y) for x, y in p], px, py)
                if wp is None:
                    cnt = None
                    break
                if wp != 0:
                    cnt += 1
            if cnt is None:
                ok = None
                break
            if (cnt > 0) != want or cnt > 1:
                chk.violation('C12/slice/membership', 'bin %d (between %s and %s): point (%g,%g) grid units inside original=%s covered by %d polygons of the bin' % (
                    bi, bounds[bi], bounds[bi + 1], px / 2, py / 2, w != 0, cnt), rp)
                ok = False
                break
        if ok is None:
            continue
        tested += 1
        if ok is False:
            break
    chk.cov('slice_points_tested', tested)
    judge_writer(chk, c, evs, rp, O, rnd)
    chk.cov('cases_judged')
    if (maxp >= 5 and len(O) > maxp) or crossing:
        chk.fp(c.id)


def _partition(chk, rp, key, what, O, pieces, rnd, guard2=4.0, want=150):
    """pieces (integer polygons) cover exactly the region of O: twice-area sums and exact winding numbers at sampled half-grid points"""
    a_o = abs(geom.area2(O))
    a_p = sum(abs(geom.area2(p)) for p in pieces)
    slack = 2 * sum(geom.perimeter(p) for p in pieces) + 2 * geom.perimeter(O) + 16
    if abs(a_o - a_p) > slack:
        chk.violation(key + '/area', '%s: the boundaries cover %d/2, the original %d/2 (slack %d/2)' % (what, a_p, a_o, slack), rp)
        return 0
    x0, y0, x1, y1 = geom.bbox([[O]])
    O2 = [(2 * x, 2 * y) for x, y in O]
    P2 = [[(2 * x, 2 * y) for x, y in p] for p in pieces]
    tested = 0
    for t in range(4 * want):
        if tested >= want:
            break
        if t % 2 == 0:
            vx, vy = rnd.choice(O)
            px, py = 2 * vx + rnd.randrange(-15, 16) | 1, 2 * vy + rnd.randrange(-15, 16) | 1
        else:
            px, py = rnd.randrange(2 * x0 - 5, 2 * x1 + 6) | 1, rnd.randrange(2 * y0 - 5, 2 * y1 + 6) | 1
        if geom.min_dist2([[O2]], px, py) < 4 * guard2:
            continue
        w = geom.winding(O2, px, py)
        if w is None:
            continue
        cnt = 0
        for p in P2:
            wp = geom.winding(p, px, py)
            if wp is None:
                cnt = None
                break
            if wp != 0:
                cnt += 1
        if cnt is None:
            continue
        tested += 1
        if (w != 0) != (cnt > 0):
            chk.violation(key + '/membership', '%s: point (%g,%g) grid units is %s the original but covered by %d boundaries of the file' % (
                what, px / 2, py / 2, 'inside' if w else 'outside', cnt), rp)
            break
        if cnt > 1:
            chk.violation(key + '/overlap', '%s: point (%g,%g) grid units is covered by %d boundaries of the file' % (what, px / 2, py / 2, cnt), rp)
            break
    return tested


def judge_writer(chk, c, evs, rp, O, rnd):
    """write_gds(max_points): the boundaries in the file for one polygon / one path outline are its partition (limit > 4) or the polygon
    itself (limit 0..4), read back from the bytes with the independent decoder"""
    m = c.meta
    wmaxp = m['wmaxp']
    rp = dict(rp)
    rp['meta'] = dict(rp['meta'], writer_max_points=wmaxp)
    ws = [e for e in evs if e['op'] == 'write_gds' and e.get('k') != 'call']
    fh = [e for e in evs if e['op'] == 'filehex']
    if not ws or not fh:
        chk.harness_error('%s: writer events missing' % c.id)
        return
    if ws[0]['err'] != 0:
        chk.violation('C12/writer/error-code', 'write_gds(max_points=%d) returned %d' % (wmaxp, ws[0]['err']), rp)
        return
    try:
        g = gds_codec.decode(bytes.fromhex(fh[0]['hex']))
    except gds_codec.GdsError as ex:
        chk.violation('C12/writer/decode', 'file written with max_points=%d is rejected by the independent decoder: %s' % (wmaxp, ex), rp)
        return
    els = [e for cc in g['cells'] for e in cc['elements']]
    other = [e for e in els if e['kind'] != 'boundary' or (e['layer'], e['datatype']) not in ((3, 4), (7, 1))]
    if other:
        chk.violation('C12/writer/foreign-element', 'the file holds a %s on (%s,%s) nobody created' % (other[0]['kind'], other[0].get('layer'), other[0].get('datatype')), rp)
        return
    groups = [('polygon', O, [e['xy'][:-1] for e in els if (e['layer'], e['datatype']) == (3, 4)], 0)]
    if m['path'] is not None:
        tp = [e for e in evs if e['op'] == 'to_polygons' and e.get('k') != 'call']
        if not tp or len(tp[0]['polys']) != 1:
            chk.harness_error('%s: path outline missing' % c.id)
            return
        xs = tp[0]['polys'][0]['pts']
        sc = 1.0 / m['prec']
        outl = [(int(round(xs[k] * sc)), int(round(xs[k + 1] * sc))) for k in range(0, len(xs), 2)]
        groups.append(('path outline', outl, [e['xy'][:-1] for e in els if (e['layer'], e['datatype']) == (7, 1)], 1))
    for what, orig, pieces, slack1 in groups:
        n = len(orig)
        if wmaxp < 5 or n <= wmaxp:
            # must be written as it is
            ok = len(pieces) == 1 and len(pieces[0]) == n and all(abs(a[0] - b[0]) <= slack1 and abs(a[1] - b[1]) <= slack1 for a, b in zip(pieces[0], orig))
            if not ok:
                chk.violation('C12/writer/unsplit', '%s of %d vertices written with max_points=%d: the file holds %d boundaries (%s vertices) instead of the %s itself' % (
                    what, n, wmaxp, len(pieces), [len(p) for p in pieces][:6], what), rp)
                return
            chk.cov('writer_unsplit_%s' % what.split()[0])
            continue
        over = [len(p) for p in pieces if len(p) > wmaxp]
        if over:
            chk.violation('C12/writer/too-many-vertices', '%s: boundary with %d vertices in a file written with max_points=%d' % (what, max(over), wmaxp), rp)
            return
        # (a sliver thinner than the grid may legitimately vanish: the area and membership tests decide, not the count)
        t = _partition(chk, rp, 'C12/writer', '%s, max_points=%d' % (what, wmaxp), orig, pieces, rnd)
        chk.cov('writer_points_tested', t)
        chk.cov('writer_split_%s' % what.split()[0])
        chk.cov('writer_boundaries', len(pieces))


def work(rec, b, indices):
    cases = [make_case(i) for i in indices]
    ev = script.run_cases(rec, b, cases, shards=1)
    for c in cases:
        rec.evaluations += 1
        judge(rec, c, ev.get(c.id, []))


def run(tier):
    chk = vfw.Check('C12', tier)
    b = vfw.build()
    n = N[tier]
    vfw.run_sharded(chk, b, n, work)
    c = make_case(1)
    chk.sample({'case': c.id, 'vertices': len(c.meta['G']), 'first_vertices': c.meta['G'][:8], 'max_points': c.meta['maxp'],
                'precision': c.meta['prec'], 'slice_axis': c.meta['axis'], 'cuts_grid_units': c.meta['cuts']})
    chk.rule = ('simple polygons built by construction (combs up to 150 teeth, rectilinear spirals, saw bands, stars, slivers, staircases, '
                '5..600 vertices, decorated with collinear and repeated vertices, both orientations, on or slightly off the grid) x vertex limit '
                'in {0,3,4,5,6,7,8,10,17,50,199,200} x precision in {1e-3,1e-2,0.25,0.5,1}; slice with 0..6 sorted cuts inside/outside/on the '
                'bounding box, through vertices, duplicated, off-grid. Oracle on the integer grid: piece vertex counts, copied tag/repetition/'
                'properties, exact twice-area sums, exact winding numbers at <= 300+200 points per case (half of them near vertices; points '
                'closer than 2 grid units to an edge of the original discarded): covered by exactly one piece iff inside the original; slice '
                'bin i covers exactly polygon AND strip i; hook H1 aborts and reports when the re-slicing loop exceeds 50*(n/limit+10)+1000 '
                'iterations. Non-trivial: polygon has more vertices than the limit, or a cut crosses the polygon.')
    chk.assumptions = ['input polygons are simple (constructed so; spirals additionally tested with an exact O(n^2) predicate)',
                       'points within 2 grid units of an original edge are not judged (rounding of cut points on slanted edges)']
    chk.floor('cases_judged', chk.coverage.get('cases_judged', 0), int(0.95 * n))
    chk.floor('fracture_over_limit_cases', chk.coverage.get('fracture_over_limit_cases', 0), int(0.5 * n))
    chk.finish()


def replay(path):
    import c01
    return c01.replay(path)
