# C13 - offsetting grows or shrinks polygons by the requested distance: exact region membership and distances of
# the rounded input at sample points, compared with the result outside a grid-sized guard band around d.
import math
import random

import geom
import script
import vfw
from script import Case, fl

N = {'quick': 12000, 'thorough': 200000}


def disjoint(polys, clearance):
    for i in range(len(polys)):
        for j in range(i + 1, len(polys)):
            a, b = polys[i], polys[j]
            ax0, ay0, ax1, ay1 = geom.bbox([[a]])
            bx0, by0, bx1, by1 = geom.bbox([[b]])
            if ax0 - clearance <= bx1 and bx0 - clearance <= ax1 and ay0 - clearance <= by1 and by0 - clearance <= ay1:
                return False
    return True


def gen_feature_polygon(rnd, step, min_feature=5.0):
    """simple polygon whose narrowest feature is at least min_feature grid units and without needle tips (< 20 degrees):
    see the known finding C13/needle-tip-not-offset"""
    for _ in range(200):
        p = geom.gen_polygon(rnd, step)
        if geom.min_clearance(p) >= min_feature and geom.min_angle_deg(p) >= 20.0:
            return p
    return [(0, 0), (40, 0), (40, 30), (0, 30)]


def make_case(i):
    sd = vfw.seed() * 1000003 + 130000 + i
    rnd = random.Random(sd)
    s = rnd.choice([1.0, 1000.0, 0.5, 64.0, 1e6, float(2 ** 30)])
    K = 1
    step = rnd.choice([10, 10, 20])
    mode = rnd.choice(['single', 'group', 'group', 'split', 'keyhole'])
    d = rnd.choice([1, 3, 5, 8, 12, 20, 31, 45, 70]) * rnd.choice([1, 1, -1])
    join = rnd.choice(['miter', 'bevel', 'round'])
    tol = rnd.choice([2.0, 2.0, 3.0, 5.0]) if join == 'miter' else (rnd.choice([8, 16, 64, 360]) if join == 'round' else 2.0)
    use_union = rnd.random() < 0.5
    c = Case('O%d' % i, timeout=60)
    c.op('arr', 'new')
    groups = {}
    if mode == 'single':
        P = [gen_feature_polygon(rnd, step)]
    elif mode == 'group':
        P = [gen_feature_polygon(rnd, step) for _ in range(rnd.choice([2, 3]))]
        if d < 0:
            # shrinking is judged against the boundary of the covered region; keep the members disjoint so that every
            # polygon edge is a boundary edge (overlapping members are exercised by the growing cases)
            for k in range(1, len(P)):
                P[k] = [(x + 3000 * k, y) for x, y in P[k]]
    elif mode == 'split':
        # one rectangle-like region split in two different ways (union clause)
        x, y, w, h = rnd.randrange(-40, 40, step), rnd.randrange(-40, 40, step), rnd.randrange(2 * step, 80, step), rnd.randrange(2 * step, 80, step)
        cx = x + rnd.randrange(step, w, step)
        P = [[(x, y), (cx, y), (cx, y + h), (x, y + h)], [(cx, y), (x + w, y), (x + w, y + h), (cx, y + h)]]
        use_union = True
    else:
        # keyhole produced by an earlier operation: big minus a hole strictly inside
        x, y, w, h = -40, -40, rnd.randrange(4 * step, 8 * step + 1, step), rnd.randrange(4 * step, 8 * step + 1, step)
        hx0, hy0 = x + rnd.randrange(step, w - step, step), y + rnd.randrange(step, h - step, step)
        hw, hh = rnd.randrange(step, x + w - hx0, step) if x + w - hx0 > step else step, rnd.randrange(step, y + h - hy0, step) if y + h - hy0 > step else step
        hw, hh = min(hw, x + w - hx0 - step) or step, min(hh, y + h - hy0 - step) or step
        outer = [(x, y), (x + w, y), (x + w, y + h), (x, y + h)]
        hole = [(hx0, hy0), (hx0 + hw, hy0), (hx0 + hw, hy0 + hh), (hx0, hy0 + hh)]
        P = [outer]
        groups['hole'] = hole
        use_union = True
    for p in P:
        c.op('arr_poly', 'a0', 1, 0, len(p), *[fl(v / s) for q in p for v in q])
    src = 'a0'
    if mode == 'keyhole':
        c.op('arr', 'new')
        c.op('arr_poly', 'a1', 1, 0, 4, *[fl(v / s) for q in groups['hole'] for v in q])
        c.op('boolean', 'a0', 'a1', 'not', fl(s))
        src = 'a2'
    c.op('offset', src, fl(d / s), join, fl(tol), fl(s), int(use_union))
    if mode == 'split':
        whole = [(P[0][0][0], P[0][0][1]), (P[1][1][0], P[1][1][1]), (P[1][2][0], P[1][2][1]), (P[0][3][0], P[0][3][1])]
        c.op('arr', 'new')
        c.op('arr_poly', 'a2', 1, 0, 4, *[fl(v / s) for q in whole for v in q])
        c.op('offset', 'a2', fl(d / s), join, fl(tol), fl(s), 1)
    c.meta = {'P': P, 'hole': groups.get('hole'), 's': s, 'd': d, 'join': join, 'tol': tol, 'use_union': use_union, 'mode': mode, 'seed': sd}
    return c


def snap(polys, s):
    out = []
    for p in polys:
        xs = p['pts']
        out.append([(int(round(xs[k] * s)), int(round(xs[k + 1] * s))) for k in range(0, len(xs), 2)])
    return out


def boundary_edges(polys):
    """edges of the region boundary: polygon edges minus slit edges (edges one polygon traverses in both directions)"""
    edges = []
    for p in polys:
        n = len(p)
        own = set((p[i], p[i + 1 - n]) for i in range(n))
        for (a, b) in own:
            if (b, a) in own:
                continue
            edges.append((a, b))
    return edges


def dist_edges(edges, px, py):
    best = float('inf')
    for (ax, ay), (bx, by) in edges:
        v = geom.dist2_point_seg(px, py, ax, ay, bx, by)
        if v < best:
            best = v
    return math.sqrt(best)


def judge(chk, c, evs):
    m = c.meta
    rp = {'case': c.text(), 'meta': {k: m[k] for k in ('seed', 's', 'd', 'join', 'tol', 'use_union', 'mode')}}
    if not script.check_exit(chk, c, evs):
        return
    offs = [e for e in evs if e['op'] == 'offset' and e.get('k') != 'call']
    if not offs:
        chk.harness_error('%s: no offset result' % c.id)
        return
    s, d, join, tol = m['s'], m['d'], m['join'], m['tol']
    if offs[0]['err'] != 0:
        chk.violation('C13/error-code', 'offset returned %d' % offs[0]['err'], rp)
        return
    if m['mode'] == 'keyhole':
        bres = [e for e in evs if e['op'] == 'boolean' and e.get('k') != 'call'][0]
        region = snap(bres['polys'], s)
    elif m['mode'] == 'split':
        P = m['P']      # the covered region is the whole rectangle; the shared edge is internal
        region = [[P[0][0], P[1][1], P[1][2], P[0][3]]]
    else:
        region = [list(p) for p in m['P']]
    R = snap(offs[0]['polys'], s)
    edges = boundary_edges(region)
    ad = abs(d)
    if join == 'round':
        reach = 1.0
        # nominal angular step 2*pi/tol; the number of steps per corner is rounded to an integer, so a step can be up to
        # 1.5 times the nominal one: the inscribed arc falls short of the circle by at most R*(1-cos(1.5*pi/tol))
        sag = ad * (1.0 - math.cos(1.5 * math.pi / tol))
        if sag < 0.25:
            sag = 0.25           # Clipper never uses an arc tolerance below its default of 0.25 grid units
    elif join == 'miter':
        reach = max(tol, math.sqrt(2.0))
        sag = 0.0
    else:
        reach = math.sqrt(2.0)
        sag = 0.0
    # integer offsetting: every offset vertex is rounded (<= 0.71 units) and the position of a corner point is
    # 1/sin(half angle) <= reach times as sensitive as the lines that define it (measured: a 30 degree miter tip lands
    # 5 grid units short at scale 1 and 1 unit short at scale 10 - a grid artefact, not a geometric one)
    g = 2.0 + reach + sag
    rnd = random.Random(m['seed'] + 9)
    x0, y0, x1, y1 = geom.bbox([region])
    ext = int(reach * ad) + 10
    verts = [p for poly in region for p in poly]
    tested = 0
    changed = 0
    R2 = None
    if m['mode'] == 'split' and len(offs) > 1:
        R2 = snap(offs[1]['polys'], s)
    for t in range(1500):
        if tested >= 260:
            break
        if t % 3 != 2:
            vx, vy = rnd.choice(verts)
            rr = ad * rnd.choice([0.5, 0.9, 1.1, 1.5, reach * 1.05 + 0.2]) + rnd.uniform(-3, 3)
            a = rnd.uniform(0, 2 * math.pi)
            px, py = vx + rr * math.cos(a), vy + rr * math.sin(a)
        else:
            px, py = rnd.uniform(x0 - ext, x1 + ext), rnd.uniform(y0 - ext, y1 + ext)
        # quarter-integer sample coordinates (exact in floats and in the x4 integer frame)
        qx, qy = int(round(px * 4)) | 1, int(round(py * 4)) | 1
        px, py = qx / 4.0, qy / 4.0
        reg4 = [[(4 * x, 4 * y) for x, y in p] for p in region]
        cin = geom.covered(reg4, qx, qy)
        if cin is None:
            continue
        inside = cin > 0
        dist = dist_edges(edges, px, py)
        cres = geom.covered([[(4 * x, 4 * y) for x, y in p] for p in R], qx, qy)
        if cres is None:
            continue
        res_in = cres > 0
        verdict = None
        sd = -dist if inside else dist          # signed distance to the input region's boundary
        if d > 0:
            if sd < d - g:
                verdict = True
            elif sd > reach * d + g:
                verdict = False
        else:
            if sd < -(reach * ad) - g:
                verdict = True
            elif sd > -ad + g:
                verdict = False
        if verdict is None:
            continue
        tested += 1
        if res_in != inside:
            changed += 1
        if res_in != verdict:
            chk.violation('C13/%s/%s' % ('grow' if d > 0 else 'shrink', join),
                          'offset by %g grid units (%s, tolerance %g, union %s, %s): point (%g,%g) is %s the input at distance %.3f from its boundary, '
                          'and is %s the result (should be %s)' % (d, join, tol, m['use_union'], m['mode'], px, py, 'inside' if inside else 'outside', dist,
                                                                 'inside' if res_in else 'outside', 'inside' if verdict else 'outside'), rp)
            return
        if R2 is not None:
            c2 = geom.covered([[(4 * x, 4 * y) for x, y in p] for p in R2], qx, qy)
            if c2 is not None and (c2 > 0) != res_in:
                chk.violation('C13/union-depends-on-split', 'with use_union the same region split in two gives a different result at (%g,%g)' % (px, py), rp)
                return
    chk.cov('points_tested', tested)
    chk.cov('cases_judged')
    chk.cov('mode_' + m['mode'])
    chk.cov('join_' + join)
    if changed > 0:
        chk.fp(c.id)


def work(rec, b, indices):
    cases = [make_case(i) for i in indices]
    ev = script.run_cases(rec, b, cases, shards=1)
    for c in cases:
        rec.evaluations += 1
        judge(rec, c, ev.get(c.id, []))


def probe_needle_tip(chk, b):
    """Known finding: the bundled Clipper does not offset the tip of some needle-shaped corners: the result boundary passes
    through the input vertex itself (all three join styles)."""
    P = [(-30, -50), (-20, -80), (-40, -10)]
    c = Case('probe-needle-tip')
    c.op('arr', 'new')
    c.op('arr_poly', 'a0', 1, 0, 3, *[fl(float(v)) for q in P for v in q])
    c.op('offset', 'a0', fl(7.0), 'round', fl(64.0), fl(1.0), 1)
    ev = script.run_cases(chk, b, [c], shards=1).get(c.id, [])
    if not script.check_exit(chk, c, ev):
        return
    off = [e for e in ev if e['op'] == 'offset' and e.get('k') != 'call'][0]
    R = snap(off['polys'], 1.0)
    # (-16.75,-80.75) is 3.3 grid units from the tip (-20,-80): a dilation by 7 must cover it
    cov = geom.covered([[(4 * x, 4 * y) for x, y in p] for p in R], -67, -323)
    if not cov:
        chk.violation('C13/needle-tip-not-offset', 'offset(+7, round) of the needle triangle %s does not cover (-16.75,-80.75), 3.3 grid units from '
                      'the tip (-20,-80): the result boundary runs through the tip itself' % P, {'case': c.text()})


def run(tier):
    chk = vfw.Check('C13', tier)
    b = vfw.build()
    probe_needle_tip(chk, b)
    n = N[tier]
    vfw.run_sharded(chk, b, n, work)
    c = make_case(0)
    chk.sample({'case': c.id, 'polygons': c.meta['P'], 'distance_grid_units': c.meta['d'], 'join': c.meta['join'], 'tolerance': c.meta['tol'],
                'use_union': c.meta['use_union'], 'mode': c.meta['mode'], 'scaling': c.meta['s']})
    chk.rule = ('inputs with features >= 5 grid units: single polygons, groups of 2-3 (overlapping or disjoint), one region split into two '
                'abutting rectangles (union clause), keyholes produced by an earlier boolean NOT; distances +-{0.5..45} grid units (features '
                'vanish and merge); miter (limit 2,3,5) / bevel / round (8..360 points per circle); both union settings; scalings 0.5..2^30. '
                'Oracle: exact membership of the rounded input (integer winding) and float distance to its boundary (slits removed); a point '
                'is judged only outside the band [|d|-g, reach*|d|+g], g = 2 grid units + arc sagitta, reach = 1 (round), max(limit, sqrt2) '
                '(miter), sqrt2 (bevel). Shrinking overlapping members without the union option is not judged (documented to differ). '
                'Non-trivial: some judged point changes membership between input and result.')
    chk.assumptions = ['miter limits >= 2 only (Clipper treats smaller limits as 2)', 'round joins: inscribed arcs, so the lower bound is relaxed by the sagitta']
    chk.floor('cases_judged', chk.coverage.get('cases_judged', 0), int(0.95 * n))
    for k in ('mode_keyhole', 'mode_split', 'join_round', 'join_miter', 'join_bevel'):
        chk.floor(k, chk.coverage.get(k, 0), 100)
    chk.finish()


def replay(path):
    import c01
    return c01.replay(path)
