# Canonical layout models on the integer database grid.
#   expected_gds(spec, max_points)  what a GDSII file written from the spec must hold   (oracle side, from the spec only)
#   from_dump(dump)                 what gdstk holds in memory after a load             (observation)
#   from_decoded(decoded)           what an independently decoded GDSII stream holds    (observation)
# All three produce:  {'unit','precision','cells': {name: {'items': Counter, 'region': {tag: [outlines]}}}}
import math
from collections import Counter
from fractions import Fraction

import genlib

END_TO_PATHTYPE = {0: 0, 1: 1, 2: 2, 3: 4, 4: 1}


class Ties(Exception):
    pass


def rot_canon(pts):
    """canonical rotation of a closed vertex cycle (orientation and repeated vertices preserved)"""
    n = len(pts)
    if n == 0:
        return ()
    best = min(range(n), key=lambda i: pts[i:] + pts[:i])
    return tuple(pts[best:] + pts[:best])


def norm_angle_deg(a):
    a = math.fmod(a, 360.0)
    if a < 0:
        a += 360.0
    a = round(a, 7)
    if a >= 360.0:
        a -= 360.0
    return a


def norm_real(x):
    return float('%.12g' % x)


class Grid:
    def __init__(self, unit, precision):
        self.unit = unit
        self.precision = precision
        self.ties = 0
        self.tie_examples = []

    def r(self, x):
        v, tie = genlib.to_grid(x, self.unit, self.precision)
        if tie:
            self.ties += 1
            self.tie_examples.append(x)
        return v

    def pt(self, p, off=(0.0, 0.0)):
        # gdstk adds the repetition offset in double arithmetic before scaling; the exact sum is what is meant
        return (self.r2(p[0], off[0]), self.r2(p[1], off[1]))

    def r2(self, a, b):
        q = (Fraction(a) + Fraction(b)) * Fraction(self.unit) / Fraction(self.precision)
        fl_ = q.numerator // q.denominator
        frac = q - fl_
        if abs(frac - Fraction(1, 2)) < Fraction(1, 10 ** 6):
            self.ties += 1
            self.tie_examples.append((a, b))
        if frac >= Fraction(1, 2):
            fl_ += 1
        if q < 0 and frac == Fraction(1, 2):
            fl_ -= 1
        return fl_


def gds_props_of(props):
    """GDSII can hold only the attribute/value pairs; order as written = list order"""
    out = []
    for p in props:
        if 'gds' in p:
            out.append((p['gds'], p['value'].encode('latin-1') if isinstance(p['value'], str) else bytes(p['value'])))
    return tuple(sorted(out))


def miter_center(spine, offset):
    """centre line of a path element with constant lateral offset: each segment displaced along its left normal,
    consecutive displaced segments joined at their intersection"""
    if offset == 0:
        return list(spine)
    n = len(spine)
    segs = []
    for i in range(n - 1):
        dx, dy = spine[i + 1][0] - spine[i][0], spine[i + 1][1] - spine[i][1]
        ln = math.hypot(dx, dy)
        nx, ny = -dy / ln, dx / ln
        segs.append(((spine[i][0] + nx * offset, spine[i][1] + ny * offset), (spine[i + 1][0] + nx * offset, spine[i + 1][1] + ny * offset)))
    out = [segs[0][0]]
    for i in range(len(segs) - 1):
        (a, b), (c, d) = segs[i], segs[i + 1]
        r = (b[0] - a[0], b[1] - a[1])
        s = (d[0] - c[0], d[1] - c[1])
        den = r[0] * s[1] - r[1] * s[0]
        if abs(den) < 1e-12 * math.hypot(*r) * math.hypot(*s):
            out.append(b)
        else:
            t = ((c[0] - a[0]) * s[1] - (c[1] - a[1]) * s[0]) / den
            out.append((a[0] + t * r[0], a[1] + t * r[1]))
    out.append(segs[-1][1])
    return out


def simplify_polyline(pts):
    """drop repeated points and interior points that are collinear with their neighbours (same direction)"""
    out = []
    for p in pts:
        if out and out[-1] == p:
            continue
        while len(out) >= 2:
            a, b = out[-2], out[-1]
            cr = (b[0] - a[0]) * (p[1] - b[1]) - (b[1] - a[1]) * (p[0] - b[0])
            dt = (b[0] - a[0]) * (p[0] - b[0]) + (b[1] - a[1]) * (p[1] - b[1])
            if cr == 0 and dt > 0:
                out.pop()
            else:
                break
        out.append(p)
    return tuple(out)


def spine_of_flexpath(fp):
    pts = [tuple(fp['p0'])]
    for call in fp['calls']:
        assert call[0] == 'segment'
        pts += [tuple(p) for p in call[1]]
    return pts


def spine_of_robustpath(rp):
    pts = [tuple(rp['p0'])]
    for call in rp['calls']:
        assert call[0] == 'segment'
        pts.append(tuple(call[1]))
    return pts


def expected_gds(spec, max_points=0, outlines=None):
    """outlines: {(cell index, 'f'|'r', path index): [polygon point lists]} observed from gdstk for non-simple paths
    (their correctness is C07/C08's business; here they only define the region the file must reproduce)."""
    g = Grid(spec['unit'], spec['precision'])
    cells = {}
    for ci, c in enumerate(spec['cells']):
        if not c.get('in_lib', True):
            continue
        items = Counter()
        region = {}

        def add_poly(tag, pts, rep, props, exact_ok=True):
            if len(pts) < 3:
                return
            for off in genlib.rep_offsets(rep):
                if max_points > 4 and len(pts) > max_points or not exact_ok:
                    # compared as a region with a guard band: which way a half-grid coordinate rounds is immaterial
                    t0 = g.ties
                    gp = [g.pt(p, off) for p in pts]
                    g.ties = t0
                    region.setdefault(tag, []).append(gp)
                else:
                    gp = [g.pt(p, off) for p in pts]
                    items[('poly', tag[0], tag[1], rot_canon(gp), props)] += 1

        for p in c['polys']:
            add_poly(tuple(p['tag']), p['pts'], p.get('rep'), gds_props_of(p.get('props', [])))
        for kind, paths in (('f', c['fpaths']), ('r', c['rpaths'])):
            for pi, fp in enumerate(paths):
                props = gds_props_of(fp.get('props', []))
                if fp['simple']:
                    spine = spine_of_flexpath(fp) if kind == 'f' else spine_of_robustpath(fp)
                    for e in fp['elements']:
                        center = miter_center(spine, e['offset'])
                        w = g.r(e['width'])
                        pt = END_TO_PATHTYPE[e['end']]
                        ext = (g.r(e['ext'][0]), g.r(e['ext'][1])) if pt == 4 else (0, 0)
                        for off in genlib.rep_offsets(fp.get('rep')):
                            line = simplify_polyline([g.pt(p, off) for p in center])
                            items[('path', e['tag'][0], e['tag'][1], line, w, bool(fp['scale_width']) or w == 0, pt, ext, props)] += 1
                else:
                    for ei, e in enumerate(fp['elements']):
                        pass
                    for (tag, pts) in (outlines or {}).get((ci, kind, pi), []):
                        add_poly(tuple(tag), pts, fp.get('rep'), props, exact_ok=False)
        for l in c['labels']:
            props = gds_props_of(l.get('props', []))
            for off in genlib.rep_offsets(l.get('rep')):
                items[('text', l['tag'][0], l['tag'][1], l['text'].encode('latin-1'), g.pt(l['origin'], off), l['anchor'],
                       norm_angle_deg(math.degrees(l['rotation'])), norm_real(l['mag']), bool(l['xrefl']), props)] += 1
        for rf in c['refs']:
            props = gds_props_of(rf.get('props', []))
            name = spec['cells'][rf['target']]['name'] if rf['kind'] == 'cell' else rf['target']
            name = name.encode('latin-1')
            common = (norm_angle_deg(math.degrees(rf['rotation'])), norm_real(rf['mag']), bool(rf['xrefl']))
            rep = rf.get('rep')
            arr = aref_lattice(rf) if rep else None
            if arr:
                cols, rows, v1, v2 = arr
                o = rf['origin']
                p2 = (o[0] + cols * v1[0], o[1] + cols * v1[1])
                p3 = (o[0] + rows * v2[0], o[1] + rows * v2[1])
                items[('aref', name, g.pt(o), g.pt(p2), g.pt(p3), cols, rows) + common + (props,)] += 1
            else:
                for off in genlib.rep_offsets(rep):
                    items[('sref', name, g.pt(rf['origin'], off)) + common + (props,)] += 1
        cells[c['name'].encode('latin-1')] = {'items': items, 'region': region}
    return {'unit': spec['unit'], 'precision': spec['precision'], 'cells': cells, 'ties': g.ties, 'tie_examples': g.tie_examples[:3]}


def aref_lattice(rf):
    """The GDSII array lattice is two vectors along the rotated axes. Returns (cols, rows, v1, v2) when the
    repetition is such a lattice (possibly with the roles of the two vectors exchanged), else None."""
    rep = rf['rep']
    if rep['kind'] == 'rect':
        v1, v2 = (rep['spacing'][0], 0.0), (0.0, rep['spacing'][1])
        # a rectangular repetition is defined along the unrotated axes: it is a lattice of the rotated
        # reference only for rotations that are multiples of 90 degrees
        m = rf['rotation'] / (math.pi / 2)
        if abs(m - round(m)) > 1e-9:
            return None
    elif rep['kind'] == 'regular':
        v1, v2 = rep['v1'], rep['v2']
    else:
        return None
    cols, rows = rep['cols'], rep['rows']
    ca, sa = math.cos(rf['rotation']), math.sin(rf['rotation'])

    def along(v, ax):
        ln = math.hypot(*v)
        if ln == 0:
            return True
        return abs(abs((v[0] * ax[0] + v[1] * ax[1]) / ln) - 1.0) < 1e-9

    if along(v1, (ca, sa)) and along(v2, (-sa, ca)):
        return cols, rows, v1, v2
    if along(v1, (-sa, ca)) and along(v2, (ca, sa)):
        return rows, cols, v2, v1
    return None


# ------------------------------------------------------------------------------------ observations
def _dump_props(props):
    out = []
    for p in props:
        if p['name'] == 'S_GDS_PROPERTY' and len(p['values']) >= 2 and p['values'][0][0] == 'u' and p['values'][1][0] == 's':
            v = p['values'][1][1].encode('latin-1')
            if v.endswith(b'\0'):
                v = v[:-1]
            out.append((p['values'][0][1], v))
    return tuple(sorted(out))


class Snap:
    """maps coordinates of a loaded library back to the integer grid; counts coordinates that are off-grid"""

    def __init__(self, unit, precision):
        self.s = unit / precision if precision else 0.0
        self.off = 0

    def r(self, x):
        v = x * self.s
        k = round(v)
        if abs(v - k) > 1e-6 * max(1.0, abs(v)):
            self.off += 1
        return int(k)

    def pt(self, x, y):
        return (self.r(x), self.r(y))


def from_dump(d):
    sn = Snap(d['unit'], d['precision'])
    cells = {}
    for c in d['cells']:
        items = Counter()
        polys_by_tag = {}
        for p in c['polys']:
            pts = [sn.pt(p['pts'][i], p['pts'][i + 1]) for i in range(0, len(p['pts']), 2)]
            key = ('poly', p['layer'], p['type'], rot_canon(pts), _dump_props(p['props']))
            items[key] += 1
            polys_by_tag.setdefault((p['layer'], p['type']), []).append((key, pts))
            if p['rep'] is not None:
                items[('unexpected-repetition',)] += 1
        for f in c['fpaths']:
            sp = f['spine']
            pts = [sn.pt(sp[i], sp[i + 1]) for i in range(0, len(sp), 2)]
            for e in f['elements']:
                hw = e['hwo'][0] if e['hwo'] else 0.0
                if any(abs(e['hwo'][i + 1]) > 0 for i in range(0, len(e['hwo']), 2)):
                    items[('unexpected-offset',)] += 1
                w = sn.r(2 * hw)
                pt = END_TO_PATHTYPE.get(e['end'], -1)
                ext = (sn.r(e['ext'][0]), sn.r(e['ext'][1])) if pt == 4 else (0, 0)
                items[('path', e['layer'], e['type'], simplify_polyline(pts), w, bool(f['scale_width']) or w == 0, pt, ext,
                       _dump_props(f['props']))] += 1
            if not f['simple']:
                items[('unexpected-nonsimple-path',)] += 1
        for r in c['rpaths']:
            items[('unexpected-robustpath',)] += 1
        for l in c['labels']:
            items[('text', l['layer'], l['type'], l['text'].encode('latin-1'), sn.pt(*l['origin']), l['anchor'],
                   norm_angle_deg(math.degrees(l['rotation'])), norm_real(l['mag']), bool(l['xrefl']), _dump_props(l['props']))] += 1
        for rf in c['refs']:
            name = (rf['target'] or '').encode('latin-1')
            common = (norm_angle_deg(math.degrees(rf['rotation'])), norm_real(rf['mag']), bool(rf['xrefl']))
            rep = rf['rep']
            props = _dump_props(rf['props'])
            o = rf['origin']
            if rep is None:
                items[('sref', name, sn.pt(*o)) + common + (props,)] += 1
            elif rep['kind'] in ('rect', 'regular'):
                if rep['kind'] == 'rect':
                    v1, v2 = (rep['spacing'][0], 0.0), (0.0, rep['spacing'][1])
                else:
                    v1, v2 = rep['v1'], rep['v2']
                cols, rows = rep['cols'], rep['rows']
                p2 = sn.pt(o[0] + cols * v1[0], o[1] + cols * v1[1])
                p3 = sn.pt(o[0] + rows * v2[0], o[1] + rows * v2[1])
                items[('aref', name, sn.pt(*o), p2, p3, cols, rows) + common + (props,)] += 1
            else:
                items[('unexpected-repetition',)] += 1
        cells[c['name'].encode('latin-1')] = {'items': items, 'polys_by_tag': polys_by_tag}
    return {'unit': d['unit'], 'precision': d['precision'], 'cells': cells, 'off_grid': sn.off}


def from_decoded(dec):
    cells = {}
    for c in dec['cells']:
        items = Counter()
        polys_by_tag = {}
        for e in c['elements']:
            props = tuple(sorted((a, v) for a, v in e['props']))
            k = e['kind']
            if k in ('boundary', 'box'):
                pts = list(e['xy'][:-1])
                key = ('poly', e['layer'], e['datatype'], rot_canon(pts), props)
                items[key] += 1
                polys_by_tag.setdefault((e['layer'], e['datatype']), []).append((key, pts))
            elif k == 'path':
                w = abs(e['width'])
                pt = e['pathtype']
                ext = (e['bgnextn'], e['endextn']) if pt == 4 else (0, 0)
                items[('path', e['layer'], e['datatype'], simplify_polyline(list(e['xy'])), w, e['width'] >= 0, pt, ext, props)] += 1
            elif k == 'text':
                items[('text', e['layer'], e['texttype'], e['string'], e['xy'][0], e['presentation'] & 0xf,
                       norm_angle_deg(float(e['angle'])), norm_real(float(e['mag'])), e['xrefl'], props)] += 1
            elif k == 'sref':
                items[('sref', e['sname'], e['xy'][0], norm_angle_deg(float(e['angle'])), norm_real(float(e['mag'])), e['xrefl'], props)] += 1
            elif k == 'aref':
                items[('aref', e['sname'], e['xy'][0], e['xy'][1], e['xy'][2], e['cols'], e['rows'], norm_angle_deg(float(e['angle'])),
                       norm_real(float(e['mag'])), e['xrefl'], props)] += 1
        cells[c['name']] = {'items': items, 'polys_by_tag': polys_by_tag}
    return {'unit': float(dec['db_in_m'] / dec['db_in_user']), 'precision': float(dec['db_in_m']), 'cells': cells, 'off_grid': 0}


# ------------------------------------------------------------------------------------ comparison
def shoelace2(pts):
    s = 0
    n = len(pts)
    for i in range(n):
        x0, y0 = pts[i]
        x1, y1 = pts[(i + 1) % n]
        s += x0 * y1 - x1 * y0
    return s


def perimeter(pts):
    n = len(pts)
    return sum(math.hypot(pts[(i + 1) % n][0] - pts[i][0], pts[(i + 1) % n][1] - pts[i][1]) for i in range(n))


def winding(pts, px, py):
    """exact integer winding number; None if (px,py) lies on the boundary"""
    wn = 0
    n = len(pts)
    for i in range(n):
        ax, ay = pts[i]
        bx, by = pts[(i + 1) % n]
        cr = (bx - ax) * (py - ay) - (by - ay) * (px - ax)
        if cr == 0 and min(ax, bx) <= px <= max(ax, bx) and min(ay, by) <= py <= max(ay, by):
            return None
        if ay <= py:
            if by > py and cr > 0:
                wn += 1
        elif by <= py and cr < 0:
            wn -= 1
    return wn


def dist2_to_outline(pts, px, py):
    """squared distance from (px,py) to the closed outline, as a float"""
    best = None
    n = len(pts)
    for i in range(n):
        ax, ay = pts[i]
        bx, by = pts[(i + 1) % n]
        dx, dy = bx - ax, by - ay
        l2 = dx * dx + dy * dy
        if l2 == 0:
            d = (px - ax) ** 2 + (py - ay) ** 2
        else:
            t = max(0.0, min(1.0, ((px - ax) * dx + (py - ay) * dy) / l2))
            d = (px - ax - t * dx) ** 2 + (py - ay - t * dy) ** 2
        if best is None or d < best:
            best = d
    return best


def compare(expected, observed, what, rnd=None, unit_rel=1e-12):
    """Returns a list of (key suffix, message). expected from expected_gds, observed from from_dump/from_decoded."""
    out = []
    for k in ('unit', 'precision'):
        a, b = expected[k], observed[k]
        if not (abs(a - b) <= unit_rel * abs(a)):
            out.append((k, '%s: %s %.17g, expected %.17g' % (what, k, b, a)))
    if observed.get('off_grid'):
        out.append(('off-grid', '%s: %d coordinates of the loaded library are not on the precision grid' % (what, observed['off_grid'])))
    en, on = set(expected['cells']), set(observed['cells'])
    if en != on:
        out.append(('cell-names', '%s: cells %s, expected %s' % (what, sorted(on), sorted(en))))
        return out
    for name in sorted(en):
        e, o = expected['cells'][name], observed['cells'][name]
        oi = Counter(o['items'])
        missing = Counter()
        for key, n in e['items'].items():
            have = oi.get(key, 0)
            if have < n:
                missing[key] = n - have
            oi[key] = have - min(have, n)
        extra = Counter({k: v for k, v in oi.items() if v > 0})
        # polygons that must be matched by region only
        region = e.get('region', {})
        extra_polys = {}
        for key in list(extra):
            if key[0] == 'poly' and (key[1], key[2]) in region:
                extra_polys.setdefault((key[1], key[2]), []).append((list(key[3]), extra[key]))
                del extra[key]
        for tag, outlines in region.items():
            pieces = []
            for pts, n in extra_polys.get(tag, []):
                pieces += [pts] * n
            msg = region_compare(outlines, pieces, rnd)
            if msg:
                out.append(('region', '%s: cell %s tag %s: %s' % (what, name, tag, msg)))
        if missing or extra:
            kinds = sorted(set(k[0] for k in list(missing) + list(extra)))
            ex = next(iter(missing)) if missing else None
            ob = next(iter(extra)) if extra else None
            out.append(('/'.join(kinds), '%s: cell %s: %d expected item(s) not found, %d unexpected; e.g. expected %s ; unexpected %s' % (
                what, name, sum(missing.values()), sum(extra.values()), _short(ex), _short(ob))))
    return out


def _short(x):
    s = repr(x)
    return s if len(s) < 420 else s[:420] + '...'


def region_compare(outlines, pieces, rnd, samples=200):
    """pieces must tile the union of outlines (outlines are assumed not to overlap each other) up to the grid"""
    if not pieces:
        return 'no polygons re-loaded for %d outline(s) that exceed the vertex limit or come from a path' % len(outlines)
    a_exp = sum(abs(shoelace2(o)) for o in outlines)
    a_got = sum(abs(shoelace2(p)) for p in pieces)
    # twice-area units. Both roundings move a vertex by at most half a grid unit, in the worst case (all coordinates on half-grid ties, e.g. a path of
    # odd width) in opposite directions: every edge shifts by up to one unit (perimeter x 1) and every corner adds up to one unit square
    slack = 2 * sum(perimeter(o) for o in outlines) + 2 * sum(len(o) for o in outlines)
    if abs(a_exp - a_got) > slack + 4:
        return 'area of re-loaded pieces %s/2, area of original %s/2 (slack %s/2)' % (a_got, a_exp, int(slack))
    if rnd is None:
        return None
    xs = [p[0] for o in outlines for p in o]
    ys = [p[1] for o in outlines for p in o]
    x0, x1, y0, y1 = min(xs), max(xs), min(ys), max(ys)
    tested = 0
    for _ in range(samples * 3):
        if tested >= samples:
            break
        # sample on half-integer positions so that grid-aligned edges are never hit exactly
        px = rnd.randrange(2 * x0 - 3, 2 * x1 + 4) | 1
        py = rnd.randrange(2 * y0 - 3, 2 * y1 + 4) | 1
        guard = False
        o2 = [[(2 * x, 2 * y) for x, y in o] for o in outlines]
        p2 = [[(2 * x, 2 * y) for x, y in p] for p in pieces]
        for poly in o2 + p2:
            if dist2_to_outline(poly, px, py) < (2 * 1.5) ** 2:
                guard = True
                break
        if guard:
            continue
        tested += 1
        win_o = sum(1 for o in o2 if (winding(o, px, py) or 0) != 0)
        win_p = sum(1 for p in p2 if (winding(p, px, py) or 0) != 0)
        if (win_o > 0) != (win_p > 0):
            return 'point (%g,%g) is %s the original but %s the re-loaded pieces' % (px / 2, py / 2, 'inside' if win_o else 'outside', 'inside' if win_p else 'outside')
        if win_p > max(1, win_o):
            return 'point (%g,%g) is covered by %d re-loaded pieces (overlap)' % (px / 2, py / 2, win_p)
    return None
