# Canonical comparison model for OASIS-level layouts (used by C02 and C04).
#  A layout is {cell name (bytes): Counter(items)} plus file-level properties, everything on the integer grid:
#   ('poly', layer, datatype, cycle, rep, props)      cycle = vertices, counter-clockwise, rotated to the smallest start
#   ('path', layer, datatype, halfwidth, (ext0, ext1), points, rep, props)
#   ('text', layer, type, string, (x, y), rep, props)
#   ('ref', cell name, (x, y), magnification, angle in degrees [0, 360), flip, rep, props)
#   ('circle', layer, datatype, r, (x, y), rep, props)
#  rep = sorted tuple of displacement vectors (with multiplicity) or (); props = tuple of (name, (typed values...)) in file order.
import math
from collections import Counter

import genlib
import model as gdsmodel

STANDARD_NAMES = {b'S_MAX_SIGNED_INTEGER_WIDTH', b'S_MAX_UNSIGNED_INTEGER_WIDTH', b'S_MAX_STRING_LENGTH', b'S_POLYGON_MAX_VERTICES',
                  b'S_PATH_MAX_VERTICES', b'S_TOP_CELL', b'S_BOUNDING_BOXES_AVAILABLE', b'S_BOUNDING_BOX', b'S_CELL_OFFSET'}


def area2(pts):
    s = 0
    n = len(pts)
    for i in range(n):
        x0, y0 = pts[i]
        x1, y1 = pts[(i + 1) % n]
        s += x0 * y1 - x1 * y0
    return s


def cycle(pts):
    """orientation- and start-independent form of a closed vertex list (no vertex removed)"""
    pts = [tuple(p) for p in pts]
    if len(pts) >= 2 and pts[0] == pts[-1]:
        pts = pts[:-1]
    if area2(pts) < 0:
        pts = pts[::-1]
    n = len(pts)
    if n == 0:
        return ()
    k = min(range(n), key=lambda i: pts[i:] + pts[:i])
    return tuple(pts[k:] + pts[:k])


def rep_key(offs):
    if not offs or len(offs) < 2:
        return ()
    return tuple(sorted((int(a), int(b)) for a, b in offs))


def norm_real(v):
    return float('%.12g' % v)


def norm_angle(deg):
    a = math.fmod(deg, 360.0)
    if a < 0:
        a += 360.0
    a = float('%.9g' % a)
    return 0.0 if a == 360.0 else a


def props_key(props, drop_standard=True):
    out = []
    for p in props:
        name = p['name']
        if isinstance(name, str):
            name = name.encode('latin-1')
        if drop_standard and name in STANDARD_NAMES:
            continue
        vals = []
        for v in p['values']:
            if v[0] == 'r':
                vals.append(('r', norm_real(v[1])))
            elif v[0] in ('u', 'i'):
                vals.append((v[0], int(v[1])))
            else:
                s = v[1]
                if isinstance(s, str):
                    s = s.encode('latin-1')
                vals.append(('s', bytes(s)))
        out.append((name, tuple(vals)))
    return tuple(out)


# ------------------------------------------------------------------------------------------------ from the strict decoder / an abstract layout
def from_decoded(m, drop_standard=True):
    cells = {}
    for c in m['cells']:
        items = Counter()
        for e in c['elements']:
            rk = rep_key(e.get('rep'))
            pk = props_key(e.get('props', []), drop_standard)
            k = e['kind']
            if k == 'polygon':
                items[('poly', e['layer'], e['datatype'], cycle(e['pts']), rk, pk)] += 1
            elif k == 'path':
                items[('path', e['layer'], e['datatype'], e['halfwidth'], tuple(e['ext']), gdsmodel.simplify_polyline([tuple(p) for p in e['pts']]), rk, pk)] += 1
            elif k == 'text':
                items[('text', e['layer'], e['type'], e['text'], (e['x'], e['y']), rk, pk)] += 1
            elif k == 'placement':
                items[('ref', e['cellname'], (e['x'], e['y']), norm_real(e['mag']), norm_angle(e['angle']), bool(e['flip']), rk, pk)] += 1
            elif k == 'circle':
                items[('circle', e['layer'], e['datatype'], e['r'], (e['x'], e['y']), rk, pk)] += 1
            else:
                items[(k,)] += 1
        cprops = list(c.get('props', []))
        if 'refnum' in c and c['refnum'] in m.get('cellnames', {}):
            cprops = list(m['cellnames'][c['refnum']]['props']) + cprops
        cells[c['name']] = {'items': items, 'props': props_key(cprops, drop_standard)}
    return {'cells': cells, 'props': props_key(m.get('file_props', []), drop_standard)}


# ------------------------------------------------------------------------------------------------ from a gdstk dump
class Snap:
    def __init__(self, scale):
        self.s = scale
        self.off = 0
        self.circle_like = 0
        self.worst = 0.0

    def r(self, v):
        x = v * self.s
        n = round(x)
        d = abs(x - n)
        if d > 1e-6 * max(1.0, abs(x)) + 1e-6:
            self.off += 1
            self.worst = max(self.worst, d)
        return int(n)

    def pt(self, x, y):
        return (self.r(x), self.r(y))


def _dump_rep(rep, sn):
    if rep is None:
        return ()
    offs = genlib.rep_offsets(rep_spec_from_dump(rep))
    return rep_key([(sn.r(a), sn.r(b)) for a, b in offs])


def rep_spec_from_dump(r):
    if r is None:
        return None
    if r['kind'] == 'explicit' and r['offsets'] and not isinstance(r['offsets'][0], (list, tuple)):
        o = r['offsets']
        return {'kind': 'explicit', 'offsets': [(o[k], o[k + 1]) for k in range(0, len(o), 2)]}
    return r


def from_dump(d, drop_standard=True):
    """d: dump_lib event. Grid = precision / unit."""
    sn = Snap(d['unit'] / d['precision'])
    cells = {}
    for c in d['cells']:
        items = Counter()
        for p in c['polys']:
            before = sn.off
            pts = [sn.pt(p['pts'][i], p['pts'][i + 1]) for i in range(0, len(p['pts']), 2)]
            if sn.off != before and len(pts) >= 5:
                sn.circle_like += sn.off - before       # possibly a circle rebuilt by the reader: not grid data
                sn.off = before
            items[('poly', p['layer'], p['type'], cycle(pts), _dump_rep(p['rep'], sn), props_key(p['props'], drop_standard))] += 1
        for f in c['fpaths']:
            sp = [sn.pt(f['spine'][i], f['spine'][i + 1]) for i in range(0, len(f['spine']), 2)]
            for e in f['elements']:
                hwo = e['hwo']
                if not f['simple'] or any(abs(hwo[i + 1]) > 0 for i in range(0, len(hwo), 2)) or len(set(hwo[0::2])) != 1:
                    items[('unexpected-nonsimple-path',)] += 1
                    continue
                hw = sn.r(hwo[0])
                if e['end'] == 0:
                    ext = (0, 0)
                elif e['end'] == 2:
                    ext = (hw, hw)
                elif e['end'] == 3:
                    ext = (sn.r(e['ext'][0]), sn.r(e['ext'][1]))
                else:
                    items[('unexpected-path-end', e['end'])] += 1
                    continue
                items[('path', e['layer'], e['type'], hw, ext, gdsmodel.simplify_polyline(sp), _dump_rep(f['rep'], sn), props_key(f['props'], drop_standard))] += 1
        for r in c['rpaths']:
            items[('unexpected-robustpath',)] += 1
        for l in c['labels']:
            items[('text', l['layer'], l['type'], l['text'].encode('latin-1'), sn.pt(*l['origin']), _dump_rep(l['rep'], sn),
                   props_key(l['props'], drop_standard))] += 1
        for rf in c['refs']:
            name = (rf['target'] or '').encode('latin-1')
            items[('ref', name, sn.pt(*rf['origin']), norm_real(rf['mag']), norm_angle(math.degrees(rf['rotation'])), bool(rf['xrefl']),
                   _dump_rep(rf['rep'], sn), props_key(rf['props'], drop_standard))] += 1
        cells[c['name'].encode('latin-1')] = {'items': items, 'props': props_key(c['props'], drop_standard)}
    return {'cells': cells, 'props': props_key(d['props'], drop_standard), 'off_grid': sn.off, 'off_grid_circle_like': sn.circle_like, 'worst_off_grid': sn.worst}


# ------------------------------------------------------------------------------------------------ from a genlib library spec (what a saved file must denote)
def from_spec(spec, outlines=None):
    """spec: genlib library (simple paths only, or outlines for the others as {(ci, 'f'|'r', pi): [(tag, pts)]})"""
    g = gdsmodel.Grid(spec['unit'], spec['precision'])
    cells = {}
    for ci, c in enumerate(spec['cells']):
        if not c.get('in_lib', True):
            continue
        items = Counter()

        def rk(rep):
            if rep is None:
                return ()
            return rep_key([(g.r(a), g.r(b)) for a, b in genlib.rep_offsets(rep)])
        for p in c['polys']:
            items[('poly', p['tag'][0], p['tag'][1], cycle([g.pt(q) for q in p['pts']]), rk(p.get('rep')), props_key(oas_props_of(p.get('props', []))))] += 1
        for kind, paths in (('f', c['fpaths']), ('r', c['rpaths'])):
            for pi, fp in enumerate(paths):
                pk = props_key(oas_props_of(fp.get('props', [])))
                if fp['simple']:
                    spine = gdsmodel.spine_of_flexpath(fp) if kind == 'f' else gdsmodel.spine_of_robustpath(fp)
                    for e in fp['elements']:
                        center = gdsmodel.miter_center(spine, e['offset'])
                        hw = g.r(e['width'] / 2)
                        if e['end'] == 0:
                            ext = (0, 0)
                        elif e['end'] == 2:
                            ext = (hw, hw)
                        else:
                            ext = (g.r(e['ext'][0]), g.r(e['ext'][1]))
                        line = gdsmodel.simplify_polyline([g.pt(q) for q in center])
                        items[('path', e['tag'][0], e['tag'][1], hw, ext, line, rk(fp.get('rep')), pk)] += 1
                else:
                    for (tag, pts) in (outlines or {}).get((ci, kind, pi), []):
                        items[('poly', tag[0], tag[1], cycle([g.pt(q) for q in pts]), rk(fp.get('rep')), pk)] += 1
        for l in c['labels']:
            items[('text', l['tag'][0], l['tag'][1], l['text'].encode('latin-1'), g.pt(l['origin']), rk(l.get('rep')), props_key(oas_props_of(l.get('props', []))))] += 1
        for rf in c['refs']:
            name = spec['cells'][rf['target']]['name'] if rf['kind'] == 'cell' else rf['target']
            items[('ref', name.encode('latin-1'), g.pt(rf['origin']), norm_real(rf['mag']), norm_angle(math.degrees(rf['rotation'])), bool(rf['xrefl']),
                   rk(rf.get('rep')), props_key(oas_props_of(rf.get('props', []))))] += 1
        cells[c['name'].encode('latin-1')] = {'items': items, 'props': props_key(oas_props_of(c.get('props', [])))}
    return {'cells': cells, 'props': props_key(oas_props_of(spec.get('props', []))), 'ties': g.ties}


def oas_props_of(props):
    """genlib property specs -> [{'name', 'values'}] in the order gdstk holds them"""
    out = []
    for p in props:
        if 'gds' in p:
            v = p['value'] if isinstance(p['value'], (bytes, bytearray)) else p['value'].encode('latin-1')
            out.append({'name': b'S_GDS_PROPERTY', 'values': [('u', p['gds']), ('s', bytes(v) + b'\0')]})
        else:
            out.append({'name': p['name'] if isinstance(p['name'], bytes) else p['name'].encode('latin-1'), 'values': [tuple(v) for v in p['values']]})
    return out


# ------------------------------------------------------------------------------------------------ comparison
def compare(exp, got, what, circle_slack=None):
    """list of (key suffix, message). circle_slack: None or grid units - unmatched polygons with the same tag may pair up as
    "the same circle" when every vertex of one lies within that distance of the circle fitted to the other"""
    out = []
    if exp.get('props') is not None and got.get('props') is not None and exp['props'] != got['props']:
        out.append(('library-properties', '%s: library properties %r, expected %r' % (what, got['props'][:4], exp['props'][:4])))
    ec, gc = exp['cells'], got['cells']
    if set(ec) != set(gc):
        out.append(('cell-set', '%s: cells %s, expected %s' % (what, sorted(gc)[:8], sorted(ec)[:8])))
        return out
    for name in ec:
        if ec[name].get('props') is not None and gc[name].get('props') is not None and ec[name]['props'] != gc[name]['props']:
            out.append(('cell-properties', '%s: cell %r properties %r, expected %r' % (what, name, gc[name]['props'][:4], ec[name]['props'][:4])))
        a, b = ec[name]['items'], gc[name]['items']
        if a == b:
            continue
        missing = list((a - b).elements())
        extra = list((b - a).elements())
        if circle_slack is not None:
            missing, extra = _pair_circles(missing, extra, circle_slack)
        if not missing and not extra:
            continue
        kinds = sorted(set(k[0] for k in missing + extra))
        out.append(('/'.join(kinds), '%s: cell %r: %d expected item(s) not found, %d unexpected; e.g. expected %s got %s' % (
            what, name, len(missing), len(extra), _short(missing[0]) if missing else None, _short(extra[0]) if extra else None)))
    return out


def _short(it):
    s = repr(it)
    return s if len(s) < 700 else s[:700] + '...'


def _fit_circle(pts):
    n = len(pts)
    cx = sum(p[0] for p in pts) / n
    cy = sum(p[1] for p in pts) / n
    r = sum(math.hypot(p[0] - cx, p[1] - cy) for p in pts) / n
    return cx, cy, r


def _pair_circles(missing, extra, slack):
    rest_m = []
    extra = list(extra)
    for m in missing:
        if m[0] != 'poly' or len(m[3]) < 5:
            rest_m.append(m)
            continue
        cx, cy, r = _fit_circle(m[3])
        dev_m = max(abs(math.hypot(p[0] - cx, p[1] - cy) - r) for p in m[3])
        hit = None
        for i, e in enumerate(extra):
            if e[0] != 'poly' or e[1:3] != m[1:3] or e[4:] != m[4:] or len(e[3]) < 3:
                continue
            if all(abs(math.hypot(p[0] - cx, p[1] - cy) - r) <= slack + dev_m for p in e[3]):
                ex, ey, er = _fit_circle(e[3])
                if math.hypot(ex - cx, ey - cy) <= slack + dev_m and abs(er - r) <= slack + dev_m:
                    hit = i
                    break
        if hit is None:
            rest_m.append(m)
        else:
            extra.pop(hit)
    return rest_m, extra
