# C06 - flattening and hierarchy queries preserve the layout geometry: every query is compared with the
# checker's own flattening of the spec (2x3 matrices and repetition vectors composed by hand).
import math
import random

import flat
import genlib
import geom
import script
import vfw
from script import Case

N = {'quick': 900, 'thorough': 20000}


def gen_lib(sd):
    for attempt in range(40):
        g = genlib.Gen(sd * 41 + attempt, dict(oas_props=True, gds_props=True, max_cells=4, ref_by_name=True, neg_mag=False, frac=False))
        lib = g.library()
        for c in lib['cells']:
            for key in ('fpaths', 'rpaths'):
                for p in c[key]:
                    p['scale_width'] = True      # the outline of a path is an affine image only if its width scales with it
                    p['tol'] = 1e-3 * (lib['precision'] / lib['unit']) * 10
        if sd % 3 == 0:
            # a third of the hierarchies: half of the cell references get a negative magnification (a half turn combined with the scale;
            # paths under it must keep their offsets on the same side of the turned spine).  Own PRNG: the library stream is unchanged.
            fr = random.Random(sd * 7919 + attempt)
            for c in lib['cells']:
                for rf in c['refs']:
                    if rf['kind'] == 'cell' and fr.random() < 0.5:
                        rf['mag'] = -rf['mag']
        top = len(lib['cells']) - 1
        if flat.count_instances(lib, top) <= 300 and any(r['kind'] == 'cell' for r in lib['cells'][top]['refs']):
            return lib
    return lib


def make_case(i):
    sd = vfw.seed() * 1000003 + 60000 + i
    rnd = random.Random(sd)
    lib = gen_lib(sd)
    top = len(lib['cells']) - 1
    c = Case('H%d' % i, timeout=120)
    lh, chs = genlib.emit_library(c, lib)
    want = []
    fi = ri = 0
    for ci, cell in enumerate(lib['cells']):
        for pi, _ in enumerate(cell['fpaths']):
            c.op('to_polygons', 'f%d' % fi)
            want.append((ci, 'f', pi, 'f%d' % fi))
            fi += 1
        for pi, _ in enumerate(cell['rpaths']):
            c.op('to_polygons', 'r%d' % ri)
            want.append((ci, 'r', pi, 'r%d' % ri))
            ri += 1
    T = chs[top]
    tags = sorted(set(tuple(p['tag']) for cell in lib['cells'] for p in cell['polys']) |
                  set(tuple(e['tag']) for cell in lib['cells'] for k in ('fpaths', 'rpaths') for p in cell[k] for e in p['elements']))
    ftag = rnd.choice(tags) if tags else (0, 0)
    ltags = sorted(set(tuple(l['tag']) for cell in lib['cells'] for l in cell['labels']))
    fltag = rnd.choice(ltags) if ltags else (0, 0)
    q = []
    q.append(('get_polygons', 1, -1, None, 1, 'full'))
    q.append(('get_polygons', 0, -1, None, 1, 'attached'))
    for d in (0, 1, 2):
        q.append(('get_polygons', rnd.choice([0, 1]), d, None, 1, 'depth%d' % d))
    q.append(('get_polygons', 1, -1, ftag, 1, 'filtered'))
    q.append(('get_polygons', 1, -1, None, 0, 'nopaths'))
    q.append(('get_labels', 1, -1, None, 1, 'labels'))
    q.append(('get_labels', 0, rnd.choice([-1, 1]), None, 1, 'labels_attached'))
    q.append(('get_labels', 1, -1, fltag, 1, 'labels_filtered'))
    q.append(('get_flexpaths', rnd.choice([0, 1]), -1, None, 1, 'fpaths'))
    q.append(('get_robustpaths', rnd.choice([0, 1]), -1, None, 1, 'rpaths'))
    # tag-filtered path queries: only the elements carrying the tag come back (copied field by field in the library)
    for key, op_ in (('fpaths', 'get_flexpaths'), ('rpaths', 'get_robustpaths')):
        ptags = sorted(set(tuple(e['tag']) for cell in lib['cells'] for p in cell[key] for e in p['elements']))
        if ptags:
            q.append((op_, rnd.choice([0, 1]), -1, rnd.choice(ptags), 1, key + '_filtered'))
    # order variation: in part of the cases a deep copy of the top cell is flattened first and answers the same queries (whatever the depth
    # limit: nothing is left below it), then the untouched original answers them
    q_copy = []
    if rnd.random() < 0.4:
        cp = 'c%d' % len(lib['cells'])
        c.op('copy_cell', T, '666c6174636f7079', 1)
        fa0 = rnd.choice([0, 1])
        c.op('flatten', cp, fa0)
        for op, ap, d, tg, inc, lab in q:
            c.op(op, cp, ap, d, tg[0] if tg else '-', tg[1] if tg else '-', inc, 'cp_' + lab)
            q_copy.append((op, ap, -1, tg, inc, 'cp_' + lab))
        next_copy = 'c%d' % (len(lib['cells']) + 1)
    else:
        next_copy = 'c%d' % len(lib['cells'])
    for op, ap, d, tg, inc, lab in q:
        c.op(op, T, ap, d, tg[0] if tg else '-', tg[1] if tg else '-', inc, lab)
    # a query through a reference of the top cell (references answer the same queries)
    nx = sum(len(cell['refs']) for cell in lib['cells'][:top])
    ref_k = None
    for k, rf in enumerate(lib['cells'][top]['refs']):
        if rf['kind'] == 'cell':
            ref_k = k
            break
    if ref_k is not None:
        c.op('get_polygons', 'x%d' % (nx + ref_k), 0, -1, '-', '-', 1, 'via_ref')
    c.op('dump_cell', T)
    c.op('copy_cell', T, '636f7079', 1)
    c.op('wreck_cell', next_copy)
    c.op('dump_cell', T)
    fa = rnd.choice([0, 1])
    c.op('flatten', T, fa)
    c.op('get_polygons', T, 1, 0, '-', '-', 1, 'flat_polys')
    c.op('get_labels', T, 1, 0, '-', '-', 1, 'flat_labels')
    c.op('dump_cell', T)
    c.meta = {'spec': lib, 'seed': sd, 'want': want, 'queries': q + q_copy, 'flattened_copy_first': bool(q_copy), 'top': top, 'ref_k': ref_k, 'flatten_apply': fa}
    return c


def labels_from_dump(lst):
    out = []
    for l in lst:
        rep = flat.rep_from_dump(l.get('rep'))
        for v in genlib.rep_offsets(rep):
            out.append({'tag': (l['layer'], l['type']), 'text': l['text'], 'anchor': l['anchor'],
                        'M': geom.m_placement(l['mag'], l['xrefl'], l['rotation'], (l['origin'][0] + v[0], l['origin'][1] + v[1]))})
    return out


def match_labels(A, B):
    if len(A) != len(B):
        return False
    used = [False] * len(B)
    for a in A:
        ok = False
        for k, b in enumerate(B):
            if used[k] or a['tag'] != b['tag'] or a['text'] != b['text'] or a['anchor'] != b['anchor']:
                continue
            if geom.m_close(a['M'], b['M'], 1e-9):
                used[k] = True
                ok = True
                break
        if not ok:
            return False
    return True


def judge(chk, c, evs):
    m = c.meta
    lib, top = m['spec'], m['top']
    rp = {'case': c.text(), 'meta': {'seed': m['seed']}}
    if not script.check_exit(chk, c, evs):
        return
    tp = {e['h']: e for e in evs if e['op'] == 'to_polygons' and e.get('k') != 'call'}
    outl = {}
    for ci, kind, pi, h in m['want']:
        e = tp.get(h)
        if e is None:
            chk.harness_error('%s: outline of %s missing' % (c.id, h))
            return
        outl[(ci, kind, pi)] = [((p['layer'], p['type']), [(p['pts'][k], p['pts'][k + 1]) for k in range(0, len(p['pts']), 2)]) for p in e['polys']]
    res = {}
    for e in evs:
        if e.get('k') != 'call' and 'label' in e and e['op'].startswith('get_'):
            res[e['label']] = e
    g = lib['precision'] / lib['unit']
    rnd = random.Random(m['seed'] + 4)
    # outlines made before a magnification (get_polygons, the hand flattening) and after it (paths returned by get_flexpaths /
    # get_robustpaths, flattened cells) both keep the path tolerance in their own frame: they may differ by the tolerance times the largest
    # composite magnification of the hierarchy
    mm = {}

    def maxmag(ci):
        if ci not in mm:
            mm[ci] = 1.0
            mm[ci] = max([1.0] + [abs(rf['mag']) * maxmag(rf['target']) for rf in lib['cells'][ci]['refs'] if rf['kind'] == 'cell'])
        return mm[ci]
    ptol = max([0.1 * g] + [p_['tol'] for cell_ in lib['cells'] for k_ in ('fpaths', 'rpaths') for p_ in cell_[k_]])
    rguard = max(60 * 1e-3 * g * 10, 1.5 * ptol * maxmag(top)) + 3 * g

    def only_paths(kind_key, kind):
        def f(cell, ci):
            out = []
            for pi, path in enumerate(cell[kind_key]):
                for (tag, pts) in outl.get((ci, kind, pi), []):
                    for v in genlib.rep_offsets(path.get('rep')):
                        out.append((tuple(tag), [(x + v[0], y + v[1]) for x, y in pts]))
            return out
        return f

    for op, ap, d, tg, inc, lab in m['queries']:
        e = res.get(lab)
        if e is None:
            chk.harness_error('%s: result %s missing' % (c.id, lab))
            return
        if op == 'get_polygons':
            exp = flat.flatten_polys(lib, top, d, outl, include_paths=bool(inc))
            if tg:
                exp = [x for x in exp if x[0] == tuple(tg)]
            got = flat.polys_from_dump(e['polys'])
            same = flat.match_polys(exp, got)
            if not same and lab.startswith('cp_') and len(exp) == len(got):
                # on the flattened copy paths are outlined after their transform, not before: same shapes, other vertices -> regions per tag
                same = True
                for tag in set(t_ for t_, _ in exp):
                    P = [pts for t_, pts in exp if t_ == tag]
                    Q = [pts for t_, pts in got if t_ == tag]
                    if geom.region_diff(P, Q, rnd, guard=rguard, samples=120):
                        same = False
                        break
            if not same:
                chk.violation('C06/get_polygons/' + ('attached-repetitions' if not ap else lab.rstrip('012')),
                              'get_polygons(apply_repetitions=%d, depth=%d, filter=%s, include_paths=%d) on the top cell: %d polygons (repetitions expanded), '
                              'hand flattening gives %d; the sets differ' % (ap, d, tg, inc, len(got), len(exp)), rp)
            chk.cov('polygon_queries')
            chk.cov('polygons_matched', len(exp))
        elif op == 'get_labels':
            exp = flat.flatten_labels(lib, top, d)
            if tg:
                exp = [x for x in exp if x['tag'] == tuple(tg)]
            got = labels_from_dump(e['labels'])
            if not match_labels(exp, got):
                chk.violation('C06/get_labels/' + ('attached-repetitions' if not ap else 'placement'),
                              'get_labels(apply_repetitions=%d, depth=%d, filter=%s): %d labels, hand flattening gives %d; the sets differ' % (
                                  ap, d, tg, len(got), len(exp)), rp)
            chk.cov('label_queries')
        else:
            kind_key, kind = ('fpaths', 'f') if op == 'get_flexpaths' else ('rpaths', 'r')
            exp = flat.flatten_polys(lib, top, d, outl, paths_only=only_paths(kind_key, kind))
            if tg:
                exp = [(t_, pts) for t_, pts in exp if tuple(t_) == tuple(tg)]
                chk.cov('path_queries_filtered')
            got = []
            for pth in e['paths']:
                rep = flat.rep_from_dump(pth.get('rep'))
                for v in genlib.rep_offsets(rep):
                    for p in pth['polys']:
                        pts = [(p['pts'][k] + v[0], p['pts'][k + 1] + v[1]) for k in range(0, len(p['pts']), 2)]
                        got.append(((p['layer'], p['type']), pts))
            if len(exp) != len(got):
                chk.violation('C06/%s/count' % op, '%s(apply_repetitions=%d): outlines of the returned paths give %d polygons, hand flattening %d' % (
                    op, ap, len(got), len(exp)), rp)
            else:
                for tag in set(t_ for t_, _ in exp):
                    P = [pts for t_, pts in exp if t_ == tag]
                    Q = [pts for t_, pts in got if t_ == tag]
                    w = geom.region_diff(P, Q, rnd, guard=rguard, samples=120)
                    if w:
                        chk.violation('C06/%s/%s' % (op, 'attached-repetitions' if not ap else 'region'),
                                      '%s(apply_repetitions=%d): paths of tag %s cover (%g,%g) %d times, the hand flattening %d times' % (
                                          op, ap, tag, w[0], w[1], w[3], w[2]), rp)
                        break
            chk.cov('path_queries')
    if m['ref_k'] is not None and 'via_ref' in res:
        rf = lib['cells'][top]['refs'][m['ref_k']]
        sub = flat.flatten_polys(lib, rf['target'], -1, outl)
        exp = []
        # the reference's own repetition is never "attached" to the result: one copy per vector
        for M in flat.ref_matrices(rf):
            for tag, pts in sub:
                exp.append((tag, [geom.m_apply(M, p) for p in pts]))
        got = flat.polys_from_dump(res['via_ref']['polys'])
        if not flat.match_polys(exp, got):
            chk.violation('C06/reference/get_polygons-attached-repetitions', 'Reference::get_polygons(apply_repetitions=0): %d polygons (repetitions expanded), '
                          'hand flattening gives %d; the sets differ' % (len(got), len(exp)), rp)
    # copies are independent of their source
    dumps = [e for e in evs if e['op'] == 'dump_cell']
    if len(dumps) == 3:
        if dumps[0]['cell'] != dumps[1]['cell']:
            chk.violation('C06/copy/source-changed', 'mutating and freeing a deep copy of the top cell changed the source cell', rp)
        after = dumps[2]['cell']
        if any(r['rtype'] == 'cell' for r in after['refs']):
            chk.violation('C06/flatten/references-left', 'flatten left %d cell references' % sum(1 for r in after['refs'] if r['rtype'] == 'cell'), rp)
    # after flatten the cell alone denotes the same geometry
    if 'flat_polys' in res:
        exp = flat.flatten_polys(lib, top, -1, outl)
        got = flat.polys_from_dump(res['flat_polys']['polys'])
        ok = flat.match_polys(exp, got)
        if not ok:
            # flattened paths are re-outlined after the transform: fall back to the region comparison per tag
            bad = len(exp) != len(got)
            if not bad:
                for tag in set(t_ for t_, _ in exp):
                    P = [pts for t_, pts in exp if t_ == tag]
                    Q = [pts for t_, pts in got if t_ == tag]
                    if geom.region_diff(P, Q, rnd, guard=rguard, samples=120):
                        bad = True
                        break
            if bad:
                chk.violation('C06/flatten/' + ('attached-repetitions' if not m['flatten_apply'] else 'polygons'),
                              'after flatten(apply_repetitions=%d) the top cell alone yields %d polygons, the hierarchy denoted %d; the sets differ' % (
                                  m['flatten_apply'], len(got), len(exp)), rp)
        expl = flat.flatten_labels(lib, top, -1)
        gotl = labels_from_dump(res['flat_labels']['labels'])
        if not match_labels(expl, gotl):
            chk.violation('C06/flatten/labels', 'after flatten the top cell holds %d labels (expanded), the hierarchy denoted %d; the sets differ' % (len(gotl), len(expl)), rp)
    chk.cov('cases_judged')
    nt = False
    for cell in lib['cells']:
        for rf in cell['refs']:
            if rf['kind'] == 'cell' and (rf['rotation'] != 0 or rf['mag'] != 1 or rf['xrefl']):
                tgt = lib['cells'][rf['target']]
                if any(e.get('rep') for k in ('polys', 'fpaths', 'rpaths', 'labels') for e in tgt[k]) or any(el['offset'] != 0 for p in tgt['fpaths'] for el in p['elements']):
                    nt = True
    if nt:
        chk.fp(c.id)


def work(rec, b, indices):
    cases = [make_case(i) for i in indices]
    ev = script.run_cases(rec, b, cases, shards=1)
    for c in cases:
        rec.evaluations += 1
        judge(rec, c, ev.get(c.id, []))


def run(tier):
    chk = vfw.Check('C06', tier)
    b = vfw.build()
    n = N[tier]
    vfw.run_sharded(chk, b, n, work)
    c = make_case(0)
    chk.sample({'case': c.id, 'cells': [cc['name'] for cc in c.meta['spec']['cells']], 'queries': c.meta['queries'],
                'top_cell_references': c.meta['spec']['cells'][c.meta['top']]['refs'][:2]})
    chk.rule = ('hierarchies of 2-4 cells (polygons, multi-element flexible and robust paths with offsets, labels, every repetition kind on elements and '
                'references, rotations incl. non-multiples of 90 degrees, reflections, magnifications (negative ones on half of the cell references of every third hierarchy), by-name references to absent cells), at most 300 '
                'flattened instances; per library 13 queries on the top cell (get_polygons with repetitions applied/attached, depth 0/1/2/-1, tag filter, '
                'without paths; get_labels applied/attached/filtered; get_flexpaths; get_robustpaths; Reference::get_polygons), then deep copy + '
                'mutate + free, then flatten and query again. Oracle: the spec flattened by hand; polygon sets matched vertex by vertex (1e-9), '
                'attached repetitions expanded by the oracle, path results compared as regions with a guard band. Non-trivial: a reference with '
                'non-identity linear part over a cell whose elements carry a repetition or a path offset.')
    chk.assumptions = ['leaf path outlines are observed from to_polygons on the untransformed leaf (C07/C08 decide them)',
                       'all paths have scale_width set: otherwise the outline of a magnified path is not an affine image and the queries legitimately disagree']
    chk.floor('cases_judged', chk.coverage.get('cases_judged', 0), int(0.9 * n))
    chk.finish()


def replay(path):
    import c01
    return c01.replay(path)
