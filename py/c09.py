# C09 - bounding boxes and convex hulls are exact for any hierarchy; cached and uncached results agree.
import math
import random

import flat
import genlib
import geom
import script
import vfw
from script import Case, fl, hx

N = {'quick': 1200, 'thorough': 25000}


def gen_lib(sd):
    rnd = random.Random(sd)
    for attempt in range(40):
        g = genlib.Gen(sd * 43 + attempt, dict(oas_props=False, gds_props=False, max_cells=4, ref_by_name=True, frac=False))
        lib = g.library()
        gg = lib['precision'] / lib['unit']
        for c in lib['cells']:
            for key in ('fpaths', 'rpaths'):
                for p in c[key]:
                    p['scale_width'] = True
        # hostile additions: explicit repetitions in general position on references, degenerate cells
        for c in lib['cells']:
            for rf in c['refs']:
                if rnd.random() < 0.3:
                    n = rnd.randrange(5, 10)
                    rad = rnd.randrange(20, 80)
                    rf['rep'] = {'kind': 'explicit', 'offsets': [(round(rad * math.cos(2 * math.pi * k / n)) * gg, round(rad * math.sin(2 * math.pi * k / n)) * gg) for k in range(1, n)]}
        if rnd.random() < 0.35:
            # a degenerate leaf: only labels on a line (descending / ascending / vertical / single point / two points)
            kind = rnd.choice(['desc', 'asc', 'vert', 'horiz', 'single', 'two'])
            n = {'single': 1, 'two': 2}.get(kind, rnd.randrange(3, 7))
            labs = []
            for k in range(n):
                t = k * 10
                x, y = {'desc': (t, -2 * t), 'asc': (t, 3 * t), 'vert': (5, t), 'horiz': (t, 7), 'single': (3, 4), 'two': (k * 7, k * -3)}[kind]
                labs.append({'tag': (1, 0), 'text': 'd', 'origin': (x * gg, y * gg), 'anchor': 0, 'rotation': 0.0, 'mag': 1.0, 'xrefl': False, 'rep': None, 'props': []})
            leaf = {'name': 'degenerate_%s' % kind, 'polys': [], 'labels': labs, 'refs': [], 'fpaths': [], 'rpaths': [], 'props': []}
            lib['cells'].insert(0, leaf)
            for c in lib['cells'][1:]:
                for rf in c['refs']:
                    if rf['kind'] == 'cell':
                        rf['target'] += 1
            # reference it from the last cell with an arbitrary rotation
            lib['cells'][-1]['refs'].append({'kind': 'cell', 'target': 0, 'origin': (3 * gg, -4 * gg), 'rotation': rnd.choice([0.0, 0.7, math.pi / 2, 2.3]),
                                             'mag': rnd.choice([1.0, 2.0]), 'xrefl': rnd.random() < 0.5, 'rep': None, 'props': []})
        if rnd.random() < 0.2:
            lib['cells'].append({'name': 'empty_cell', 'polys': [], 'labels': [], 'refs': [], 'fpaths': [], 'rpaths': [], 'props': []})
        top = len(lib['cells']) - 1
        if max(flat.count_instances(lib, k) for k in range(len(lib['cells']))) <= 300:
            return lib
    return lib


def make_case(i):
    sd = vfw.seed() * 1000003 + 90000 + i
    rnd = random.Random(sd)
    lib = gen_lib(sd)
    c = Case('X%d' % i, timeout=120)
    lh, chs = genlib.emit_library(c, lib)
    want = []
    fi = ri = 0
    for ci, cell in enumerate(lib['cells']):
        for pi, _ in enumerate(cell['fpaths']):
            c.op('to_polygons', 'f%d' % fi)
            want.append((ci, 'f', pi, 'f%d' % fi))
            fi += 1
        for pi, _ in enumerate(cell['rpaths']):
            c.op('to_polygons', 'r%d' % ri)
            want.append((ci, 'r', pi, 'r%d' % ri))
            ri += 1
    ncell = len(lib['cells'])
    # 1) fresh cache for every query
    for ci in range(ncell):
        c.op('bounding_box', chs[ci], '-', 'cell%d' % ci)
        c.op('convex_hull', chs[ci], '-', 'cell%d' % ci)
    # 2) one cache shared across all cells in random order, each queried twice; boxes first or hulls first
    order = list(range(ncell))
    rnd.shuffle(order)
    first = rnd.choice(['bounding_box', 'convex_hull'])
    second = 'convex_hull' if first == 'bounding_box' else 'bounding_box'
    for ci in order:
        c.op(first, chs[ci], 'k0', 'shared%d' % ci)
    for ci in order:
        c.op(second, chs[ci], 'k0', 'shared%d' % ci)
    for ci in reversed(order):
        c.op('bounding_box', chs[ci], 'k0', 'again%d' % ci)
        c.op('convex_hull', chs[ci], 'k0', 'again%d' % ci)
    # 3) references, polygons, labels
    xi = 0
    refs = []
    for ci, cell in enumerate(lib['cells']):
        for k, rf in enumerate(cell['refs']):
            refs.append((ci, k, 'x%d' % xi))
            xi += 1
    rnd.shuffle(refs)
    for ci, k, h in refs[:4]:
        c.op('bounding_box', h, '-', 'ref')
        c.op('convex_hull', h, '-', 'ref')
        c.op('bounding_box', h, 'k1', 'refc')
    pi = 0
    for ci, cell in enumerate(lib['cells']):
        for k, p in enumerate(cell['polys']):
            if pi < 6:
                c.op('bounding_box', 'p%d' % pi, '-', 'poly:%d:%d' % (ci, k))
            pi += 1
    ti = 0
    for ci, cell in enumerate(lib['cells']):
        for k, l in enumerate(cell['labels']):
            if ti < 4:
                c.op('bounding_box', 't%d' % ti, '-', 'label:%d:%d' % (ci, k))
            ti += 1
    c.meta = {'spec': lib, 'seed': sd, 'want': want, 'refs': refs[:4]}
    return c


def points_of(lib, ci, outl):
    pts = [p for _, poly in flat.flatten_polys(lib, ci, -1, outl) for p in poly]
    pts += [(l['M'][2], l['M'][5]) for l in flat.flatten_labels(lib, ci, -1)]
    return pts


def box_of(pts):
    if not pts:
        return None
    return (min(p[0] for p in pts), min(p[1] for p in pts), max(p[0] for p in pts), max(p[1] for p in pts))


def check_box(chk, rp, what, e, pts, key):
    want = box_of(pts)
    mn, mx = e['min'], e['max']
    if want is None:
        if not (mn[0] > mx[0]):
            chk.violation('C09/%s/empty-not-inverted' % key, '%s is empty but reports the box %s-%s' % (what, mn, mx), rp)
        return
    ext = max(1e-300, want[2] - want[0], want[3] - want[1], max(abs(v) for v in want))
    got = (mn[0], mn[1], mx[0], mx[1])
    if any(abs(a - b) > 1e-9 * ext for a, b in zip(got, want)):
        chk.violation('C09/%s/box' % key, '%s: bounding box (%g,%g)-(%g,%g), the geometry spans (%g,%g)-(%g,%g)' % ((what,) + got + want), rp)


def check_hull(chk, rp, what, hull_flat, pts, key):
    hull = [(hull_flat[k], hull_flat[k + 1]) for k in range(0, len(hull_flat), 2)]
    if not pts:
        if hull:
            chk.violation('C09/%s/hull-of-empty' % key, '%s is empty but reports a hull with %d points' % (what, len(hull)), rp)
        return
    b = box_of(pts)
    ext = max(1e-300, b[2] - b[0], b[3] - b[1])
    tol = 1e-9 * max(ext, max(abs(v) for v in b))
    if not hull:
        chk.violation('C09/%s/hull-missing' % key, '%s has %d geometry points but reports an empty hull' % (what, len(pts)), rp)
        return
    # (1) every hull corner coincides with a geometry point
    for h in hull:
        if not any(abs(h[0] - p[0]) <= tol and abs(h[1] - p[1]) <= tol for p in pts):
            chk.violation('C09/%s/hull-corner-not-geometry' % key, '%s: hull corner (%g,%g) is not a point of the geometry' % (what, h[0], h[1]), rp)
            return
    # (2) every geometry point is inside or on the hull
    n = len(hull)
    if n == 1:
        bad = [p for p in pts if abs(p[0] - hull[0][0]) > tol or abs(p[1] - hull[0][1]) > tol]
    elif n == 2 or all(abs((hull[1][0] - hull[0][0]) * (h[1] - hull[0][1]) - (hull[1][1] - hull[0][1]) * (h[0] - hull[0][0])) <= tol * ext for h in hull):
        # degenerate hull: all points must lie on the segment spanned by the hull points
        a = min(hull)
        bb = max(hull)
        bad = []
        for p in pts:
            d2 = geom.dist2_point_seg(p[0], p[1], a[0], a[1], bb[0], bb[1])
            if d2 > (tol * 10) ** 2:
                bad.append(p)
    else:
        area = sum(hull[i][0] * hull[i + 1 - n][1] - hull[i + 1 - n][0] * hull[i][1] for i in range(n))
        sgn = 1.0 if area > 0 else -1.0
        bad = []
        for p in pts:
            for i in range(n):
                a, bb = hull[i], hull[i + 1 - n]
                cr = ((bb[0] - a[0]) * (p[1] - a[1]) - (bb[1] - a[1]) * (p[0] - a[0])) * sgn
                if cr < -tol * ext * 4:
                    bad.append(p)
                    break
    if bad:
        chk.violation('C09/%s/hull-misses-geometry' % key, '%s: geometry point (%g,%g) lies outside the reported hull %s' % (what, bad[0][0], bad[0][1], hull[:8]), rp)


def judge(chk, c, evs):
    m = c.meta
    lib = m['spec']
    rp = {'case': c.text(), 'meta': {'seed': m['seed']}}
    if not script.check_exit(chk, c, evs):
        return
    tp = {e['h']: e for e in evs if e['op'] == 'to_polygons' and e.get('k') != 'call'}
    outl = {}
    for ci, kind, pi, h in m['want']:
        e = tp.get(h)
        if e is None:
            chk.harness_error('%s: outline of %s missing' % (c.id, h))
            return
        outl[(ci, kind, pi)] = [((p['layer'], p['type']), [(p['pts'][k], p['pts'][k + 1]) for k in range(0, len(p['pts']), 2)]) for p in e['polys']]
    cellpts = {ci: points_of(lib, ci, outl) for ci in range(len(lib['cells']))}
    # cached results are the same as uncached ones (same corner points, none repeated)
    hulls = {}
    for e in evs:
        if e.get('k') != 'call' and e['op'] == 'convex_hull' and e.get('label', '').startswith(('cell', 'shared', 'again')):
            lab = e['label']
            ci = int(lab.lstrip('cellsharedagain'))
            hl = sorted((round(e['hull'][k], 12), round(e['hull'][k + 1], 12)) for k in range(0, len(e['hull']), 2))
            hulls.setdefault(ci, []).append((lab, hl))
    for ci, lst in hulls.items():
        base = lst[0][1]
        for lab, hl in lst[1:]:
            if len(hl) != len(base) or any(abs(a[0] - b[0]) > 1e-9 or abs(a[1] - b[1]) > 1e-9 for a, b in zip(hl, base)):
                chk.violation('C09/cell-cached/hull-differs-from-uncached', 'cell %s: hull from query %s has %d points, the uncached query %d; the point lists differ' % (
                    lib['cells'][ci]['name'], lab, len(hl), len(base)), rp)
                break
    for e in evs:
        if e.get('k') == 'call' or e['op'] not in ('bounding_box', 'convex_hull') or 'label' not in e:
            continue
        lab = e['label']
        if lab.startswith(('cell', 'shared', 'again')):
            ci = int(lab.lstrip('cellsharedagain'))
            what = 'cell %s (%s)' % (lib['cells'][ci]['name'], {'c': 'fresh cache', 's': 'shared cache', 'a': 'shared cache, repeated'}[lab[0]])
            key = 'cell' if lab[0] == 'c' else 'cell-cached'
            if e['op'] == 'bounding_box':
                check_box(chk, rp, what, e, cellpts[ci], key)
            else:
                check_hull(chk, rp, what, e['hull'], cellpts[ci], key)
            chk.cov('cell_queries')
        elif lab in ('ref', 'refc'):
            idx = int(e['h'][1:])
            # locate the reference spec
            k = 0
            rf = None
            for ci, cell in enumerate(lib['cells']):
                for r in cell['refs']:
                    if k == idx:
                        rf = r
                    k += 1
            if rf is None:
                continue
            if rf['kind'] != 'cell':
                pts = []
            else:
                pts = [geom.m_apply(M, p) for M in flat.ref_matrices(rf) for p in cellpts[rf['target']]]
            what = 'reference to %s (rotation %g, %s repetition)' % (rf['target'], rf['rotation'], (rf.get('rep') or {}).get('kind'))
            if e['op'] == 'bounding_box':
                check_box(chk, rp, what, e, pts, 'reference' if lab == 'ref' else 'reference-cached')
            else:
                check_hull(chk, rp, what, e['hull'], pts, 'reference')
            chk.cov('reference_queries')
        elif lab.startswith('poly:'):
            _, ci, k = lab.split(':')
            p = lib['cells'][int(ci)]['polys'][int(k)]
            pts = [(x + v[0], y + v[1]) for v in genlib.rep_offsets(p.get('rep')) for x, y in p['pts']]
            check_box(chk, rp, 'polygon', e, pts, 'polygon')
            chk.cov('polygon_queries')
        elif lab.startswith('label:'):
            _, ci, k = lab.split(':')
            l = lib['cells'][int(ci)]['labels'][int(k)]
            pts = [(l['origin'][0] + v[0], l['origin'][1] + v[1]) for v in genlib.rep_offsets(l.get('rep'))]
            check_box(chk, rp, 'label', e, pts, 'label')
            chk.cov('label_queries')
    chk.cov('cases_judged')
    nt = any(c2['name'].startswith(('degenerate', 'empty')) for c2 in lib['cells'])
    for cell in lib['cells']:
        for rf in cell['refs']:
            if rf['kind'] == 'cell':
                mfrac = rf['rotation'] / (math.pi / 2)
                tgt = lib['cells'][rf['target']]
                if abs(mfrac - round(mfrac)) > 1e-9 and (rf.get('rep') or any(e.get('rep') for k in ('polys', 'labels', 'refs') for e in tgt[k])):
                    nt = True
    if nt:
        chk.fp(c.id)


def work(rec, b, indices):
    cases = [make_case(i) for i in indices]
    ev = script.run_cases(rec, b, cases, shards=1)
    for c in cases:
        rec.evaluations += 1
        judge(rec, c, ev.get(c.id, []))


def run(tier):
    chk = vfw.Check('C09', tier)
    b = vfw.build()
    n = N[tier]
    vfw.run_sharded(chk, b, n, work)
    c = make_case(0)
    chk.sample({'case': c.id, 'cells': [cc['name'] for cc in c.meta['spec']['cells']], 'queries': [l for l in c.lines if l.startswith(('bounding_box', 'convex_hull'))][:12]})
    chk.rule = ('hierarchies of 2-6 cells with every repetition kind, explicit offset lists of 5-9 offsets on a circle on references, rotations in and out '
                'of the 90 degree family, reflections, magnifications, degenerate leaves (labels on a descending / ascending / vertical / horizontal '
                'line, single point, two points), empty cells; per library every cell is queried with a fresh cache, then all cells in random order '
                'with one shared cache (boxes first or hulls first), then again; up to 4 references (fresh and cached), 6 polygons, 4 labels. '
                'Oracle: extrema of the hand-flattened geometry (polygon and path-outline vertices, label origins); a hull must contain every '
                'geometry point and have only geometry points as corners. Non-trivial: degenerate or empty content, or a reference with a rotation '
                'that is not a multiple of 90 degrees over repeated content.')
    chk.assumptions = ['leaf path outlines observed from to_polygons (C07/C08)', 'tolerance 1e-9 of the extent']
    chk.floor('cases_judged', chk.coverage.get('cases_judged', 0), int(0.9 * n))
    chk.finish()


def replay(path):
    import c01
    return c01.replay(path)
