# C08 - RobustPath outlines follow their parametric spine, width and offset.
#  The oracle keeps its own list of analytic sections (built from the call arguments, never from gdstk's sub-path records, except
#  for Hobby interpolations whose control points are observed and then verified) and its own width/offset interpolation laws.
#  Monitors:
#   (1) bookkeeping after every call: one width and one offset law per section per element, end point = oracle end point
#   (2) position/gradient/width/offset queries at generated parameters (integers with both from_below values, out of range values)
#   (3) spine() and element_center(): all points on the analytic curve, analytic curve within 3 tolerances of the polyline
#   (4) to_polygons(): winding-number probes - inside the band, outside the band (other sections, joints and caps accounted for), end planes
import math
import random

import genlib
import geom
import script
import vfw
from script import Case, fl

N = {'quick': 1600, 'thorough': 40000}
G = 0.01
NS = 48        # dense samples per section


# ------------------------------------------------------------------------------------------------ analytic sections (local frame)
def _param(kind_block, u):
    p = kind_block
    k = int(p[0])
    if k == 0:
        a = p[2] + u * (p[3] - p[2])
        return (p[1] * (math.cos(a) - math.cos(p[2])), p[1] * (math.sin(a) - math.sin(p[2])))
    if k == 1:
        return (p[1] * u, p[2] * u * u)
    if k == 2:
        return (p[1] * u, p[2] * math.sin(2 * math.pi * p[3] * u))
    return (p[1] * u + p[2] * u * u + p[3] * u ** 3, p[4] * u + p[5] * u * u + p[6] * u ** 3)


def _param_grad(p, u):
    k = int(p[0])
    if k == 0:
        a = p[2] + u * (p[3] - p[2])
        da = p[3] - p[2]
        return (-p[1] * math.sin(a) * da, p[1] * math.cos(a) * da)
    if k == 1:
        return (p[1], 2 * p[2] * u)
    if k == 2:
        return (p[1], p[2] * 2 * math.pi * p[3] * math.cos(2 * math.pi * p[3] * u))
    return (p[1] + 2 * p[2] * u + 3 * p[3] * u * u, p[4] + 2 * p[5] * u + 3 * p[6] * u * u)


class Sec:
    def __init__(self, kind, **kw):
        self.kind = kind
        self.__dict__.update(kw)

    def ev(self, u):
        if self.kind in ('seg', 'hobby'):      # hobby: placeholder (chord) until the observed control points are filled in
            return (self.a[0] + (self.b[0] - self.a[0]) * u, self.a[1] + (self.b[1] - self.a[1]) * u)
        if self.kind == 'arc':
            t = self.ai + (self.af - self.ai) * u
            x, y = self.rx * math.cos(t), self.ry * math.sin(t)
            c, s = math.cos(self.rot), math.sin(self.rot)
            return (self.c[0] + x * c - y * s, self.c[1] + x * s + y * c)
        if self.kind == 'bez':
            pts = list(self.ctrl)
            while len(pts) > 1:
                pts = [(p[0] * (1 - u) + q[0] * u, p[1] * (1 - u) + q[1] * u) for p, q in zip(pts, pts[1:])]
            return pts[0]
        f = _param(self.blk, u)
        return (f[0] + self.ref[0], f[1] + self.ref[1])

    def gr(self, u):
        if self.kind in ('seg', 'hobby'):
            return (self.b[0] - self.a[0], self.b[1] - self.a[1])
        if self.kind == 'arc':
            t = self.ai + (self.af - self.ai) * u
            d = self.af - self.ai
            x, y = -self.rx * math.sin(t) * d, self.ry * math.cos(t) * d
            c, s = math.cos(self.rot), math.sin(self.rot)
            return (x * c - y * s, x * s + y * c)
        if self.kind == 'bez':
            n = len(self.ctrl) - 1
            pts = [(n * (q[0] - p[0]), n * (q[1] - p[1])) for p, q in zip(self.ctrl, self.ctrl[1:])]
            while len(pts) > 1:
                pts = [(p[0] * (1 - u) + q[0] * u, p[1] * (1 - u) + q[1] * u) for p, q in zip(pts, pts[1:])]
            return pts[0]
        if getattr(self, 'nograd', False):
            # no gradient function supplied: documented as a numerical derivative; central difference with the step 1/(10 max_evals), clipped to [0, 1]
            u0, u1 = max(0.0, u - self.step), min(1.0, u + self.step)
            a, b = _param(self.blk, u1), _param(self.blk, u0)
            return ((a[0] - b[0]) / (u1 - u0), (a[1] - b[1]) / (u1 - u0))
        return _param_grad(self.blk, u)


def interp_val(law, u):
    u = min(1.0, max(0.0, u))
    k = law[0]
    if k == 'c':
        return law[1]
    if k == 'l':
        return law[1] * (1 - u) + law[2] * u
    if k == 's':
        return law[1] + (law[2] - law[1]) * (3 - 2 * u) * u * u
    blk = law[1]
    if int(blk[0]) == 0:
        return blk[1] + blk[2] * u * u
    return blk[1] + blk[2] * math.sin(math.pi * u)


class Model:
    """what the construction calls mean, written from the documented semantics"""

    def __init__(self, fp):
        self.end = fp['p0']
        self.max_evals = fp['max_evals']
        self.ncall = 0
        self.secs = []
        self.nel = len(fp['elements'])
        self.wl = [[] for _ in range(self.nel)]
        self.ol = [[] for _ in range(self.nel)]
        self.endw = [e['width'] for e in fp['elements']]
        self.endo = [e['offset'] for e in fp['elements']]
        self.M = (1.0, 0.0, 0.0, 0.0, 1.0, 0.0)
        self.wscale = 1.0
        self.oscale = 1.0
        self.scale_width = fp['scale_width']
        self.ext = [list(e['ext']) for e in fp['elements']]
        self.unknown = False       # a Hobby interpolation still needs its observed control points

    def _laws(self, ex):
        for which, laws, endv in (('w', self.wl, self.endw), ('o', self.ol, self.endo)):
            spec = ex.get(which)
            for i in range(self.nel):
                if spec is None:
                    laws[i].append(('c', endv[i]))
                else:
                    s = spec[i]
                    if s[0] == 'c':
                        law = ('c', s[1])
                    elif s[0] in 'ls':
                        law = (s[0], endv[i], s[1])
                    else:
                        law = ('p', list(s[1]))
                    laws[i].append(law)
                    endv[i] = interp_val(law, 1.0)

    def _abs(self, p, rel):
        return (p[0] + self.end[0], p[1] + self.end[1]) if rel else (p[0], p[1])

    def _prev_grad(self):
        return self.secs[-1].gr(1.0) if self.secs else None

    def add(self, sec, ex, newend):
        self.secs.append(sec)
        self.end = newend
        self._laws(ex)

    def call(self, call):
        self.ncall += 1
        name, a = call[0], call[1]
        ex = call[2] if len(call) > 2 else {}
        rel = bool(ex.get('rel'))
        e = self.end
        if name == 'segment':
            b = self._abs(a, rel)
            self.add(Sec('seg', a=e, b=b), ex, b)
        elif name == 'horizontal':
            b = (a + e[0] if rel else a, e[1])
            self.add(Sec('seg', a=e, b=b), ex, b)
        elif name == 'vertical':
            b = (e[0], a + e[1] if rel else a)
            self.add(Sec('seg', a=e, b=b), ex, b)
        elif name in ('cubic', 'quadratic', 'bezier'):
            ctrl = [e] + [self._abs(p, rel) for p in a]
            self.add(Sec('bez', ctrl=ctrl), ex, ctrl[-1])
        elif name in ('cubic_smooth', 'quadratic_smooth'):
            g = self._prev_grad()
            deg = 3 if name == 'cubic_smooth' else 2
            p1 = e if g is None else (e[0] + g[0] / deg, e[1] + g[1] / deg)
            rest = [self._abs(p, rel) for p in (a if name == 'cubic_smooth' else [a])]
            ctrl = [e, p1] + rest
            self.add(Sec('bez', ctrl=ctrl), ex, ctrl[-1])
        elif name == 'arc':
            rx, ry, a0, a1, rot = a
            self._arc(rx, ry, a0, a1, rot, ex)
        elif name == 'turn':
            r, ang = a
            g = self._prev_grad() or (1.0, 0.0)
            ia = math.atan2(g[1], g[0]) + (0.5 * math.pi if ang < 0 else -0.5 * math.pi)
            self._arc(r, r, ia, ia + ang, 0.0, ex)
        elif name == 'parametric':
            ref = e if rel else (0.0, 0.0)
            s = Sec('par', blk=list(a), ref=ref, nograd=not ex.get('grad', 1), step=1.0 / (10.0 * self.max_evals))
            self.add(s, ex, s.ev(1.0))
        elif name == 'interpolation':
            pts = [self._abs(p, rel) for p in a[0]]
            prev = e
            for p in pts:
                self.add(Sec('hobby', a=prev, b=p, ctrl=None, callid=self.ncall), ex, p)
                prev = p
            self.unknown = True
        elif name == 'commands':
            self._commands(a)
        else:
            raise ValueError(name)

    def _arc(self, rx, ry, a0, a1, rot, ex):
        e = self.end
        ai, af = a0 - rot, a1 - rot
        c, s = math.cos(rot), math.sin(rot)
        x, y = rx * math.cos(ai), ry * math.sin(ai)
        cen = (e[0] - (x * c - y * s), e[1] - (x * s + y * c))
        sec = Sec('arc', c=cen, rx=rx, ry=ry, ai=ai, af=af, rot=rot)
        self.add(sec, ex, sec.ev(1.0))

    def _commands(self, items):
        i = 0
        n = len(items)

        def num(k):
            return [float(x) for x in items[i + 1:i + 1 + k]]
        need = {'l': 2, 'h': 1, 'v': 1, 'c': 6, 's': 4, 'q': 4, 't': 2, 'a': 2, 'A': 3, 'E': 5}
        while i < n:
            c = items[i]
            k = need[c if c in 'aAE' else c.lower()]
            v = num(k)
            rel = c.islower()
            ex = {'rel': rel}
            lc = c if c in 'aAE' else c.lower()
            if lc == 'l':
                self.call(('segment', (v[0], v[1]), ex))
            elif lc == 'h':
                self.call(('horizontal', v[0], ex))
            elif lc == 'v':
                self.call(('vertical', v[0], ex))
            elif lc == 'c':
                self.call(('cubic', [(v[0], v[1]), (v[2], v[3]), (v[4], v[5])], ex))
            elif lc == 's':
                self.call(('cubic_smooth', [(v[0], v[1]), (v[2], v[3])], ex))
            elif lc == 'q':
                self.call(('quadratic', [(v[0], v[1]), (v[2], v[3])], ex))
            elif lc == 't':
                self.call(('quadratic_smooth', (v[0], v[1]), ex))
            elif lc == 'a':
                self.call(('turn', (v[0], v[1]), {}))
            elif lc == 'A':
                self.call(('arc', (v[0], v[0], v[1], v[2], 0.0), {}))
            else:
                self.call(('arc', tuple(v), {}))
            i += 1 + k

    # ---- transforms (of the whole path, sections stay in the local frame)
    def xform(self, x):
        k = x[0]
        if k == 'translate':
            T = geom.m_translate((x[1], x[2]))
        elif k == 'scale':
            s, cx, cy = x[1], x[2], x[3]
            T = geom.m_scale(s, s, (cx, cy))
            self.oscale *= abs(s)
            if self.scale_width:
                self.wscale *= abs(s)
            self.ext = [[a * abs(s), b * abs(s)] for a, b in self.ext]
        elif k == 'rotate':
            a, cx, cy = x[1], x[2], x[3]
            T = geom.m_rotate(a, (cx, cy))
        else:
            x0, y0, x1, y1 = x[1:5]
            T = geom.m_mirror((x0, y0), (x1, y1))
            self.oscale *= -1
        self.M = geom.m_mul(T, self.M)

    # ---- global frame evaluation
    def S(self, si, u):
        return geom.m_apply(self.M, self.secs[si].ev(u))

    def dS(self, si, u):
        g = self.secs[si].gr(u)
        m = self.M
        return (m[0] * g[0] + m[1] * g[1], m[3] * g[0] + m[4] * g[1])

    def off(self, ei, si, u):
        return interp_val(self.ol[ei][si], u) * self.oscale

    def wid(self, ei, si, u):
        return interp_val(self.wl[ei][si], u) * self.wscale

    def C(self, ei, si, u):
        p = self.S(si, u)
        g = self.dS(si, u)
        ln = math.hypot(*g)
        if ln == 0:
            return p
        o = self.off(ei, si, u)
        return (p[0] - g[1] / ln * o, p[1] + g[0] / ln * o)

    def dC(self, ei, si, u):
        h = 1e-6
        u0, u1 = max(0.0, u - h), min(1.0, u + h)
        a, b = self.C(ei, si, u0), self.C(ei, si, u1)
        return ((b[0] - a[0]) / (u1 - u0), (b[1] - a[1]) / (u1 - u0))


def _cext(m, ei, si, u, frozen=False):
    """centre curve continued outside [0, 1]: along its own end tangent, or (frozen) along the spine tangent with the offset held"""
    if u > 1:
        p, g = m.C(ei, si, 1.0), (m.dS(si, 1.0) if frozen else m.dC(ei, si, 1.0))
        return (p[0] + g[0] * (u - 1), p[1] + g[1] * (u - 1)), g
    if u < 0:
        p, g = m.C(ei, si, 0.0), (m.dS(si, 0.0) if frozen else m.dC(ei, si, 0.0))
        return (p[0] + g[0] * u, p[1] + g[1] * u), g
    return m.C(ei, si, u), m.dC(ei, si, u)


def _centre_intersection(m, ei, ji, frozen=False):
    """point where the centre curves of sections ji and ji+1 (continued along their tangents) cross: Newton from (1, 0)"""
    u0, u1 = 1.0, 0.0
    for _ in range(30):
        (a, g0), (b, g1) = _cext(m, ei, ji, u0, frozen), _cext(m, ei, ji + 1, u1, frozen)
        fx, fy = a[0] - b[0], a[1] - b[1]
        if math.hypot(fx, fy) < 1e-12:
            return a
        den = -g0[0] * g1[1] + g0[1] * g1[0]
        if abs(den) < 1e-14:
            return None
        # solve g0 du0 - g1 du1 = -f
        du0 = (-(-fx) * g1[1] + (-fy) * g1[0]) / den
        du1 = (g0[0] * (-fy) - g0[1] * (-fx)) / den
        u0, u1 = u0 + du0, u1 + du1
        if not (-1 < u0 < 2 and -1 < u1 < 2):
            return None
    return None


Model.centre_intersection = lambda self, ei, ji, frozen=False: _centre_intersection(self, ei, ji, frozen)


# ------------------------------------------------------------------------------------------------ generator
def gen_path(rnd, sd):
    nel = rnd.choice([1, 1, 2, 3])
    els = []
    for i in range(nel):
        w = rnd.randrange(1, 6) * 2 * G
        off = 0.0 if (nel == 1 and rnd.random() < 0.6) else (i - (nel - 1) / 2) * rnd.randrange(6, 10) * 2 * G
        end = rnd.choice([0, 1, 2, 3])
        ext = (rnd.randrange(0, 9) * G, rnd.randrange(0, 9) * G) if end == 3 else (0.0, 0.0)
        els.append({'width': w, 'offset': off, 'tag': (i, 0), 'end': end, 'ext': ext})
    tol = rnd.choice([1e-2, 1e-3]) * 10 * G
    p0 = (rnd.randrange(-50, 50) * G, rnd.randrange(-50, 50) * G)
    # simple paths (constant width and offset, no transform) are also saved as PATH records and read back from the bytes
    simple = rnd.random() < 0.2
    if simple:
        for e in els:
            if e['end'] == 1:
                e['end'] = rnd.choice([0, 2, 3])
                e['ext'] = (rnd.randrange(0, 9) * G, rnd.randrange(0, 9) * G) if e['end'] == 3 else (0.0, 0.0)
    fp = {'p0': p0, 'tol': tol, 'max_evals': 1000, 'elements': els, 'simple': simple, 'scale_width': rnd.random() < 0.7, 'calls': [],
          'rep': None, 'props': [], 'xforms': []}
    model = Model(fp)
    wmax = max(e['width'] for e in els) + 2 * max(abs(e['offset']) for e in els)
    curw = [e['width'] for e in els]
    curo = [e['offset'] for e in els]

    def L():
        return rnd.randrange(80, 160) * G

    def heading():
        g = model._prev_grad()
        return math.atan2(g[1], g[0]) if g else rnd.choice([0.0, math.pi / 2, math.pi, -math.pi / 2, 0.6])

    def laws():
        ex = {}
        if simple:
            return ex
        r = rnd.random()
        if r < 0.45:
            spec = []
            for i, e in enumerate(els):
                k = rnd.choice('lsp')
                v = e['width'] * rnd.choice([0.6, 1.0, 1.4])
                if k == 'p':
                    kind = rnd.choice([0, 1])
                    b = (v - curw[i]) if kind == 0 else curw[i] * rnd.choice([0.3, -0.3])
                    spec.append(('p', [kind, curw[i], b]))
                    if kind == 0:
                        curw[i] = curw[i] + b
                else:
                    spec.append((k, v))
                    curw[i] = v
            ex['w'] = spec
        if rnd.random() < 0.3 and nel > 1:
            spec = []
            for i, e in enumerate(els):
                k = rnd.choice('lsp')
                v = e['offset'] * rnd.choice([1.0, 1.2, 0.8])
                if k == 'p':
                    kind = rnd.choice([0, 1])
                    b = (v - curo[i]) if kind == 0 else curo[i] * rnd.choice([0.2, -0.2])
                    spec.append(('p', [kind, curo[i], b]))
                    if kind == 0:
                        curo[i] = curo[i] + b
                else:
                    spec.append((k, v))
                    curo[i] = v
            ex['o'] = spec
        return ex

    ncalls = rnd.randrange(1, 6)
    xf_at = rnd.randrange(1, ncalls + 1) if rnd.random() < 0.12 and not simple else None      # a transform in the middle of the history
    for ci in range(ncalls):
        if xf_at == ci:
            x = gen_xform(rnd)
            fp['calls'].append(('xform', x))
            model.xform(x)
        h = heading()
        kink = rnd.choice([0.0, 0.0, 0.0, 0.5, -0.5, math.pi / 4, -math.pi / 4, math.pi / 2, -math.pi / 2])
        d = h + kink
        ln = L()
        dv = (ln * math.cos(d), ln * math.sin(d))
        nv = (-dv[1], dv[0])
        kind = rnd.choice(['segment', 'segment', 'hv', 'arc', 'turn', 'turn', 'quadratic', 'cubic', 'cubic_smooth', 'quadratic_smooth', 'bezier',
                           'interpolation', 'parametric', 'commands'])
        if kind in ('cubic_smooth', 'quadratic_smooth') and not model.secs:
            kind = 'cubic'      # without a previous section the first control point coincides with the start: zero gradient, no normal
        ex = laws()
        if kind == 'segment':
            if rnd.random() < 0.5:
                call = ('segment', dv, dict(ex, rel=True))
            else:
                call = ('segment', (model.end[0] + dv[0], model.end[1] + dv[1]), ex)
        elif kind == 'hv':
            ax = 0 if abs(math.cos(d)) > abs(math.sin(d)) else 1
            sgn = 1 if (math.cos(d) if ax == 0 else math.sin(d)) > 0 else -1
            if rnd.random() < 0.5:
                call = ('horizontal' if ax == 0 else 'vertical', sgn * ln, dict(ex, rel=True))
            else:
                call = ('horizontal' if ax == 0 else 'vertical', model.end[ax] + sgn * ln, ex)
        elif kind == 'turn':
            r = max(3 * wmax, rnd.randrange(40, 120) * G)
            call = ('turn', (r, rnd.choice([-1, 1]) * rnd.choice([0.5, math.pi / 2, 1.2, 2.0])), ex)
        elif kind == 'arc':
            sgn = rnd.choice([-1, 1])
            if rnd.random() < 0.7:
                r = max(3 * wmax, rnd.randrange(40, 120) * G)
                a0 = d - sgn * math.pi / 2
                call = ('arc', (r, r, a0, a0 + sgn * rnd.choice([0.6, math.pi / 2, 2.0]), 0.0), ex)
            else:
                rx = max(3 * wmax, rnd.randrange(60, 120) * G)
                ry = rx * rnd.choice([0.7, 1.3])
                rot = rnd.choice([0.0, 0.4, -1.0])
                a0 = d - sgn * math.pi / 2
                call = ('arc', (rx, ry, a0, a0 + sgn * rnd.choice([0.6, 1.2]), rot), ex)
        elif kind == 'quadratic':
            s = rnd.choice([-1, 1]) * 0.2
            call = ('quadratic', [(0.5 * dv[0] + s * nv[0], 0.5 * dv[1] + s * nv[1]), dv], dict(ex, rel=True))
        elif kind == 'cubic':
            s = rnd.choice([-1, 1]) * 0.15
            call = ('cubic', [(0.3 * dv[0] + s * nv[0], 0.3 * dv[1] + s * nv[1]), (0.7 * dv[0] - s * nv[0], 0.7 * dv[1] - s * nv[1]), dv], dict(ex, rel=True))
        elif kind == 'cubic_smooth':
            dd = (ln * math.cos(h), ln * math.sin(h))
            s = rnd.choice([-1, 1]) * 0.15
            nn = (-dd[1], dd[0])
            call = ('cubic_smooth', [(0.7 * dd[0] + s * nn[0], 0.7 * dd[1] + s * nn[1]), (dd[0] + s * nn[0], dd[1] + s * nn[1])], dict(ex, rel=True))
        elif kind == 'quadratic_smooth':
            dd = (ln * math.cos(h), ln * math.sin(h))
            s = rnd.choice([-1, 1]) * 0.2
            nn = (-dd[1], dd[0])
            call = ('quadratic_smooth', (dd[0] + s * nn[0], dd[1] + s * nn[1]), dict(ex, rel=True))
        elif kind == 'bezier':
            s = rnd.choice([-1, 1]) * 0.12
            pts = [(0.25 * dv[0] + s * nv[0], 0.25 * dv[1] + s * nv[1]), (0.5 * dv[0] + s * nv[0], 0.5 * dv[1] + s * nv[1]),
                   (0.75 * dv[0] - s * nv[0], 0.75 * dv[1] - s * nv[1]), dv]
            if rnd.random() < 0.5:
                pts.insert(2, (0.6 * dv[0], 0.6 * dv[1]))
            call = ('bezier', pts, dict(ex, rel=True))
        elif kind == 'interpolation':
            pts = []
            cx, cy = 0.0, 0.0
            for _k in range(rnd.randrange(2, 4)):
                s = rnd.choice([-1, 0, 1]) * 0.15
                cx, cy = cx + dv[0] + s * nv[0], cy + dv[1] + s * nv[1]
                pts.append((cx, cy))
            m = len(pts) + 1
            if len(pts) > 1:
                # known finding C08/interpolation/law-restarts: a width/offset change is re-applied from its initial value in every section
                # of a multi-point interpolation; the generator keeps the laws constant there (probe_interp_taper exercises the finding)
                for i in range(nel):
                    curw[i] = model.endw[i]
                    curo[i] = model.endo[i]
                ex = {}
            call = ('interpolation', (pts, [(False, 0.0)] * m, [(1.0, 1.0)] * m, 1.0, 1.0, False), dict(ex, rel=True))
        elif kind == 'parametric':
            k = rnd.choice([0, 1, 2, 3])
            R = max(4 * wmax, rnd.randrange(60, 140) * G)
            if k == 0:
                sgn = rnd.choice([-1, 1])
                a0 = d - sgn * math.pi / 2
                blk = [0, R, a0, a0 + sgn * rnd.choice([0.8, 1.3, 2.0])]
            elif k == 1:
                sx = 1 if math.cos(d) >= 0 else -1
                blk = [1, sx * ln, rnd.choice([-0.4, 0.4])]
            elif k == 2:
                sx = 1 if math.cos(d) >= 0 else -1
                blk = [2, sx * 2 * ln, rnd.choice([0.1, 0.2]), 1.0]
            else:
                sx = 1 if math.cos(d) >= 0 else -1
                blk = [3, sx * ln, 0.0, 0.0, 0.0, rnd.choice([-0.5, 0.5]), rnd.choice([0.0, -0.3, 0.3])]
            call = ('parametric', blk, dict(ex, rel=True, grad=int(rnd.random() < 0.7)))
        else:
            items = []
            for _k in range(rnd.randrange(2, 4)):
                c = rnd.choice(['l', 'h', 'v', 'c', 'C', 'q', 'a', 'L'] + (['s', 't'] if (model.secs or items) else []))
                ddx, ddy = dv
                if c == 'l':
                    items += ['l', ddx, ddy]
                elif c == 'L':
                    items += ['L', 'ABSX', 'ABSY']
                elif c == 'h':
                    items += ['h', math.copysign(ln, ddx if ddx else 1.0)]
                elif c == 'v':
                    items += ['v', math.copysign(ln, ddy if ddy else 1.0)]
                elif c in 'cC':
                    s = 0.15
                    q = [(0.3 * ddx + s * nv[0], 0.3 * ddy + s * nv[1]), (0.7 * ddx - s * nv[0], 0.7 * ddy - s * nv[1]), (ddx, ddy)]
                    if c == 'C':
                        items += ['C'] + ['ABS%d' % j for j in range(6)]
                        items[-6:] = [('ABS', q[j // 2][j % 2], j % 2) for j in range(6)]
                    else:
                        items += ['c'] + [x for p in q for x in p]
                elif c == 's':
                    items += ['s', 0.7 * ddx, 0.7 * ddy, ddx, ddy]
                elif c == 'q':
                    items += ['q', 0.5 * ddx + 0.2 * nv[0], 0.5 * ddy + 0.2 * nv[1], ddx, ddy]
                elif c == 't':
                    items += ['t', ddx, ddy]
                else:
                    items += ['a', max(3 * wmax, 0.6), rnd.choice([-1.0, 1.0, 0.5])]
            call = ('commands', items, {})
        if call[0] == 'commands':
            call = ('commands', _resolve_abs(call[1], model), {})
        else:
            model.call(call)
        # the next law starts from what the elements really ended with (laws drawn for a call that takes none are dropped)
        curw[:] = model.endw
        curo[:] = model.endo
        fp['calls'].append(call)
    if not simple and (xf_at == ncalls or rnd.random() < 0.25):
        for _k in range(rnd.randrange(1, 3)):
            x = gen_xform(rnd)
            fp['calls'].append(('xform', x))
            model.xform(x)
    return fp


def _resolve_abs(items, model):
    """commands with absolute operands: resolve them against the model's running end point, executing as we go"""
    out = []
    i = 0
    need = {'l': 2, 'h': 1, 'v': 1, 'c': 6, 's': 4, 'q': 4, 't': 2, 'a': 2, 'A': 3, 'E': 5}
    while i < len(items):
        c = items[i]
        k = need[c if c in 'aAE' else c.lower()]
        ops = items[i + 1:i + 1 + k]
        e = model.end
        res = []
        for j, o in enumerate(ops):
            if o == 'ABSX':
                res.append(e[0] + 0.9)
            elif o == 'ABSY':
                res.append(e[1] + 0.3)
            elif isinstance(o, tuple):
                res.append(o[1] + e[o[2]])
            else:
                res.append(o)
        out += [c] + res
        model._commands([c] + res)
        i += 1 + k
    return out


def gen_xform(rnd):
    k = rnd.choice(['translate', 'scale', 'rotate', 'mirror'])
    if k == 'translate':
        return ('translate', rnd.randrange(-100, 100) * G, rnd.randrange(-100, 100) * G)
    if k == 'scale':
        return ('scale', rnd.choice([2.0, 0.5, 1.5, -1.0]), rnd.randrange(-50, 50) * G, rnd.randrange(-50, 50) * G)
    if k == 'rotate':
        return ('rotate', rnd.choice([math.pi / 2, 0.3, -1.0, math.pi]), rnd.randrange(-50, 50) * G, rnd.randrange(-50, 50) * G)
    x0, y0 = rnd.randrange(-50, 50) * G, rnd.randrange(-50, 50) * G
    dx, dy = rnd.choice([(1.0, 0.0), (0.0, 1.0), (1.0, 1.0), (0.3, -0.8)])
    return ('mirror', x0, y0, x0 + dx, y0 + dy)


def emit(c, fp):
    h = 'r0'
    c.handle('r')
    toks = []
    for e in fp['elements']:
        toks += [fl(e['width']), fl(e['offset']), e['tag'][0], e['tag'][1]]
    if fp.get('simple'):
        c.op('lib', script.hx('L'), fl(1e-6), fl(1e-9))
        c.op('cell', script.hx('C'), 'l0')
    c.op('rpath', 'c0' if fp.get('simple') else '-', fl(fp['p0'][0]), fl(fp['p0'][1]), len(fp['elements']), fl(fp['tol']), fp['max_evals'], *toks)
    c.op('rpset', h, int(bool(fp.get('simple'))), int(fp['scale_width']))
    for i, e in enumerate(fp['elements']):
        c.op('rpel', h, i, e['end'], fl(e['ext'][0]), fl(e['ext'][1]))
    for call in fp['calls']:
        if call[0] == 'xform':
            x = call[1]
            if x[0] == 'translate':
                c.op('xform', h, 'translate', fl(x[1]), fl(x[2]))
            elif x[0] == 'scale':
                c.op('xform', h, 'scale', fl(x[1]), fl(x[2]), fl(x[3]))
            elif x[0] == 'rotate':
                c.op('xform', h, 'rotate', fl(x[1]), fl(x[2]), fl(x[3]))
            else:
                c.op('xform', h, 'mirror', fl(x[1]), fl(x[2]), fl(x[3]), fl(x[4]))
        else:
            genlib.emit_rpcall(c, h, call)
    return h


def gen_offset_kink(rnd):
    """two elements with offsets of opposite sign, an arc whose offset laws end with a non-zero slope (the centre curves meet the next
    section at an angle of a degree or two), then a smooth quadratic with a width change: the family in which the thorough tier (seed 31,
    case R36810) found a joint where the search for the intersection of the side curves fails and leaves its last iterate behind
    (repaired in gdstk: a failed search no longer trims; kept as a targeted workload)"""
    def j(v):
        return v * rnd.uniform(0.7, 1.3)
    o = [j(-0.09), j(0.07)]
    els = [{'width': 0.1, 'offset': o[0], 'tag': (0, 0), 'end': 3, 'ext': (0.08, 0.08)},
           {'width': 0.08, 'offset': o[1], 'tag': (1, 0), 'end': 0, 'ext': (0.0, 0.0)}]
    fp = {'p0': (0.12, 0.16), 'tol': 1e-4, 'max_evals': 1000, 'elements': els, 'simple': False, 'scale_width': True, 'calls': [],
          'rep': None, 'props': [], 'xforms': [], 'offset_kink': True}
    model = Model(fp)
    r = j(0.84)
    laws = [('p', [rnd.choice([0, 1]) if k == 0 else 1, o[k], -0.2 * o[k] * rnd.uniform(0.5, 1.5)]) for k in range(2)]
    call = ('arc', (r, r, 0.0, math.pi / 2, 0.0), {'o': laws})
    model.call(call)
    fp['calls'].append(call)
    call = ('quadratic_smooth', (j(-1.55), j(0.31)), {'rel': True, 'w': [('l', j(0.14)), ('l', j(0.112))]})
    model.call(call)
    fp['calls'].append(call)
    return fp


def make_case(i):
    sd = vfw.seed() * 1000003 + 80000 + i
    rnd = random.Random(sd)
    fp = gen_path(rnd, sd)
    if random.Random(sd + 7).random() < 0.05:
        fp = gen_offset_kink(random.Random(sd + 8))
    c = Case('R%d' % i, timeout=90)
    h = emit(c, fp)
    c.op('dump_el', h, 'path')
    nsec = 0
    m = Model(fp)
    for call in fp['calls']:
        if call[0] == 'xform':
            m.xform(call[1])
        else:
            m.call(call)
    nsec = len(m.secs)
    qr = random.Random(sd + 1)
    us = [0.0, float(nsec), -0.5, nsec + 0.7] + [float(k) for k in range(1, nsec)] + [qr.uniform(0, nsec) for _ in range(8)]
    c.op('rp_query', h, 0, len(us), *[fl(u) for u in us])
    c.op('rp_query', h, 1, len(us), *[fl(u) for u in us])
    c.op('rp_spine', h)
    for ei in range(len(fp['elements'])):
        c.op('element_center', h, ei)
    c.op('to_polygons', h)
    if fp['simple']:
        c.op('write_gds', 'l0', 'p.gds', 0)
        c.op('filehex', 'p.gds')
        c.op('write_oas', 'l0', 'p.oas', fl(0.0), 0, 0)
        c.op('filehex', 'p.oas')
    c.meta = {'seed': sd, 'path': fp, 'us': us}
    return c


# ------------------------------------------------------------------------------------------------ judge
def pairs(flat):
    return [(flat[k], flat[k + 1]) for k in range(0, len(flat), 2)]


def dist_poly(p, line):
    best = float('inf')
    for a, b in zip(line, line[1:]):
        d2 = geom.dist2_point_seg(p[0], p[1], a[0], a[1], b[0], b[1])
        if d2 < best:
            best = d2
    return math.sqrt(best)


def dist_curve(p, f):
    """distance from p to the curve f(u), u in [0,1]: coarse scan + golden refinement around the best samples"""
    n = 64
    ds = [(math.hypot(*(lambda q: (q[0] - p[0], q[1] - p[1]))(f(k / n))), k) for k in range(n + 1)]
    ds.sort()
    best = ds[0][0]
    for _d, k in ds[:3]:
        lo, hi = max(0.0, (k - 1) / n), min(1.0, (k + 1) / n)
        for _ in range(40):
            m1, m2 = lo + (hi - lo) * 0.382, lo + (hi - lo) * 0.618
            q1, q2 = f(m1), f(m2)
            if math.hypot(q1[0] - p[0], q1[1] - p[1]) < math.hypot(q2[0] - p[0], q2[1] - p[1]):
                hi = m2
            else:
                lo = m1
        q = f((lo + hi) / 2)
        best = min(best, math.hypot(q[0] - p[0], q[1] - p[1]))
    return best


def judge(chk, c, evs):
    meta = c.meta
    fp = meta['path']
    rp = {'case': c.text(), 'meta': {'seed': meta['seed']}}
    if not script.check_exit(chk, c, evs):
        return
    m = Model(fp)
    done = [e for e in evs if e['op'] == 'rpcall' and e.get('k') != 'call']
    rcalls = [cl for cl in fp['calls'] if cl[0] != 'xform']
    if len(done) != len(rcalls):
        chk.harness_error('%s: %d rpcall events for %d calls' % (c.id, len(done), len(rcalls)))
        return
    di = 0
    dump = [e for e in evs if e['op'] == 'dump_el']
    if not dump:
        chk.harness_error('%s: no dump' % c.id)
        return
    el = dump[0]['el']
    subs = el['subpaths']
    # (1) bookkeeping per call, against the model executed in step
    for cl in fp['calls']:
        if cl[0] == 'xform':
            m.xform(cl[1])
            continue
        m.call(cl)
        e = done[di]
        di += 1
        if e['subpaths'] != len(m.secs):
            chk.violation('C08/bookkeeping/sections/' + cl[0], 'after %s the path has %d sections, expected %d' % (cl[0], e['subpaths'], len(m.secs)), rp)
            return
        if any(n != len(m.secs) for n in e['el_counts']):
            chk.violation('C08/bookkeeping/laws/' + cl[0], 'after %s the path has %d sections but the elements hold %s width/offset laws' % (cl[0], len(m.secs), e['el_counts']), rp)
            return
        # resolve Hobby sections from the observed control points, then verify what they must satisfy
        if m.unknown:
            for si, s in enumerate(m.secs):
                if s.kind == 'hobby':
                    sub = subs[si] if si < len(subs) else None
                    if not sub or sub[0] != 4:
                        chk.violation('C08/interpolation/section-kind', 'interpolation section %d is stored as %s' % (si, sub and sub[0]), rp)
                        return
                    ctrl = [tuple(sub[1]), tuple(sub[2]), tuple(sub[3]), tuple(sub[4])] if isinstance(sub[1], list) else pairs(sub[1:9])
                    sc = max(1.0, abs(s.b[0]), abs(s.b[1]))
                    if math.hypot(ctrl[0][0] - s.a[0], ctrl[0][1] - s.a[1]) > 1e-9 * sc or math.hypot(ctrl[3][0] - s.b[0], ctrl[3][1] - s.b[1]) > 1e-9 * sc:
                        chk.violation('C08/interpolation/pass-through', 'interpolation section %d runs %s -> %s, requested %s -> %s' % (si, ctrl[0], ctrl[3], s.a, s.b), rp)
                        return
                    m.secs[si] = Sec('bez', ctrl=ctrl, from_hobby=s.callid)
            m.unknown = False
            # tangent continuity at the interior points of the interpolation
            for si in range(1, len(m.secs)):
                if getattr(m.secs[si], 'from_hobby', None) is not None and getattr(m.secs[si - 1], 'from_hobby', None) == m.secs[si].from_hobby:
                    g0, g1 = m.secs[si - 1].gr(1.0), m.secs[si].gr(0.0)
                    cr = (g0[0] * g1[1] - g0[1] * g1[0]) / (math.hypot(*g0) * math.hypot(*g1) or 1.0)
                    if abs(cr) > 1e-6 or g0[0] * g1[0] + g0[1] * g1[1] <= 0:
                        chk.violation('C08/interpolation/not-smooth', 'interpolation sections %d/%d meet with a tangent kink (sin = %.3g)' % (si - 1, si, cr), rp)
                        return
        ep = e['end_point']
        sc = max(1.0, abs(m.end[0]), abs(m.end[1]))
        if math.hypot(ep[0] - m.end[0], ep[1] - m.end[1]) > 1e-9 * sc:
            chk.violation('C08/end-point/' + cl[0], 'after %s the end point is (%.12g, %.12g), expected (%.12g, %.12g)' % (cl[0], ep[0], ep[1], m.end[0], m.end[1]), rp)
            return
        chk.cov('calls_checked')
        chk.cov('call_' + cl[0])
    nsec = len(m.secs)
    nel = m.nel
    tol = el['tolerance']
    scale = max(1.0, max(abs(v) for si in range(nsec) for v in m.S(si, 0.5)))
    # (2) queries
    for fb, qe in enumerate([e for e in evs if e['op'] == 'rp_query' and e.get('k') != 'call']):
        for row in qe['q']:
            u = row[0]
            uu = min(float(nsec), max(0.0, u))
            si = int(uu)
            lu = uu - si
            if (fb == 1 and lu == 0 and si > 0) or si == nsec:
                si -= 1
                lu = 1.0
            pos = m.S(si, lu)
            gr = m.dS(si, lu)
            if math.hypot(row[1] - pos[0], row[2] - pos[1]) > 1e-9 * scale:
                chk.violation('C08/query/position', 'position(%.6g, from_below=%d) = (%.12g, %.12g), analytic (%.12g, %.12g) [section %d %s]' % (
                    u, fb, row[1], row[2], pos[0], pos[1], si, m.secs[si].kind), rp)
                return
            gtol = 1e-9 if not getattr(m.secs[si], 'nograd', False) else 1e-6
            if math.hypot(row[3] - gr[0], row[4] - gr[1]) > gtol * max(1.0, math.hypot(*gr)):
                chk.violation('C08/query/gradient', 'gradient(%.6g, from_below=%d) = (%.12g, %.12g), analytic (%.12g, %.12g) [section %d %s]' % (
                    u, fb, row[3], row[4], gr[0], gr[1], si, m.secs[si].kind), rp)
                return
            for ei in range(nel):
                w, o = row[5 + 2 * ei], row[6 + 2 * ei]
                if abs(w - m.wid(ei, si, lu)) > 1e-12 * max(1.0, abs(w)):
                    chk.violation('C08/query/width', 'width(%.6g, from_below=%d)[%d] = %.12g, law %s gives %.12g' % (u, fb, ei, w, m.wl[ei][si], m.wid(ei, si, lu)), rp)
                    return
                if abs(o - m.off(ei, si, lu)) > 1e-12 * max(1.0, abs(o)):
                    chk.violation('C08/query/offset', 'offset(%.6g, from_below=%d)[%d] = %.12g, law %s gives %.12g' % (u, fb, ei, o, m.ol[ei][si], m.off(ei, si, lu)), rp)
                    return
            chk.cov('queries_checked')
    # joints: kink angles of the spine
    kinks = [0.0]
    for si in range(1, nsec):
        g0, g1 = m.dS(si - 1, 1.0), m.dS(si, 0.0)
        kinks.append(abs(math.atan2(g0[0] * g1[1] - g0[1] * g1[0], g0[0] * g1[0] + g0[1] * g1[1])))
    nontrivial = nsec >= 2 and (len(set(s.kind for s in m.secs)) >= 2 or any(k > 0.1 for k in kinks))
    if max(kinks) > math.radians(100):
        chk.cov('paths_skipped_sharp_joint')
        chk.cov('cases_judged')
        return
    # a section that doubles back on itself (cusp / hairpin much tighter than any width) is a degenerate self-overlap: outside the domain
    for si in range(nsec):
        prev = m.dS(si, 0.0)
        for k in range(1, 2 * NS + 1):
            g = m.dS(si, k / (2 * NS))
            if abs(math.atan2(prev[0] * g[1] - prev[1] * g[0], prev[0] * g[0] + prev[1] * g[1])) > math.radians(25) or math.hypot(*g) == 0:
                chk.cov('paths_skipped_cusp')
                chk.cov('cases_judged')
                return
            prev = g
    # (3) spine
    sp = [e for e in evs if e['op'] == 'rp_spine' and e.get('k') != 'call']
    if sp:
        pts = pairs(sp[0]['pts']) if sp[0]['pts'] and not isinstance(sp[0]['pts'][0], list) else [tuple(p) for p in sp[0]['pts']]
        sj = [(m.S(si, 0.0), m.S(si, 0.0), 5 * tol if kinks[si] > 1e-6 else 0.0) for si in range(1, nsec)]
        if not _check_line(chk, rp, 'spine', pts, [(lambda u, si=si: m.S(si, u)) for si in range(nsec)], tol, scale, sp[0].get('err', 0), sj):
            return
    # element centres and outlines
    tp = [e for e in evs if e['op'] == 'to_polygons' and e.get('k') != 'call']
    ec = [e for e in evs if e['op'] == 'element_center' and e.get('k') != 'call']
    if not tp or len(ec) != nel:
        chk.harness_error('%s: outline or centres missing' % c.id)
        return
    polys = tp[0]['polys']
    if len(polys) != nel:
        chk.violation('C08/to_polygons/count', '%d polygons for %d elements' % (len(polys), nel), rp)
        return
    rnd = random.Random(meta['seed'] + 7)
    judged_elements = []
    for ei in range(nel):
        spec = fp['elements'][ei]
        # dense samples of the centre curve with half widths
        dense = []       # (x, y, hw, si, u)
        ok = True
        for si in range(nsec):
            for k in range(NS + 1):
                u = k / NS
                p = m.C(ei, si, u)
                dense.append((p[0], p[1], 0.5 * m.wid(ei, si, u), si, u))
        hwmax = max(d[2] for d in dense)
        if min(d[2] for d in dense) <= 2 * tol:
            chk.cov('elements_skipped_thin')
            continue
        # domain: curvature of spine and centre curve against offset / half width, direction of the centre curve
        for si in range(nsec):
            for k in range(NS):
                u0, u1 = k / NS, (k + 1) / NS
                g0, g1 = m.dS(si, u0), m.dS(si, u1)
                turn = abs(math.atan2(g0[0] * g1[1] - g0[1] * g1[0], g0[0] * g1[0] + g0[1] * g1[1]))
                a, b = dense[si * (NS + 1) + k], dense[si * (NS + 1) + k + 1]
                step = math.hypot(b[0] - a[0], b[1] - a[1])
                sa, sb = m.S(si, u0), m.S(si, u1)
                sstep = math.hypot(sb[0] - sa[0], sb[1] - sa[1])
                o = max(abs(m.off(ei, si, u0)), abs(m.off(ei, si, u1)))
                if turn * (o + a[2]) > 0.4 * sstep or turn * a[2] > 0.4 * step:
                    ok = False
                if (b[0] - a[0]) * (sb[0] - sa[0]) + (b[1] - a[1]) * (sb[1] - sa[1]) <= 0:
                    ok = False
        if not ok:
            chk.cov('elements_skipped_tight_curvature')
            continue
        # joints of the centre curve: kink and reach
        jo = []
        for si in range(1, nsec):
            g0, g1 = m.dC(ei, si - 1, 1.0), m.dC(ei, si, 0.0)
            th = abs(math.atan2(g0[0] * g1[1] - g0[1] * g1[0], g0[0] * g1[0] + g0[1] * g1[1]))
            p = m.C(ei, si, 0.0)
            q = m.C(ei, si - 1, 1.0)
            hwj = max(0.5 * m.wid(ei, si, 0.0), 0.5 * m.wid(ei, si - 1, 1.0))
            th = max(th, kinks[si])
            omax = max(abs(m.off(ei, si, 0.0)), abs(m.off(ei, si - 1, 1.0)))
            jr = 0.0 if th <= 1e-6 else 1.3 * omax * math.tan(min(th, math.radians(100)) / 2) + math.hypot(p[0] - q[0], p[1] - q[1]) + 5 * tol
            if jr > 0 and math.hypot(p[0] - q[0], p[1] - q[1]) > tol:
                # centre curves whose ends lie apart and that are almost tangent to one another cross far from the joint: the trimmed /
                # extended stretch (all of it hand-over) reaches to that crossing
                z = m.centre_intersection(ei, si - 1)
                if z is not None:
                    jr = max(jr, max(math.hypot(z[0] - p[0], z[1] - p[1]), math.hypot(z[0] - q[0], z[1] - q[1])) + 5 * tol)
            jo.append((p, q, th, hwj, jr))
        if any(j[2] > math.radians(100) for j in jo):
            chk.cov('elements_skipped_sharp_joint')
            continue
        # an offset change at a kinked joint moves the centre curve ends apart; the outline then joins extended edges - keep away
        # self approach
        clear = 2.5 * hwmax + 4 * tol
        approach = False
        step_len = [math.hypot(dense[k + 1][0] - dense[k][0], dense[k + 1][1] - dense[k][1]) for k in range(len(dense) - 1)]
        cum = [0.0]
        for s_ in step_len:
            cum.append(cum[-1] + s_)
        # (chords over three sampling steps, segment-to-segment distance: two stretches that cross at a steep angle can have all their
        # sample points farther apart than the clearance)
        nd = len(dense)
        chords = [(k, min(k + 3, nd - 1)) for k in range(0, nd - 1, 3)]
        bbs = [(min(dense[a_][0], dense[b_][0]) - clear, min(dense[a_][1], dense[b_][1]) - clear, max(dense[a_][0], dense[b_][0]) + clear,
                max(dense[a_][1], dense[b_][1]) + clear) for a_, b_ in chords]
        for i1, (a1, b1) in enumerate(chords):
            for i2 in range(i1 + 1, len(chords)):
                a2, b2 = chords[i2]
                if cum[a2] - cum[b1] < 2.5 * clear:
                    continue
                if bbs[i1][0] > bbs[i2][2] - clear or bbs[i2][0] > bbs[i1][2] - clear or bbs[i1][1] > bbs[i2][3] - clear or bbs[i2][1] > bbs[i1][3] - clear:
                    continue
                if genlib._seg_dist(dense[a1][:2], dense[b1][:2], dense[a2][:2], dense[b2][:2]) < clear:
                    approach = True
                    break
            if approach:
                break
        if approach:
            chk.cov('elements_skipped_self_approach')
            continue
        # (3b) element centre
        e_ = ec[ei]
        cpts = pairs(e_['pts']) if e_['pts'] and not isinstance(e_['pts'][0], list) else [tuple(p) for p in e_['pts']]
        if not _check_line(chk, rp, 'element_center[%d]' % ei, cpts, [(lambda u, si=si: m.C(ei, si, u)) for si in range(nsec)], tol, scale, e_.get('err', 0),
                           [(j[0], j[1], j[4]) for j in jo]):
            return
        pe = polys[ei]
        poly = pairs(pe['pts'])
        if any(not (math.isfinite(p[0]) and math.isfinite(p[1])) for p in poly):
            chk.violation('C08/outline/non-finite', 'outline of element %d has a non-finite vertex' % ei, rp)
            return
        if (pe['layer'], pe['type']) != tuple(spec['tag']):
            chk.violation('C08/outline/tag', 'outline %d carries tag %s, element has %s' % (ei, (pe['layer'], pe['type']), spec['tag']), rp)
        if tp[0].get('err', 0) != 0:
            chk.cov('to_polygons_error_reports')       # advisory (intersection search gave up); the geometry is judged all the same
        end_t = spec['end']
        g_first = m.dC(ei, 0, 0.0)
        g_last = m.dC(ei, nsec - 1, 1.0)
        t_first = (g_first[0] / math.hypot(*g_first), g_first[1] / math.hypot(*g_first))
        t_last = (g_last[0] / math.hypot(*g_last), g_last[1] / math.hypot(*g_last))
        hw0, hw1 = dense[0][2], dense[-1][2]
        cap0 = {0: 0.0, 1: hw0, 2: hw0, 3: max(0.0, m.ext[ei][0])}[end_t]
        cap1 = {0: 0.0, 1: hw1, 2: hw1, 3: max(0.0, m.ext[ei][1])}[end_t]
        capsamples = []
        for (base, tdir, sign, cap, hw) in ((dense[0], t_first, -1.0, cap0, hw0), (dense[-1], t_last, 1.0, cap1, hw1)):
            if end_t in (2, 3) and cap > 0:
                n = max(2, int(cap / (0.25 * hw)) + 1)
                for k in range(1, n + 1):
                    capsamples.append((base[0] + sign * tdir[0] * cap * k / n, base[1] + sign * tdir[1] * cap * k / n, hw))
        spacing = max(step_len) if step_len else 0.0

        def beyond_reach(px, py):
            marg = 3 * tol + 0.5 * spacing
            for d in dense:
                if math.hypot(px - d[0], py - d[1]) <= d[2] + marg:
                    return False
            for d in capsamples:
                if math.hypot(px - d[0], py - d[1]) <= d[2] + marg + 0.13 * d[2]:
                    return False
            for p, q, th, hwj, jr in jo:
                r = hwj / max(math.cos(min(th, math.radians(100)) / 2), 0.3) + marg + jr
                if math.hypot(px - p[0], py - p[1]) <= r or math.hypot(px - q[0], py - q[1]) <= r:
                    return False
            return True
        inside_tests = outside_tests = 0
        for _t in range(300):
            if inside_tests >= 50 and outside_tests >= 50:
                break
            si = rnd.randrange(nsec)
            u = rnd.uniform(0.03, 0.97)
            p = m.C(ei, si, u)
            g = m.dC(ei, si, u)
            gl = math.hypot(*g)
            if gl == 0:
                continue
            nx, ny = -g[1] / gl, g[0] / gl
            hw = 0.5 * m.wid(ei, si, u)
            lam = rnd.choice([-1, 1]) * rnd.choice([0.0, 0.3, 0.6, 0.8, 1.3, 1.6, 2.5])
            px, py = p[0] + nx * lam * hw, p[1] + ny * lam * hw
            inside = geom.fwinding(poly, px, py) != 0
            in_joint_zone = any(jr > 0 and (math.hypot(p[0] - a_[0], p[1] - a_[1]) <= jr + hwj or math.hypot(p[0] - b_[0], p[1] - b_[1]) <= jr + hwj)
                                for a_, b_, _th, hwj, jr in jo)
            if abs(lam) < 1 and hw * (1 - abs(lam)) >= 3 * tol + 0.02 * hw and not in_joint_zone:
                # away from the joints' inner trimming: the neighbouring section covers it anyway (corners <= 100 degrees)
                inside_tests += 1
                if not inside:
                    chk.violation('C08/outline/gap', 'element %d: point (%.6g,%.6g) at %.2f half widths (%.4g) from the centre curve of section %d (%s, u=%.3f) is outside the outline' % (
                        ei, px, py, lam, hw, si, m.secs[si].kind, u), rp)
                    return
            elif abs(lam) > 1 and beyond_reach(px, py):
                outside_tests += 1
                if inside:
                    chk.violation('C08/outline/excess', 'element %d: point (%.6g,%.6g) at %.2f half widths (%.4g) from the centre curve of section %d (%s, u=%.3f), '
                                  'beyond every section, joint and cap, is inside the outline' % (ei, px, py, lam, hw, si, m.secs[si].kind, u), rp)
                    return
        # joints: the centre points of both sections at a joint are covered (no gap between adjacent sections)
        for ji, (p, q, th, hwj, jr) in enumerate(jo):
            if th > 1e-6 and math.hypot(p[0] - q[0], p[1] - q[1]) > 1e-9:
                # kinked joint of an offset element: the centre curves are trimmed/extended to their intersection; probe that point
                z = m.centre_intersection(ei, ji)
                z2 = m.centre_intersection(ei, ji, True)
                if z is None or z2 is None or math.hypot(z[0] - p[0], z[1] - p[1]) > jr:
                    chk.cov('joints_not_located')
                    continue
                if math.hypot(z[0] - z2[0], z[1] - z2[1]) > 0.3 * hwj:
                    # how a section is continued beyond its end to meet its neighbour is not specified; the two natural continuations
                    # (own tangent / spine tangent with the offset held) disagree here by more than a fraction of the width
                    chk.cov('joints_ambiguous')
                    continue
                zs = [z]
                if tp[0].get('err', 0) != 0:
                    # the search for the crossing of two side curves gave up somewhere on this path (code 3, reported): the sections are then
                    # joined end to end without the corner between them, and the constructed crossing point of the centre curves - which is
                    # on neither section - need not be covered.  Kinked joints are not probed on such paths (the inside / outside sampling
                    # above still is applied along all sections)
                    chk.cov('joints_not_probed_search_failed')
                    continue
            else:
                zs = [p, q]
            for z in zs:
                if geom.fwinding(poly, z[0], z[1]) == 0:
                    chk.violation('C08/outline/joint-gap', 'element %d: the centre point (%.6g,%.6g) at a joint (kink %.1f deg) is outside the outline' % (ei, z[0], z[1], math.degrees(th)), rp)
                    return
            chk.cov('joints_checked')
        # end planes
        for (base, tdir, sign, cap, hw, name) in ((dense[0], t_first, -1.0, cap0, hw0, 'start'), (dense[-1], t_last, 1.0, cap1, hw1, 'end')):
            if cap > 4 * tol:
                px, py = base[0] + sign * tdir[0] * (cap - 2 * tol), base[1] + sign * tdir[1] * (cap - 2 * tol)
                if geom.fwinding(poly, px, py) == 0:
                    chk.violation('C08/outline/end-short', 'element %d %s, end style %d: the point %.4g beyond the end (cap length %.4g) is outside the outline' % (ei, name, end_t, cap - 2 * tol, cap), rp)
                    return
            dd = cap + 3 * tol + 0.05 * hw
            px, py = base[0] + sign * tdir[0] * dd, base[1] + sign * tdir[1] * dd
            # not in the band of some other stretch of the same path (the extended cap of one end can reach another stretch without the
            # centre lines coming as close as the self-approach clearance): every centre point outside the terminal stretch must be farther
            # away than its half width
            term = cap + 3 * hw + spacing
            far = all(math.hypot(px - d[0], py - d[1]) > dd - 1e-9 for d in dense[::4]) and all(
                math.hypot(px - d[0], py - d[1]) > d[2] + 3 * tol + spacing for k_, d in enumerate(dense)
                if (cum[k_] if name == 'start' else cum[-1] - cum[k_]) > term)
            if far and geom.fwinding(poly, px, py) != 0:
                chk.violation('C08/outline/end-long', 'element %d %s, end style %d: the point %.4g beyond the end (cap length %.4g) is inside the outline' % (ei, name, end_t, dd, cap), rp)
                return
        chk.cov('inside_tests', inside_tests)
        chk.cov('outside_tests', outside_tests)
        chk.cov('elements_checked')
        judged_elements.append((ei, [(j[0], j[1], j[4]) for j in jo]))
    if fp['simple'] and not path_records(chk, c, evs, fp, m, judged_elements, tol, scale, rp):
        return
    chk.cov('cases_judged')
    if any(cl[0] == 'xform' for cl in fp['calls']):
        chk.cov('cases_with_transform')
    if nontrivial:
        chk.fp(c.id)


def path_records(chk, c, evs, fp, m, judged, tol, scale, rp):
    """a simple robust path saved as a PATH record denotes the same centre line and width: the records are read back from the bytes with the
    independent decoders and compared with the analytic centre curves"""
    import gds_codec
    import oas_codec
    grid = 1e-3
    fh = {e['path']: e['hex'] for e in evs if e['op'] == 'filehex'}
    if fh.get('p.gds') is None or fh.get('p.oas') is None:
        chk.harness_error('%s: PATH files missing' % c.id)
        return False
    try:
        g = gds_codec.decode(bytes.fromhex(fh['p.gds']))
        o = oas_codec.decode(bytes.fromhex(fh['p.oas']))
    except (gds_codec.GdsError, oas_codec.OasError) as ex:
        chk.violation('C08/path-record/decode', 'the file written for a simple robust path is rejected by the independent decoder: %s' % ex, rp)
        return False
    gp = [e for cc in g['cells'] for e in cc['elements'] if e['kind'] == 'path']
    op = [e for cc in o['cells'] for e in cc['elements'] if e['kind'] == 'path']
    nel = m.nel
    if len(gp) != nel or len(op) != nel:
        chk.violation('C08/path-record/count', 'a simple robust path of %d elements was saved as %d GDSII and %d OASIS PATH records' % (nel, len(gp), len(op)), rp)
        return False
    nsec = len(m.secs)
    for ei, joints in judged:
        spec = fp['elements'][ei]
        want_hw = 0.5 * m.wid(ei, 0, 0.0) / grid
        ext = (m.ext[ei][0] / grid, m.ext[ei][1] / grid)
        fs = [(lambda u, si=si: m.C(ei, si, u)) for si in range(nsec)]
        for fmt, el in (('GDSII', gp[ei]), ('OASIS', op[ei])):
            if fmt == 'GDSII':
                pts = [(x * grid, y * grid) for x, y in el['xy']]
                wok = abs(abs(el['width']) - 2 * want_hw) <= 1.0
                pt = {0: 0, 2: 2, 3: 4}[spec['end']]
                eok = el['pathtype'] == pt and (pt != 4 or (abs(el['bgnextn'] - ext[0]) <= 0.5 + 1e-9 and abs(el['endextn'] - ext[1]) <= 0.5 + 1e-9))
                wdesc = 'width %s pathtype %s extensions (%s, %s)' % (el['width'], el['pathtype'], el['bgnextn'], el['endextn'])
            else:
                pts = [(x * grid, y * grid) for x, y in el['pts']]
                wok = abs(el['halfwidth'] - want_hw) <= 0.5 + 1e-9
                wantext = {0: (0.0, 0.0), 2: (want_hw, want_hw), 3: ext}[spec['end']]
                eok = abs(el['ext'][0] - wantext[0]) <= 0.5 + 1e-9 and abs(el['ext'][1] - wantext[1]) <= 0.5 + 1e-9
                wdesc = 'half width %s extensions %s' % (el['halfwidth'], el['ext'])
            if (el['layer'], el['datatype']) != tuple(spec['tag']):
                chk.violation('C08/path-record/tag', '%s PATH %d carries tag (%s, %s), element has %s' % (fmt, ei, el['layer'], el['datatype'], spec['tag']), rp)
                return False
            if not wok or not eok:
                chk.violation('C08/path-record/width-or-ends', '%s PATH %d: %s; the element has half width %.6g grid units, end style %d, extensions %s grid units' % (
                    fmt, ei, wdesc, want_hw, spec['end'], ext), rp)
                return False
            # the analytic centre curve stays within 3 tolerances + 1.5 grid units of the stored point list ...
            def in_zone(z):
                return any(r > 0 and (math.hypot(z[0] - p[0], z[1] - p[1]) <= r or math.hypot(z[0] - q[0], z[1] - q[1]) <= r) for p, q, r in joints)
            for si, f in enumerate(fs):
                for k in range(0, NS + 1, 2):
                    q = f(k / NS)
                    if in_zone(q):
                        continue
                    d = dist_poly(q, pts)
                    if d > 3 * tol + 1.5 * grid:
                        chk.violation('C08/path-record/centre-line', '%s PATH %d: the centre curve point (%.7g,%.7g) of section %d is %.4g from the stored point list (tolerance %g, grid %g)' % (
                            fmt, ei, q[0], q[1], si, d, tol, grid), rp)
                        return False
            # ... and every stored point is a centre-curve point rounded to the grid (or a hand-over point at a joint that is not smooth)
            for p in pts[::max(1, len(pts) // 30)]:
                if in_zone(p):
                    continue
                d = min(dist_curve(p, f) for f in fs)
                if d > tol + 0.75 * grid:
                    chk.violation('C08/path-record/off-curve', '%s PATH %d: stored point (%.7g,%.7g) is %.4g from the analytic centre curve' % (fmt, ei, p[0], p[1], d), rp)
                    return False
            chk.cov('path_records_checked')
    return True


def _has_grad(fp, si):
    """whether section si (a parametric one) was given a gradient function"""
    k = 0
    for cl in fp['calls']:
        if cl[0] == 'xform':
            continue
        n = 1
        if cl[0] == 'interpolation':
            n = len(cl[1][0])
        elif cl[0] == 'commands':
            n = sum(1 for x in cl[1] if isinstance(x, str))
        if k <= si < k + n:
            return cl[0] == 'parametric' and bool(cl[2].get('grad', 1))
        k += n
    return True


def _check_line(chk, rp, what, pts, fs, tol, scale, err, joints):
    """joints: (p, q, radius) per joint - inside that radius sections are trimmed or extended to meet, nothing is judged there"""
    key = what.split('[')[0]
    if err not in (0, None):
        chk.cov('%s_error_reports' % key)       # advisory; the geometry is judged all the same
    if len(pts) < 2:
        chk.violation('C08/%s/empty' % key, '%s returned %d points' % (what, len(pts)), rp)
        return False
    first, last = fs[0](0.0), fs[-1](1.0)
    if math.hypot(pts[0][0] - first[0], pts[0][1] - first[1]) > 1e-9 * scale or math.hypot(pts[-1][0] - last[0], pts[-1][1] - last[1]) > 1e-9 * scale:
        chk.violation('C08/%s/ends' % key, '%s runs (%.9g,%.9g) -> (%.9g,%.9g), analytic (%.9g,%.9g) -> (%.9g,%.9g)' % (
            what, pts[0][0], pts[0][1], pts[-1][0], pts[-1][1], first[0], first[1], last[0], last[1]), rp)
        return False

    def in_zone(z):
        return any(r > 0 and (math.hypot(z[0] - p[0], z[1] - p[1]) <= r or math.hypot(z[0] - q[0], z[1] - q[1]) <= r) for p, q, r in joints)
    # every analytic sample lies within 3 tolerances of the polyline
    for si, f in enumerate(fs):
        for k in range(0, NS + 1, 2):
            u = k / NS
            q = f(u)
            if in_zone(q):
                continue
            d = dist_poly(q, pts)
            if d > 3 * tol + 1e-9 * scale:
                chk.violation('C08/%s/deviation' % key, '%s: analytic point (%.9g,%.9g) of section %d at u=%.3f is %.3g from the polyline (tolerance %.3g)' % (
                    what, q[0], q[1], si, u, d, tol), rp)
                return False
    # every returned point lies on one of the analytic sections (they are sampled exactly)
    # At a joint that is not smooth the hand-over point is only required to be within the tolerance of both sections: one such point per joint.
    handover = sum(1 for _p, _q, r in joints if r > 0)
    for p in pts[::max(1, len(pts) // 40)]:
        if in_zone(p):
            continue
        d = min(dist_curve(p, f) for f in fs)
        if d > 1e-7 * scale:
            if d <= 1.001 * tol and handover > 0:
                handover -= 1
                continue
            chk.violation('C08/%s/off-curve' % key, '%s: returned point (%.9g,%.9g) is %.3g from the analytic curve' % (what, p[0], p[1], d), rp)
            return False
    chk.cov('lines_checked')
    return True


def work(rec, b, indices):
    cases = [make_case(i) for i in indices]
    ev = script.run_cases(rec, b, cases, shards=1)
    for c in cases:
        rec.evaluations += 1
        judge(rec, c, ev.get(c.id, []))


def probe_interp_taper(chk, b):
    """Known finding: a width (or offset) change given to a multi-point interpolation is applied again, from its initial value, in every
    section the interpolation creates, so the width jumps back at each interior point."""
    c = Case('probe-interp-taper')
    c.handle('r')
    c.op('rpath', '-', fl(0.0), fl(0.0), 1, fl(1e-3), 1000, fl(0.1), fl(0.0), 0, 0)
    c.op('rpcall', 'r0', 'interpolation', 0, 'I l ' + fl(0.05), '-', 2, fl(1.0), fl(0.0), fl(2.0), fl(0.2), 0, fl(0.0), 0, fl(0.0), 0, fl(0.0),
         fl(1.0), fl(1.0), fl(1.0), fl(1.0), fl(1.0), fl(1.0), fl(1.0), fl(1.0), 0)
    c.op('rp_query', 'r0', 0, 1, fl(1.0))
    c.op('rp_query', 'r0', 1, 1, fl(1.0))
    ev = script.run_cases(chk, b, [c], shards=1).get(c.id, [])
    if not script.check_exit(chk, c, ev):
        return
    q = [e for e in ev if e['op'] == 'rp_query' and e.get('k') != 'call']
    above, below = q[0]['q'][0][5], q[1]['q'][0][5]
    if abs(above - below) > 1e-12:
        chk.violation('C08/interpolation/law-restarts', 'interpolation through (1,0),(2,0.2) with a linear width change 0.1 -> 0.05: the width at the interior point is %g '
                      'approaching from the first section and %g leaving into the second' % (below, above), {'case': c.text()})


def run(tier):
    chk = vfw.Check('C08', tier)
    b = vfw.build()
    probe_interp_taper(chk, b)
    n = N[tier]
    vfw.run_sharded(chk, b, n, work)
    c = make_case(1)
    chk.sample({'case': c.id, 'elements': c.meta['path']['elements'], 'calls': [str(x)[:140] for x in c.meta['path']['calls']]})
    chk.rule = ('robust paths of 1-3 elements and 1-5 construction calls drawn from segment/horizontal/vertical/arc (circular and rotated elliptical)/turn/quadratic/'
                'cubic/smooth variants/bezier/interpolation/parametric (4 function families, with and without gradient function)/commands, width and offset laws '
                'constant/linear/smooth/parametric, flush/round/half-width/extended ends, optional transforms (translate/scale/rotate/mirror) at the end or in the '
                'middle of the history. Oracle: analytic sections built from the call arguments. Monitors: per-call bookkeeping and end point; position/gradient/'
                'width/offset queries; spine() and element_center() against the analytic curves; outline probed with winding numbers inside and outside the band, '
                'at joints and at the end planes. Non-trivial: >= 2 sections of different kinds or a kinked joint.')
    chk.assumptions = ['construction after a transform works in the path-local frame (the transform applies to all sections, earlier and later)',
                       'elements whose curvature radius is below 2.5 x (half width + offset), that approach themselves, or with joints sharper than 100 degrees are outside the domain; counted']
    chk.floor('cases_judged', chk.coverage.get('cases_judged', 0), int(0.9 * n))
    chk.floor('elements_checked', chk.coverage.get('elements_checked', 0), int(0.5 * n))
    chk.finish()


def replay(path):
    import c01
    return c01.replay(path)
