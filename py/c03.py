# C03 - GDSII reader and writer against the independent codec (gds_codec.py, written from the format description).
#  reader direction: abstract layouts in the GDSII data model -> every legal serialisation the encoder can choose
#                    -> read_gds -> canonical model must equal the abstract layout
#  writer direction: generated libraries -> write_gds -> strict independent decoder -> canonical model from the spec
import math
import random
from fractions import Fraction

import gds_codec
import genlib
import model
import script
import vfw
from script import Case, fl, hx

TS = [2019, 12, 31, 23, 59, 58, 2020, 1, 2, 3, 4, 5]


def gen_abstract(rnd):
    """an abstract layout in the GDSII data model (integers on the database grid)"""
    db_in_user = rnd.choice([Fraction(1, 1000), Fraction(1, 2000), Fraction(1, 10000), Fraction(1, 4000), Fraction(1, 1)])
    db_in_m = rnd.choice([Fraction(1, 10 ** 9), Fraction(1, 2 * 10 ** 9), Fraction(1, 10 ** 10), Fraction(254, 10 ** 10)])
    used = set()

    def name():
        while True:
            n = rnd.choice(['A', 'TOP', 'cell_', 'x', 'Q$', 'odd']) + str(rnd.randrange(100))
            if n not in used:
                used.add(n)
                return n.encode()

    def tag():
        return rnd.choice([0, 1, 2, 255, 256, 32767]), rnd.choice([0, 1, 7, 32767])

    def props():
        out = []
        seen = set()
        for _ in range(rnd.choice([0, 0, 0, 1, 2, 3])):
            a = rnd.choice([0, 1, 2, 127, 32767, rnd.randrange(32768)])
            if a in seen:
                continue
            seen.add(a)
            out.append((a, bytes(rnd.choice(b'abcXYZ 019_') for _ in range(rnd.choice([0, 1, 2, 3, 8, 9])))))
        return out

    def strans():
        if rnd.random() < 0.4:
            return {'xrefl': False, 'mag': Fraction(1), 'angle': Fraction(0)}
        return {'xrefl': rnd.random() < 0.4, 'mag': rnd.choice([Fraction(1), Fraction(2), Fraction(1, 2), Fraction(5, 4), Fraction(3)]),
                'angle': rnd.choice([Fraction(0), Fraction(90), Fraction(180), Fraction(270), Fraction(45), Fraction(30), Fraction(-90),
                                     Fraction(123456, 1000), Fraction(360 + 15)])}

    def pt(span=20000):
        return (rnd.randrange(-span, span), rnd.randrange(-span, span))

    cells = []
    ncells = rnd.randrange(1, 5)
    names = [name() for _ in range(ncells)]
    absent = name()
    for ci in range(ncells):
        els = []
        for _ in range(rnd.choice([1, 2, 3, 5, 8])):
            k = rnd.random()
            if k < 0.3:
                n = rnd.choice([3, 4, 5, 8, 13]) if rnd.random() < 0.97 else rnd.choice([8190, 8191, 9000])
                cx, cy = pt()
                a0 = rnd.uniform(0, 6.28)
                pts = []
                for j in range(n):
                    a = a0 + (j + rnd.uniform(-0.3, 0.3)) * 2 * math.pi / n
                    rr = rnd.randrange(50, 4000)
                    pts.append((cx + round(rr * math.cos(a)), cy + round(rr * math.sin(a))))
                if pts[0] == pts[-1]:
                    pts[-1] = (pts[-1][0] + 1, pts[-1][1])
                l, d = tag()
                els.append({'kind': 'boundary', 'layer': l, 'datatype': d, 'xy': pts + [pts[0]], 'props': props()})
            elif k < 0.38:
                x, y = pt()
                w, h = rnd.randrange(1, 5000), rnd.randrange(1, 5000)
                l, d = tag()
                p = [(x, y), (x + w, y), (x + w, y + h), (x, y + h)]
                els.append({'kind': 'box', 'layer': l, 'datatype': d, 'xy': p + [p[0]], 'props': props()})
            elif k < 0.6:
                l, d = tag()
                n = rnd.choice([2, 3, 4, 7])
                x, y = pt()
                pts = [(x, y)]
                for _ in range(n - 1):
                    if rnd.random() < 0.5:
                        x += rnd.choice([-1, 1]) * rnd.randrange(500, 3000)
                    else:
                        y += rnd.choice([-1, 1]) * rnd.randrange(500, 3000)
                    pts.append((x, y))
                ptype = rnd.choice([0, 1, 2, 4])
                els.append({'kind': 'path', 'layer': l, 'datatype': d, 'pathtype': ptype,
                            'width': rnd.choice([0, 0, 2, 10, 100, 101, -50, -7]),
                            'bgnextn': rnd.choice([0, 5, -3, 40]) if ptype == 4 else 0,
                            'endextn': rnd.choice([0, 7, -2, 33]) if ptype == 4 else 0, 'xy': pts, 'props': props()})
            elif k < 0.8:
                tgt = names[rnd.randrange(ci)] if ci > 0 and rnd.random() < 0.85 else absent
                st = strans()
                if rnd.random() < 0.5:
                    el = {'kind': 'sref', 'sname': tgt, 'xy': [pt()], 'props': props()}
                else:
                    cols, rows = rnd.choice([1, 2, 3, 7, 100]), rnd.choice([1, 2, 5, 32767 if rnd.random() < 0.05 else 4])
                    o = pt()
                    ang = math.radians(float(st['angle']))
                    px, py = rnd.choice([-1, 1]) * rnd.randrange(10, 2000), rnd.choice([-1, 1]) * rnd.randrange(10, 2000)
                    p2 = (o[0] + round(cols * px * math.cos(ang)), o[1] + round(cols * px * math.sin(ang)))
                    p3 = (o[0] + round(-rows * py * math.sin(ang)), o[1] + round(rows * py * math.cos(ang)))
                    el = {'kind': 'aref', 'sname': tgt, 'cols': cols, 'rows': rows, 'xy': [o, p2, p3], 'props': props()}
                el.update(st)
                els.append(el)
            else:
                l, d = tag()
                el = {'kind': 'text', 'layer': l, 'texttype': d, 'presentation': rnd.choice([0, 1, 2, 4, 5, 6, 8, 9, 10]) | rnd.choice([0, 0, 0x10, 0x30]),
                      'xy': [pt()], 'string': bytes(rnd.choice(b'abcNET_09!') for _ in range(rnd.choice([1, 2, 3, 8, 31]))), 'props': props()}
                el.update(strans())
                els.append(el)
        cells.append({'name': names[ci], 'bgnstr': TS, 'elements': els})
    return {'name': rnd.choice([b'LIB', b'lib1', b'odd']), 'db_in_user': db_in_user, 'db_in_m': db_in_m, 'bgnlib': TS, 'cells': cells}


def reader_case(i):
    sd = vfw.seed() * 1000003 + i
    rnd = random.Random(sd)
    lay = gen_abstract(rnd)
    ch = gds_codec.Choices(random.Random(sd + 7), hostile=True)
    data = gds_codec.encode(lay, ch)
    c = Case('R%d' % i, timeout=60)
    c.op('mkfile', 'in.gds', hx(data))
    target_unit = rnd.choice([0, 0, 0, 1e-6, 1e-3, 1e-9, 2e-6])
    c.op('read_gds', 'in.gds', fl(target_unit), 0)
    c.op('dump_lib', 'l0', 'R')
    c.meta = {'layout': lay, 'departures': ch.departures, 'target_unit': target_unit, 'seed': sd, 'bytes': len(data)}
    return c, data


def judge_reader(chk, c, data, evs):
    rp = {'case': c.text()[:200000], 'meta': {'seed': c.meta['seed'], 'target_unit': c.meta['target_unit']}}
    if not script.check_exit(chk, c, evs):
        return
    # the encoder's own output must satisfy the strict decoder and decode to the layout it encodes (oracle self-test)
    try:
        back = gds_codec.decode(data)
    except gds_codec.GdsError as ex:
        chk.harness_error('encoder produced a stream its own strict decoder rejects: %s' % ex)
        return
    lay = c.meta['layout']
    exp = model.from_decoded(back)
    exp2 = model.from_decoded(lay)
    if {k: v['items'] for k, v in exp['cells'].items()} != {k: v['items'] for k, v in exp2['cells'].items()}:
        chk.harness_error('independent codec does not round-trip its own layout (case %s)' % c.id)
        return
    rd = [e for e in evs if e['op'] == 'read_gds' and e.get('k') != 'call']
    if not rd:
        chk.harness_error('%s: no read_gds result' % c.id)
        return
    if rd[0]['err'] not in (0, 4, 5):
        chk.violation('C03/reader/error-code', 'read_gds returned code %d on a conforming stream' % rd[0]['err'], rp)
        return
    d = [e for e in evs if e['op'] == 'dump_lib']
    if not d:
        chk.harness_error('%s: no dump' % c.id)
        return
    obs = model.from_dump(d[0])
    tu = c.meta['target_unit']
    exp['precision'] = float(lay['db_in_m'])
    exp['unit'] = tu if tu > 0 else float(lay['db_in_m'] / lay['db_in_user'])
    diffs = model.compare(exp, obs, 'reader', None, unit_rel=1e-13)
    for suffix, msg in diffs[:3]:
        chk.violation('C03/reader/' + suffix, msg, rp)
    if d[0]['name'] != lay['name'].decode():
        chk.violation('C03/reader/libname', 'library name %r, encoded %r' % (d[0]['name'], lay['name']), rp)
    chk.cov('reader_files')
    chk.cov('reader_elements', sum(len(cc['elements']) for cc in lay['cells']))
    for cc in lay['cells']:
        for e in cc['elements']:
            chk.cov('reader_kind_' + e['kind'])
            if e['kind'] == 'path':
                chk.cov('reader_pathtype_%d' % e['pathtype'])
            if e['kind'] == 'boundary' and len(e['xy']) > 8190:
                chk.cov('reader_multi_record_boundary')
    if c.meta['departures'] >= 3:
        chk.fp(c.id)


def writer_case(i):
    sd = vfw.seed() * 1000003 + 500000 + i
    g = genlib.Gen(sd, dict(oas_props=False, nonsimple=False, max_cells=4, odd_widths=True))
    lib = g.library()
    rnd = random.Random(sd)
    c = Case('W%d' % i, timeout=60)
    lh, chs = genlib.emit_library(c, lib)
    c.op('write_gds', lh, 'out.gds', 0, '2019 12 31 23 59 58')
    c.op('filehex', 'out.gds')
    c.meta = {'spec': lib, 'seed': sd}
    return c


def judge_writer(chk, c, evs):
    rp = {'case': c.text(), 'meta': {'seed': c.meta['seed']}}
    if not script.check_exit(chk, c, evs):
        return
    w = [e for e in evs if e['op'] == 'write_gds' and e.get('k') != 'call']
    fh = [e for e in evs if e['op'] == 'filehex']
    if not w or not fh or fh[0]['hex'] is None:
        chk.harness_error('%s: no file' % c.id)
        return
    if w[0]['err'] not in (0, 6):
        chk.violation('C03/writer/error-code', 'write_gds returned %d' % w[0]['err'], rp)
        return
    data = bytes.fromhex(fh[0]['hex'])
    try:
        dec = gds_codec.decode(data)
    except gds_codec.GdsError as ex:
        chk.violation('C03/writer/strict-decode', 'the strict decoder rejects the file gdstk wrote: %s' % ex, rp)
        return
    lib = c.meta['spec']
    exp = model.expected_gds(lib, 0, {})
    if exp['ties']:
        chk.cov('cases_skipped_for_half_grid_ties')
        return
    obs = model.from_decoded(dec)
    diffs = model.compare(exp, obs, 'writer', None, unit_rel=1e-14)
    for suffix, msg in diffs[:3]:
        chk.violation('C03/writer/' + suffix, msg, rp)
    if dec['name'] != lib['name'].encode():
        chk.violation('C03/writer/libname', 'LIBNAME %r, library name %r' % (dec['name'], lib['name']), rp)
    if dec['bgnlib'] != [2019, 12, 31, 23, 59, 58] * 2 or any(cc['bgnstr'] != [2019, 12, 31, 23, 59, 58] * 2 for cc in dec['cells']):
        chk.violation('C03/writer/timestamp', 'timestamps in the file differ from the requested one: %s' % dec['bgnlib'], rp)
    if not dec['units_normalized']:
        chk.violation('C03/writer/real8-not-normalized', 'UNITS reals are not normalized 8-byte reals', rp)
    chk.cov('writer_files')
    chk.cov('writer_elements', sum(len(cc['elements']) for cc in dec['cells']))
    if c01_nontrivial(lib):
        chk.fp(c.id)


def c01_nontrivial(lib):
    import c01
    return c01.nontrivial(lib)


def work(rec, b, indices):
    nr = NR[rec.tier]
    rc = [reader_case(i) for i in indices if i < nr]
    wc = [writer_case(i - nr) for i in indices if i >= nr]
    ev = script.run_cases(rec, b, [c for c, _ in rc] + wc, shards=1)
    for c, data in rc:
        rec.evaluations += 1
        judge_reader(rec, c, data, ev.get(c.id, []))
    for c in wc:
        rec.evaluations += 1
        judge_writer(rec, c, ev.get(c.id, []))


NR = {'quick': 3000, 'thorough': 60000}
NW = {'quick': 2000, 'thorough': 40000}


def run(tier):
    chk = vfw.Check('C03', tier)
    b = vfw.build()
    nr, nw = NR[tier], NW[tier]
    vfw.run_sharded(chk, b, nr + nw, work)
    rc = [reader_case(0)]
    lay = rc[0][0].meta['layout']
    chk.sample({'reader_case': rc[0][0].id, 'bytes': rc[0][0].meta['bytes'], 'encoder_choices_away_from_gdstk_defaults': rc[0][0].meta['departures'],
                'first_cell': {'name': lay['cells'][0]['name'].decode(), 'elements': [str(e)[:160] for e in lay['cells'][0]['elements'][:3]]}})
    chk.rule = ('reader: abstract layouts drawn in the GDSII data model (BOUNDARY incl. >8190 points over several XY records, BOX, PATH with '
                'pathtype 0/1/2/4, negative WIDTH and extensions, SREF/AREF with reflection/magnification/any angle, TEXT with every '
                'presentation, PROPATTR/PROPVALUE, arbitrary UNITS) serialised by the independent encoder with random legal choices '
                '(optional header records, omitted default records, PATHTYPE/WIDTH inside TEXT, explicit default STRANS/MAG/ANGLE, '
                'ELFLAGS/PLEX, XY split at arbitrary points, padding after ENDLIB) and an optional target unit; gdstk load must equal '
                'the layout. writer: generated libraries -> write_gds -> strict decoder (framing, grammar, ranges, closed boundaries, '
                'normalized reals) -> canonical model of the spec. Non-trivial: >= 3 encoder choices away from gdstk\'s own writer '
                '(reader) / library with >= 2 element kinds and a repetition or transformed reference (writer).')
    chk.assumptions = ['DESIGN.md appendix A is the reading of the GDSII format that the codec implements',
                       'GDSII properties are compared as attribute->value maps', 'STRANS absolute bits are never set (gdstk documents them as unsupported)']
    chk.floor('reader_files', chk.coverage.get('reader_files', 0), int(0.9 * nr))
    chk.floor('writer_files', chk.coverage.get('writer_files', 0), int(0.6 * nw))
    for k in ('boundary', 'box', 'path', 'sref', 'aref', 'text'):
        chk.floor('reader_kind_' + k, chk.coverage.get('reader_kind_' + k, 0), 50)
    chk.finish()


def replay(path):
    import c01
    return c01.replay(path)
