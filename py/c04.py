# C04 - OASIS reader and writer agree with the format specification.
#  reader direction: abstract layouts in the OASIS data model -> independent encoder (every legal serialisation choice drawn at random)
#                    -> read_oas -> dump; the loaded library must be exactly the layout that was encoded
#  writer direction: generated libraries -> write_oas under random option sets -> bytes -> independent strict decoder; the decoded layout
#                    must be the saved library, the END record / table offsets / signature must be consistent (checked inside the decoder)
#                    and the standard properties must state the truth about the file
import math
import random
import zlib

import c02
import genlib
import oas_codec
import oasmodel
import script
import vfw
from script import Case, fl, hx

N = {'quick': (1500, 500), 'thorough': (50000, 16000)}
LAYERS = [0, 1, 2, 7, 255, 256, 65535, 2 ** 32 - 1]
NAMES = [b'A', b'TOP', b'cell_1', b'Sub$2', b'm', b'dev#', b'x' * 40, b'q9']
TEXTS = [b'L', b'net 7', b'VDD!', b'a b c', b'', b'x' * 70]


def gen_rep(rnd):
    k = rnd.randrange(9)
    if k == 0:
        nx, ny, dx, dy = rnd.randrange(2, 5), rnd.randrange(2, 4), rnd.randrange(1, 300), rnd.randrange(1, 300)
        return [(i * dx, j * dy) for j in range(ny) for i in range(nx)]
    if k == 1:
        n, dx = rnd.randrange(2, 6), rnd.randrange(1, 400)
        return [(i * dx, 0) for i in range(n)]
    if k == 2:
        n, dy = rnd.randrange(2, 6), rnd.randrange(1, 400)
        return [(0, i * dy) for i in range(n)]
    if k in (3, 4):
        n = rnd.randrange(2, 6)
        g = rnd.choice([1, 1, 5, 10])
        c = 0
        out = [(0, 0)]
        for _ in range(n - 1):
            c += g * rnd.randrange(1, 60)
            out.append((c, 0) if k == 3 else (0, c))
        return out
    if k == 5:
        nx, ny = rnd.randrange(2, 4), rnd.randrange(2, 4)
        a = (rnd.randrange(-100, 100), rnd.randrange(-100, 100))
        b = (rnd.randrange(-100, 100), rnd.randrange(-100, 100))
        if a == (0, 0):
            a = (7, 0)
        return [(i * a[0] + j * b[0], i * a[1] + j * b[1]) for j in range(ny) for i in range(nx)]
    if k == 6:
        n = rnd.randrange(2, 6)
        a = (rnd.randrange(-100, 100), rnd.randrange(-100, 100))
        if a == (0, 0):
            a = (0, -9)
        return [(i * a[0], i * a[1]) for i in range(n)]
    n = rnd.randrange(2, 7)
    g = rnd.choice([1, 1, 4])
    out = [(0, 0)]
    x = y = 0
    for _ in range(n - 1):
        x += g * rnd.randrange(-50, 50)
        y += g * rnd.randrange(-50, 50)
        out.append((x, y))
    return out


def gen_props(rnd, p=0.3):
    if rnd.random() > p:
        return []
    out = []
    for _ in range(rnd.randrange(1, 4)):
        name = rnd.choice([b'p', b'note', b'S_USER', b'k1', b'prop_with_a_longer_name'])
        vals = []
        for _ in range(rnd.randrange(0, 4) if rnd.random() < 0.9 else rnd.randrange(15, 19)):
            t = rnd.choice('uirsb')
            if t == 'u':
                vals.append(('u', rnd.choice([0, 1, 127, 128, 2 ** 32, 2 ** 63, 2 ** 64 - 1, rnd.randrange(0, 2 ** 40)])))
            elif t == 'i':
                vals.append(('i', rnd.choice([0, -1, 63, -64, 64, -2 ** 40, 2 ** 62, -(2 ** 62), rnd.randrange(-2 ** 30, 2 ** 30)])))
            elif t == 'r':
                vals.append(('r', rnd.choice([0.5, -0.25, 1e-3, 3.0, -7.0, 1.0 / 3.0, 2.5e10, 0.0, 1.5, -1.0 / 8, rnd.uniform(-1, 1)])))
            elif t == 's':
                s_ = bytes(rnd.choice(b'abcXYZ09_') for _ in range(rnd.randrange(1, 9)))
                vals.append(('s', s_, rnd.choice('abn')))
            else:
                vals.append(('s', bytes(rnd.randrange(0, 256) for _ in range(rnd.randrange(0, 9))), 'b'))
        if rnd.random() < 0.15:
            out.append({'name': b'S_GDS_PROPERTY', 'values': [('u', rnd.randrange(0, 65536)), ('s', bytes(rnd.choice(b'abc 09') for _ in range(rnd.randrange(1, 9))) + b'\0', 'b')], 'std': True})
        else:
            out.append({'name': name, 'values': vals, 'std': False})
    if out and rnd.random() < 0.3:
        out.append(dict(out[-1]))       # an exact repetition: lets the encoder use record 29 / value-list reuse
    return out


def gen_polygon_pts(rnd):
    x, y = rnd.randrange(-500, 500), rnd.randrange(-500, 500)
    k = rnd.randrange(5)
    if k == 0:      # Manhattan staircase
        n = rnd.randrange(2, 5)
        xs = sorted(rnd.sample(range(1, 200), n))
        ys = sorted(rnd.sample(range(1, 200), n), reverse=True)
        pts = [(0, 0)]
        for i in range(n):
            pts.append((xs[i], pts[-1][1]))
            pts.append((xs[i], ys[i] - ys[0] - 1 if False else -ys[n - 1 - i]))
        pts.append((0, pts[-1][1]))
        pts = _dedup(pts)
    elif k == 1:    # octagon-like (octangular deltas)
        a, b = rnd.randrange(2, 60), rnd.randrange(2, 60)
        pts = [(0, 0), (a, 0), (a + b, b), (a + b, b + a), (a, 2 * b + a), (0, 2 * b + a), (-b, b + a), (-b, b)]
    elif k == 2:    # general convex
        n = rnd.randrange(3, 9)
        r = rnd.randrange(20, 300)
        angs = sorted(rnd.uniform(0, 2 * math.pi) for _ in range(n))
        pts = _dedup([(int(r * math.cos(a)), int(r * math.sin(a))) for a in angs])
    elif k == 3:    # triangle
        pts = [(0, 0), (rnd.randrange(1, 200), rnd.randrange(-50, 50)), (rnd.randrange(-50, 50), rnd.randrange(1, 200))]
    else:           # rectangle as a plain polygon, clockwise or not
        w, h = rnd.randrange(1, 300), rnd.randrange(1, 300)
        pts = [(0, 0), (w, 0), (w, h), (0, h)]
        if rnd.random() < 0.5:
            pts = pts[::-1]
    if len(pts) < 3 or oasmodel.area2(pts) == 0:
        pts = [(0, 0), (10, 0), (10, 10)]
    if rnd.random() < 0.3:
        s_ = rnd.randrange(len(pts))
        pts = pts[s_:] + pts[:s_]
    return [(x + a, y + b) for a, b in pts]


def _dedup(pts):
    out = []
    for p in pts:
        if not out or out[-1] != p:
            out.append(p)
    if len(out) > 1 and out[0] == out[-1]:
        out.pop()
    return out


def gen_layout(rnd):
    unit = rnd.choice([1000, 1000, 2000, 100, 400, 10000, Fraction_(1000, 3), 1e3, 5e2, 800.0])
    ncells = rnd.randrange(1, 5)
    names = rnd.sample(NAMES, ncells)
    absent = [n for n in NAMES if n not in names][:2]
    layout = {'unit': unit, 'file_props': gen_props(rnd, 0.4), 'cells': []}
    for ci, nm in enumerate(names):
        els = []
        # a few (layer, datatype) pairs and sizes recur so that modal variables can be reused
        tags = [(rnd.choice(LAYERS), rnd.choice(LAYERS)) for _ in range(2)]
        sizes = [(rnd.randrange(1, 300), rnd.randrange(1, 300)) for _ in range(2)]
        pos = [(rnd.randrange(-1000, 1000), rnd.randrange(-1000, 1000)) for _ in range(3)]
        last_rep = None
        for _ in range(rnd.randrange(0, 9)):
            k = rnd.choice(['rectangle', 'rectangle', 'polygon', 'polygon', 'path', 'path', 'trapezoid', 'ctrapezoid', 'ctrapezoid', 'circle', 'text', 'text',
                            'placement', 'placement'])
            layer, dt = rnd.choice(tags)
            x, y = rnd.choice(pos) if rnd.random() < 0.5 else (rnd.randrange(-10 ** 6, 10 ** 6), rnd.randrange(-10 ** 6, 10 ** 6))
            rep = gen_rep(rnd) if rnd.random() < 0.3 else None
            if rep is not None and last_rep is not None and rnd.random() < 0.35:
                rep = list(last_rep)        # the same repetition again: lets the encoder use repetition type 0 (reuse)
            if rep is not None:
                last_rep = rep
            props = gen_props(rnd)
            if k == 'rectangle':
                w, h = rnd.choice(sizes)
                if rnd.random() < 0.3:
                    h = w
                e = {'kind': 'polygon', 'as': 'rectangle', 'rect': (x, y, w, h), 'pts': [(x, y), (x + w, y), (x + w, y + h), (x, y + h)]}
            elif k == 'polygon':
                e = {'kind': 'polygon', 'pts': gen_polygon_pts(rnd)}
            elif k == 'path':
                n = rnd.randrange(1, 6)
                pts = [(x, y)]
                style = rnd.randrange(3)
                for i in range(n):
                    if style == 0:
                        d = rnd.randrange(20, 300) * rnd.choice([-1, 1])
                        pts.append((pts[-1][0] + d, pts[-1][1]) if i % 2 == 0 else (pts[-1][0], pts[-1][1] + d))
                    elif style == 1:
                        d = rnd.randrange(20, 300)
                        dx, dy = rnd.choice([(1, 0), (0, 1), (-1, 0), (0, -1), (1, 1), (-1, 1), (1, -1), (-1, -1)])
                        pts.append((pts[-1][0] + d * dx, pts[-1][1] + d * dy))
                    else:
                        pts.append((pts[-1][0] + rnd.randrange(-300, 300), pts[-1][1] + rnd.randrange(20, 300)))
                hw = rnd.choice([0, 1, 5, 5, 20, 20])
                ext = rnd.choice([(0, 0), (hw, hw), (0, hw), (rnd.randrange(-5, 30), rnd.randrange(-5, 30)), (3, 0)])
                e = {'kind': 'path', 'halfwidth': hw, 'ext': ext, 'pts': _dedup_path(pts)}
            elif k == 'trapezoid':
                w, h = rnd.choice(sizes)
                vertical = rnd.random() < 0.5
                lim = w if vertical else h
                span = h if vertical else w
                da = rnd.choice([0, rnd.randrange(-lim, lim + 1)])
                db = rnd.choice([0, rnd.randrange(-lim, lim + 1)])
                # keep the figure simple: the slanted sides must not cross
                if abs(da) + abs(db) > span or max(da, 0) - min(db, 0) > span or max(db, 0) - min(da, 0) > span:
                    da, db = 0, 0
                rel = oas_codec.trapezoid_points(vertical, w, h, da, db)
                pts = _dedup([(x + a, y + b) for a, b in rel])
                if len(pts) < 3 or oasmodel.area2(pts) == 0:
                    da = db = 0
                    rel = oas_codec.trapezoid_points(vertical, w, h, 0, 0)
                    pts = [(x + a, y + b) for a, b in rel]
                e = {'kind': 'polygon', 'as': 'trapezoid', 'trap': (vertical, x, y, w, h, da, db), 'pts': [(x + a, y + b) for a, b in rel]}
            elif k == 'ctrapezoid':
                t = rnd.randrange(26)
                w, h = rnd.choice(sizes)
                # dimensions that keep every type a proper figure
                if t < 8:
                    w = max(w, 2 * h + 1) if t in (4, 5, 6, 7) else max(w, h + 1)
                elif t < 16:
                    h = max(h, 2 * w + 1) if t in (12, 13, 14, 15) else max(h, w + 1)
                rel, w2, h2 = oas_codec.ctrapezoid_points(t, w, h)
                e = {'kind': 'polygon', 'as': 'ctrapezoid', 'ctrap': (t, x, y, w2, h2), 'pts': [(x + a, y + b) for a, b in rel]}
            elif k == 'circle':
                e = {'kind': 'circle', 'r': rnd.choice([10, 10, 50, 250, 1000]), 'x': x, 'y': y}
            elif k == 'text':
                e = {'kind': 'text', 'text': rnd.choice(TEXTS), 'layer': layer, 'type': dt, 'x': x, 'y': y}
            else:
                tgt = rnd.choice(names[:ci] + absent) if (ci > 0 or absent) else absent[0]
                ang = rnd.choice([0.0, 90.0, 180.0, 270.0, 0.0, 45.0, 30.5, -90.0, 360.0, 720.5])
                mag = rnd.choice([1.0, 1.0, 2.0, 0.5, 1.5, 0.1])
                e = {'kind': 'placement', 'cellname': tgt, 'x': x, 'y': y, 'mag': mag, 'angle': ang, 'flip': rnd.random() < 0.3}
            if e['kind'] not in ('text', 'placement'):
                e['layer'], e['datatype'] = layer, dt
            e['rep'] = rep
            e['props'] = props
            els.append(e)
        layout['cells'].append({'name': nm, 'props': gen_props(rnd, 0.2), 'elements': els})
    return layout


def _dedup_path(pts):
    out = [pts[0]]
    for p in pts[1:]:
        if p != out[-1]:
            out.append(p)
    if len(out) < 2:
        out.append((out[0][0] + 10, out[0][1]))
    return out


def Fraction_(a, b):
    from fractions import Fraction
    return Fraction(a, b)


def layout_model(layout, circle_pts=48):
    """canonical model of an abstract layout (circles become regular polygons to be paired with a tolerance)"""
    dec = {'cells': [], 'file_props': layout.get('file_props', []), 'cellnames': {}}
    for c in layout['cells']:
        els = []
        for e in c['elements']:
            if e['kind'] == 'circle':
                pts = [(e['x'] + e['r'] * math.cos(2 * math.pi * i / circle_pts), e['y'] + e['r'] * math.sin(2 * math.pi * i / circle_pts)) for i in range(circle_pts)]
                els.append({'kind': 'polygon', 'layer': e['layer'], 'datatype': e['datatype'], 'pts': pts, 'rep': e.get('rep'), 'props': e.get('props', [])})
            else:
                els.append(e)
        dec['cells'].append({'name': c['name'], 'props': c.get('props', []), 'elements': els})
    return oasmodel.from_decoded(dec)


# ------------------------------------------------------------------------------------------------ reader direction
def make_reader_case(i):
    sd = vfw.seed() * 1000003 + 40000 + i
    rnd = random.Random(sd)
    layout = gen_layout(rnd)
    data, stats, info = oas_codec.encode(layout, rnd)
    c = Case('X%d' % i, timeout=60)
    c.op('mkfile', 'f.oas', data.hex())
    c.op('oas_validate', 'f.oas')
    c.op('oas_precision', 'f.oas')
    c.op('read_oas', 'f.oas', fl(0.0), fl(0.0))
    c.op('dump_lib', 'l0')
    c.meta = {'seed': sd, 'layout': layout, 'stats': stats, 'data': data}
    return c


def judge_reader(chk, c, evs):
    m = c.meta
    layout = m['layout']
    rp = {'case': c.text()[:200000], 'meta': {'seed': m['seed']}}
    # the encoder and the strict decoder must agree with each other first (a disagreement is a fault of this harness)
    try:
        dec = oas_codec.decode(m['data'])
    except oas_codec.OasError as e:
        chk.harness_error('%s: own decoder rejects own encoding: %s' % (c.id, e))
        return
    exp = layout_model(layout)
    own = oasmodel.from_decoded(_circles_to_polys(dec))
    d0 = oasmodel.compare(exp, own, 'self-check', 0.01)
    if d0:
        chk.harness_error('%s: encoder/decoder self-check differs: %s' % (c.id, d0[0][1][:300]))
        return
    if not script.check_exit(chk, c, evs):
        return
    rd = [e for e in evs if e['op'] == 'read_oas' and e.get('k') != 'call']
    dl = [e for e in evs if e['op'] == 'dump_lib']
    va = [e for e in evs if e['op'] == 'oas_validate' and e.get('k') != 'call']
    pr = [e for e in evs if e['op'] == 'oas_precision' and e.get('k') != 'call']
    if not rd or not dl or not va or not pr:
        chk.harness_error('%s: events missing' % c.id)
        return
    dangling = any(e['kind'] == 'placement' and e['cellname'] not in [cc['name'] for cc in layout['cells']] for cc in layout['cells'] for e in cc['elements'])
    ok_codes = (0, 4) if dangling else (0,)
    if rd[0]['err'] not in ok_codes:
        chk.violation('C04/reader/error-code', 'read_oas returned %d on a well-formed file (stats %s)' % (rd[0]['err'], _brief(m['stats'])), rp)
        return
    d = dl[0]
    want_prec = 1e-6 / float(layout['unit'])
    if abs(d['precision'] - want_prec) > 1e-12 * want_prec or abs(pr[0]['precision'] - want_prec) > 1e-12 * want_prec:
        chk.violation('C04/reader/unit', 'file unit %s grid steps per micron: library precision %.17g, oas_precision %.17g, expected %.17g' % (layout['unit'], d['precision'], pr[0]['precision'], want_prec), rp)
        return
    got = oasmodel.from_dump(d, drop_standard=False)
    if got['off_grid']:
        chk.violation('C04/reader/off-grid', '%d loaded coordinates are not on the file grid (worst %.3g)' % (got['off_grid'], got['worst_off_grid']), rp)
        return
    exp_nd = layout_model_nodrop(layout)
    diffs = oasmodel.compare(exp_nd, got, 'reader', 2.0)
    for suffix, msg in diffs[:3]:
        chk.violation('C04/reader/' + suffix, msg + ' [encoder choices: %s]' % _brief(m['stats']), rp)
    if diffs:
        return
    scheme = dec['end']['scheme']
    v = va[0]
    if scheme:
        calc = (zlib.crc32(m['data'][:-4]) & 0xFFFFFFFF) if scheme == 1 else (sum(m['data'][:-4]) & 0xFFFFFFFF)
        if not v['ok'] or v['signature'] != calc:
            chk.violation('C04/reader/validate', 'oas_validate -> ok=%s signature=%08x, the file carries a correct %s %08x' % (v['ok'], v['signature'], 'CRC32' if scheme == 1 else 'CHECKSUM32', calc), rp)
            return
    for k, n in m['stats'].items():
        chk.cov('enc_' + k, n)
    chk.cov('reader_cases_judged')
    st = m['stats']
    nt = sum(v_ for k, v_ in st.items() if k.startswith('modal_reuse_')) >= 2 or any(st.get(k) for k in ('relative_coordinate', 'cblock', 'cell_by_reference')) or \
        any(k.startswith('ctrapezoid_type_') for k in st)
    if nt:
        chk.fp(c.id)


def layout_model_nodrop(layout):
    dec = {'cells': [], 'file_props': layout.get('file_props', []), 'cellnames': {}}
    for c in layout['cells']:
        els = []
        for e in c['elements']:
            if e['kind'] == 'circle':
                n = 48
                pts = [(e['x'] + e['r'] * math.cos(2 * math.pi * i / n), e['y'] + e['r'] * math.sin(2 * math.pi * i / n)) for i in range(n)]
                els.append({'kind': 'polygon', 'layer': e['layer'], 'datatype': e['datatype'], 'pts': pts, 'rep': e.get('rep'), 'props': e.get('props', [])})
            else:
                els.append(e)
        dec['cells'].append({'name': c['name'], 'props': c.get('props', []), 'elements': els})
    return oasmodel.from_decoded(dec, drop_standard=False)


def _circles_to_polys(dec):
    out = dict(dec)
    out['cells'] = []
    for c in dec['cells']:
        els = []
        for e in c['elements']:
            if e['kind'] == 'circle':
                n = 48
                pts = [(e['x'] + e['r'] * math.cos(2 * math.pi * i / n), e['y'] + e['r'] * math.sin(2 * math.pi * i / n)) for i in range(n)]
                els.append({'kind': 'polygon', 'layer': e['layer'], 'datatype': e['datatype'], 'pts': pts, 'rep': e.get('rep'), 'props': e.get('props', [])})
            else:
                els.append(e)
        cc = dict(c)
        cc['elements'] = els
        out['cells'].append(cc)
    return out


def _brief(stats):
    return ', '.join('%s=%s' % kv for kv in sorted(stats.items()))[:600]


# ------------------------------------------------------------------------------------------------ writer direction
def make_writer_case(i):
    fb = c02.flag_bits()
    c = c02.make_case(100000 + i, fb)
    # keep only: build, write, bytes, and the library as it is after the write (the writer adds the standard properties in memory)
    cut = next(k for k, l in enumerate(c.lines) if l.startswith('oas_validate'))
    c2 = Case('W%d' % i, timeout=120)
    c2.lines = list(c.lines[:cut]) + ['dump_lib l0']
    c2.meta = c.meta
    return c2, fb


def judge_writer(chk, c, evs, fb):
    m = c.meta
    rp = {'case': c.text(), 'meta': {'seed': m['seed'], 'flags': m['flags'], 'level': m['level'], 'tol': m['tol']}}
    if not script.check_exit(chk, c, evs):
        return
    fh = [e for e in evs if e['op'] == 'filehex']
    ws = [e for e in evs if e['op'] == 'write_oas' and e.get('k') != 'call']
    if not fh or not ws or fh[0]['hex'] is None:
        chk.harness_error('%s: no file' % c.id)
        return
    if ws[0]['err'] != 0:
        chk.violation('C04/writer/error-code', 'write_oas returned %d' % ws[0]['err'], rp)
        return
    data = bytes.fromhex(fh[0]['hex'])
    try:
        dec = oas_codec.decode(data)
    except oas_codec.OasError as e:
        chk.violation('C04/writer/strict-decode', 'the strict decoder rejects the file gdstk wrote: %s [flags 0x%02x level %d]' % (e, m['flags'], m['level']), rp)
        return
    outl = c02.outlines_of(chk, c, evs)
    if outl is None:
        return
    exp = oasmodel.from_spec(m['lib'], outl)
    if exp.get('ties'):
        chk.cov('writer_cases_skipped_ties')
        return
    if m['tol'] == 0:
        diffs = oasmodel.compare(exp, oasmodel.from_decoded(dec), 'decoded file', None)
        for suffix, msg in diffs[:3]:
            chk.violation('C04/writer/' + suffix, msg + ' [flags 0x%02x level %d]' % (m['flags'], m['level']), rp)
        if diffs:
            return
    want_unit = 1e-6 / m['lib']['precision']
    if abs(dec['unit'] - want_unit) > 1e-9 * want_unit:
        chk.violation('C04/writer/unit', 'START unit %.17g, the library precision %g needs %.17g' % (dec['unit'], m['lib']['precision'], want_unit), rp)
        return
    # ---- standard properties state the truth
    fprops = {}
    for p in dec['file_props']:
        fprops.setdefault(p['name'], []).append(p['values'])
    cellnames = [cc['name'] for cc in dec['cells']]
    if m['flags'] & fb['PROPERTY_TOP_LEVEL']:
        referenced = set(e['cellname'] for cc in dec['cells'] for e in cc['elements'] if e['kind'] == 'placement')
        tops = sorted(n for n in cellnames if n not in referenced)
        said = sorted(v[0][1].rstrip(b'\0') for v in fprops.get(b'S_TOP_CELL', []) if v)
        if said != tops:
            chk.violation('C04/writer/S_TOP_CELL', 'S_TOP_CELL says %s, the cells nobody references are %s' % (said, tops), rp)
            return
        chk.cov('std_top_cell_checked')
    if m['flags'] & fb['PROPERTY_CELL_OFFSET']:
        for cc in dec['cells']:
            cp = [p for p in dec['cellnames'].get(cc.get('refnum'), {'props': []})['props'] if p['name'] == b'S_CELL_OFFSET']
            if len(cp) != 1 or len(cp[0]['values']) != 1 or cp[0]['values'][0][1] != cc['offset']:
                chk.violation('C04/writer/S_CELL_OFFSET', 'cell %r: S_CELL_OFFSET %s, its CELL record is at byte %d' % (cc['name'], [p['values'] for p in cp], cc['offset']), rp)
                return
        chk.cov('std_cell_offset_checked')
    if m['flags'] & fb['PROPERTY_MAX_COUNTS']:
        maxpoly = max([len(e['pts']) for cc in dec['cells'] for e in cc['elements'] if e['kind'] == 'polygon'] + [0])
        maxpath = max([len(e['pts']) for cc in dec['cells'] for e in cc['elements'] if e['kind'] == 'path'] + [0])
        strs = [len(cc['name']) for cc in dec['cells']] + [len(e['text']) for cc in dec['cells'] for e in cc['elements'] if e['kind'] == 'text']
        allp = list(dec['file_props'])
        for cc in dec['cells']:
            allp += cc['props']
            for e in cc['elements']:
                allp += e['props']
        for tbl in ('cellnames', 'textstrings'):
            for ent in dec[tbl].values():
                allp += ent['props']
        for p in allp:
            strs.append(len(p['name']))
            for v in p['values']:
                if v[0] == 's':
                    strs.append(len(v[1]))
        for name, truth in ((b'S_POLYGON_MAX_VERTICES', maxpoly), (b'S_PATH_MAX_VERTICES', maxpath), (b'S_MAX_STRING_LENGTH', max(strs + [0]))):
            vals = fprops.get(name)
            if not vals or len(vals[0]) != 1 or vals[0][0][0] != 'u':
                chk.violation('C04/writer/' + name.decode(), '%s missing or malformed: %s' % (name.decode(), vals), rp)
                return
            if vals[0][0][1] < truth:
                chk.violation('C04/writer/' + name.decode(), '%s says %d, the file contains %d' % (name.decode(), vals[0][0][1], truth), rp)
                return
        chk.cov('std_max_counts_checked')
    if m['flags'] & fb['PROPERTY_BOUNDING_BOX']:
        for cc in dec['cells']:
            if any(e['kind'] not in ('polygon', 'text') for e in cc['elements']):
                continue
            xs, ys = [], []
            for e in cc['elements']:
                # text counts with its anchor point (the cell box encloses geometry and text)
                pts_ = e['pts'] if e['kind'] == 'polygon' else [(e['x'], e['y'])]
                for ox, oy in (e['rep'] or [(0, 0)]):
                    xs += [p[0] + ox for p in pts_]
                    ys += [p[1] + oy for p in pts_]
            cp = [p for p in dec['cellnames'].get(cc.get('refnum'), {'props': []})['props'] if p['name'] == b'S_BOUNDING_BOX']
            if len(cp) != 1 or len(cp[0]['values']) != 5:
                chk.violation('C04/writer/S_BOUNDING_BOX', 'cell %r: S_BOUNDING_BOX missing or malformed: %s' % (cc['name'], [p['values'] for p in cp]), rp)
                return
            vals = [v[1] for v in cp[0]['values']]
            truth = [min(xs), min(ys), max(xs) - min(xs), max(ys) - min(ys)] if xs else [0, 0, 0, 0]
            if m['tol'] == 0 and vals[1:] != truth:
                chk.violation('C04/writer/S_BOUNDING_BOX', 'cell %r: S_BOUNDING_BOX says (x, y, w, h) = %s, its polygons span %s' % (cc['name'], vals[1:], truth), rp)
                return
            chk.cov('std_bounding_box_checked')
    for k, n in dec['stats'].items():
        if k.startswith('rec_') or k.startswith('rep_type_') or k.startswith('pointlist_type_') or k.startswith('ctrapezoid_type_'):
            chk.cov('written_' + k, n)
    chk.cov('writer_cases_judged')
    if m['flags'] and (dec['cblocks'] or len(dec['records']) > 8):
        chk.fp('%s/%02x' % (c.id, m['flags']))


_NR = None


def work(rec, b, indices):
    rcases, wcases = [], []
    fb = None
    for i in indices:
        if i < _NR:
            rcases.append(make_reader_case(i))
        else:
            c, fb = make_writer_case(i - _NR)
            wcases.append(c)
    ev = script.run_cases(rec, b, rcases + wcases, shards=1)
    for c in rcases:
        rec.evaluations += 1
        judge_reader(rec, c, ev.get(c.id, []))
    for c in wcases:
        rec.evaluations += 1
        judge_writer(rec, c, ev.get(c.id, []), fb)


def run(tier):
    chk = vfw.Check('C04', tier)
    b = vfw.build()
    global _NR
    nr, nw = N[tier]
    _NR = nr
    vfw.run_sharded(chk, b, nr + nw, work)
    c = make_reader_case(1)
    chk.sample({'case': c.id, 'encoder_choices': c.meta['stats'], 'cells': [cc['name'].decode('latin-1') for cc in c.meta['layout']['cells']], 'bytes': len(c.meta['data'])})
    chk.rule = ('reader: abstract layouts (RECTANGLE/POLYGON/PATH/TRAPEZOID a,b,ab both orientations/all 26 CTRAPEZOID types/CIRCLE/TEXT/PLACEMENT both forms, all repetition '
                'families, properties of every value kind) serialised by an independent encoder that draws every legal choice at random: modal reuse of every modal variable, '
                'relative mode, repetition types 0-11, point-list types 0-5, real forms 0-7, names inline or by reference with implicit or explicit numbering, tables in front, '
                'at the back or scattered, strict flags, CBLOCKs around any run of records, PADs, offsets in START or END, validation scheme 0/1/2; the loaded library must equal '
                'the layout. writer: libraries written by gdstk under random option sets, decoded by the strict decoder (END = 256 bytes, table offsets, signature, modal '
                'discipline) and compared with the exact-rational model of the library; S_TOP_CELL, S_CELL_OFFSET, S_BOUNDING_BOX, S_*_MAX_* checked against the decoded file.')
    chk.assumptions = ['the reading of SEMI P39 in DESIGN.md appendix B (vertical TRAPEZOID corrected there)', 'modal variables are not reused across CELL or name records',
                       'S_*_MAX_* are upper bounds: smaller than the truth is a violation']
    chk.floor('reader_cases_judged', chk.coverage.get('reader_cases_judged', 0), int(0.9 * nr))
    chk.floor('writer_cases_judged', chk.coverage.get('writer_cases_judged', 0), int(0.7 * nw))
    chk.finish()


def replay(path):
    import c01
    return c01.replay(path)
