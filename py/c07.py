# C07 - FlexPath outlines are the region swept by width and offset along the spine.
#  (1) bookkeeping: after every construction call each element holds one width/offset entry per spine point
#  (2) region: points well inside the swept band are inside the polygon, points beyond the reach of the join / end style are outside
#  (3) circular bends replace corners by arcs when they fit
import math
import random

import genlib
import geom
import script
import vfw
from script import Case, fl

N = {'quick': 2500, 'thorough': 60000}
G = 0.01


def gen_path(rnd, sd):
    g = genlib.Gen(sd, dict(oas_props=False, gds_props=False, reps=False))
    nel = rnd.choice([1, 1, 2, 3])
    els = []
    for i in range(nel):
        w = rnd.randrange(1, 6) * 2 * G
        off = 0.0 if (nel == 1 and rnd.random() < 0.6) else (i - (nel - 1) / 2) * rnd.randrange(6, 10) * 2 * G
        end = rnd.choice([0, 1, 2, 3])
        ext = (rnd.randrange(0, 9) * G, rnd.randrange(0, 9) * G) if end == 3 else (0.0, 0.0)
        els.append({'width': w, 'offset': off, 'tag': (i, 0), 'join': rnd.choice([0, 1, 2, 3]), 'end': end, 'ext': ext, 'bend': 0, 'bend_radius': 0.0})
    style = rnd.choice(['polyline', 'polyline', 'mixed', 'mixed', 'bends', 'tapered_curve'])
    # simple paths (constant width and offset) are also saved as PATH records and read back from the bytes
    simple = rnd.random() < 0.2
    if simple:
        style = rnd.choice(['polyline', 'mixed', 'mixed', 'bends'])
        for e in els:
            if e['end'] == 1:
                e['end'] = rnd.choice([0, 2, 3])
                e['ext'] = (rnd.randrange(0, 9) * G, rnd.randrange(0, 9) * G) if e['end'] == 3 else (0.0, 0.0)
    tapered_curve = style == 'tapered_curve'
    if tapered_curve:
        # one or two curved sections with a strong width taper: the edges of the outline then turn at a different rate than the centre line
        style = 'mixed'
        for e in els:
            e['join'] = rnd.choice([3, 3, e['join']])
            if rnd.random() < 0.5:
                e['end'], e['ext'] = 0, (0.0, 0.0)
    tol = rnd.choice([1e-2, 1e-3]) * 10 * G
    x, y = rnd.randrange(-50, 50), rnd.randrange(-50, 50)
    p0 = (x * G, y * G)
    calls = []
    wmax = max(e['width'] for e in els) + 2 * max(abs(e['offset']) for e in els)
    L = lambda: rnd.randrange(80, 160) * G     # noqa: E731   long segments (>= 4 widths)
    last = None
    # turns sharper than 90 degrees (up to 140): plain polylines without offsets, where the centre line cannot fold
    sharp = style == 'polyline' and all(e['offset'] == 0 for e in els) and rnd.random() < 0.5

    def direction():
        nonlocal last
        for _ in range(30):
            k = rnd.random()
            if k < 0.25 and all(e['offset'] == 0 for e in els):
                d = (rnd.choice([-1, 1]) * L(), rnd.choice([-1, 1]) * L())
            elif k < 0.62:
                d = (rnd.choice([-1, 1]) * L(), 0.0)
            else:
                d = (0.0, rnd.choice([-1, 1]) * L())
            if last is None:
                break
            dot = d[0] * last[0] + d[1] * last[1]
            cross = d[0] * last[1] - d[1] * last[0]
            if dot >= 0 and cross != 0:
                break
            if sharp and cross != 0 and dot >= -0.76 * math.hypot(*d) * math.hypot(*last):
                break
        last = d
        return d

    def taper():
        ex = {}
        if simple:
            return ex
        if tapered_curve:
            ex['w'] = [e['width'] * rnd.choice([0.4, 0.6, 1.4, 1.8]) for e in els]
            return ex
        if rnd.random() < 0.3:
            ex['w'] = [e['width'] * rnd.choice([0.6, 1.0, 1.4]) for e in els]
        if rnd.random() < 0.2 and nel > 1:
            ex['o'] = [e['offset'] * rnd.choice([1.0, 1.15]) for e in els]
        return ex
    if style == 'bends':
        R = rnd.randrange(10, 30) * G
        for e in els:
            e['bend'] = 1
            e['bend_radius'] = R + abs(e['offset']) + e['width']
        n = rnd.randrange(2, 6)
        pts = []
        cx, cy = p0
        rmax = max(e['bend_radius'] for e in els)
        for k_ in range(n):
            d = direction()
            ln = math.hypot(*d)
            if 0 < k_ < n - 1 and rnd.random() < 0.4:
                # a short segment shared by two bends: room for one tangent length but not for two (the second bend must not be drawn)
                f = rmax * rnd.uniform(1.15, 1.85) / ln
            else:
                f = 3.0                    # segments >= 4 radii so that the bend fits
            d = (d[0] * f, d[1] * f)
            cx, cy = cx + d[0], cy + d[1]
            pts.append((cx, cy))
        calls.append(('segment', pts))
    else:
        cx, cy = p0
        for _ in range(rnd.randrange(1, 3) if tapered_curve else rnd.randrange(1, 6)):
            kind = 'segment' if style == 'polyline' else rnd.choice(['cubic', 'bezier', 'cubic_smooth', 'turn', 'arc', 'parametric', 'interpolation']) if tapered_curve else rnd.choice(['segment', 'segment', 'horizontal', 'vertical', 'arc', 'turn', 'cubic', 'bezier', 'quadratic_smooth',
                                                                    'cubic_smooth', 'interpolation', 'parametric', 'commands', 'segments'])
            ex = taper()
            if kind in ('cubic_smooth', 'quadratic_smooth') and not (calls and calls[-1][0] in ('cubic', 'bezier', 'cubic_smooth', 'quadratic_smooth1')):
                kind = 'cubic'      # a smooth continuation is only defined after a section that has a control point
            if kind == 'segment':
                d = direction()
                cx, cy = cx + d[0], cy + d[1]
                calls.append(('segment1', (d[0], d[1]), dict(ex, rel=True)))
            elif kind == 'segments':
                pts = []
                for _k in range(rnd.randrange(2, 4)):
                    d = direction()
                    cx, cy = cx + d[0], cy + d[1]
                    pts.append((cx, cy))
                    if rnd.random() < 0.25:
                        pts.append((cx, cy) if rnd.random() < 0.5 else (cx + 0.3 * tol, cy))      # (near-)duplicate spine point: dropped by to_polygons
                calls.append(('segment', pts, ex))
            elif kind in ('horizontal', 'vertical'):
                # keep every turn at or below 90 degrees (no folding back)
                ax = 0 if kind == 'horizontal' else 1
                sgn = rnd.choice([-1, 1])
                if last is not None and last[ax] != 0:
                    sgn = 1 if last[ax] > 0 else -1
                if last is not None and last[ax] != 0 and last[1 - ax] == 0:
                    # same direction as the previous segment would be a zero-degree turn: fine, but use the other axis sometimes
                    pass
                dd = sgn * L()
                if ax == 0:
                    cx += dd
                    last = (dd, 0.0)
                else:
                    cy += dd
                    last = (0.0, dd)
                calls.append((kind, dd, dict(ex, rel=True)))
            elif kind == 'arc':
                r = max(3 * wmax, rnd.randrange(40, 120) * G)
                a0 = rnd.choice([0.0, math.pi / 2, -1.0, 2.0])
                a1 = a0 + rnd.choice([-1, 1]) * rnd.choice([0.6, math.pi / 2, 2.0])
                calls.append(('arc', (r, r, a0, a1, 0.0), ex))
                cx += r * (math.cos(a1) - math.cos(a0))
                cy += r * (math.sin(a1) - math.sin(a0))
                last = None
                break
            elif kind == 'turn':
                r = max(3 * wmax, rnd.randrange(40, 120) * G)
                calls.append(('turn', (r, rnd.choice([-1, 1]) * rnd.choice([0.5, math.pi / 2, 1.2])), ex))
                last = None
                if rnd.random() < 0.5:
                    calls.append(('turn', (r, rnd.choice([-1, 1]) * rnd.choice([0.5, 1.0])), {}))
                break
            elif kind in ('cubic', 'bezier'):
                d = direction()
                q = [(0.3 * d[0] - 0.15 * d[1], 0.3 * d[1] + 0.15 * d[0]), (0.7 * d[0] + 0.15 * d[1], 0.7 * d[1] - 0.15 * d[0]), (d[0], d[1])]
                calls.append((kind, q, dict(ex, rel=True)))
                cx, cy = cx + d[0], cy + d[1]
            elif kind == 'cubic_smooth':
                d = direction()
                calls.append(('cubic_smooth', [(0.6 * d[0], 0.6 * d[1]), (d[0], d[1])], dict(ex, rel=True)))
                cx, cy = cx + d[0], cy + d[1]
            elif kind == 'quadratic_smooth':
                d = direction()
                calls.append(('quadratic_smooth1', (d[0], d[1]), dict(ex, rel=True)))
                cx, cy = cx + d[0], cy + d[1]
            elif kind == 'interpolation':
                pts = []
                for _k in range(rnd.randrange(2, 4)):
                    d = direction()
                    cx, cy = cx + d[0], cy + d[1]
                    pts.append((cx, cy))
                m = len(pts) + 1
                calls.append(('interpolation', (pts, [(False, 0.0)] * m, [(1.0, 1.0)] * m, 1.0, 1.0, False), ex))
                last = None
                break
            elif kind == 'parametric':
                Rr = max(4 * wmax, rnd.randrange(60, 140) * G)
                calls.append(('parametric', [0, Rr, 0.0, rnd.choice([1.0, -1.2, 2.0])], dict(ex, rel=True)))
                last = None
                break
            else:
                d = direction()
                d2 = direction()
                calls.append(('commands', ['l', d[0], d[1], 'l', d2[0], d2[1]], {}))
                cx, cy = cx + d[0] + d2[0], cy + d[1] + d2[1]
    return {'p0': p0, 'tol': tol, 'elements': els, 'simple': simple, 'scale_width': True, 'calls': calls, 'rep': None, 'props': [], 'sharp': sharp}


def gen_taper_kink(rnd):
    """three parallel elements, a tapered Bezier section continued by a tapered turn with other taper rates: the family in which the
    thorough tier (seed 31, case Q47063) found the last short outline edge of the curve and the first edge of the turn almost parallel
    without being collinear on the inner side of the joint - their intersection lies far behind the joint (fixed in gdstk, kept as a
    targeted workload)"""
    def j(v):
        return v * rnd.uniform(0.8, 1.2)
    w = [j(0.08), j(0.06), j(0.08)]
    o = [-0.14, 0.0, 0.12]
    els = [{'width': w[k], 'offset': o[k], 'tag': (k, 0), 'join': rnd.choice([3, 3, 0, 2]), 'end': 1 if k < 2 else 0, 'ext': (0.0, 0.0), 'bend': 0, 'bend_radius': 0.0}
           for k in range(3)]
    w1 = [w[0] * j(1.4), w[1] * j(0.6), w[2] * j(0.4)]
    w2 = [w1[0] * j(1.0), w1[1] * j(2.3), w1[2] * j(1.5)]
    sgn = rnd.choice([-1, 1])       # mirror image of the family as well
    calls = [('bezier', [(sgn * j(0.15), j(-0.3)), (sgn * j(-0.15), j(-0.7)), (sgn * (j(0.02) - 0.02), j(-1.0))], {'rel': True, 'w': w1}),
             ('turn', (j(1.08), rnd.choice([0.5, -0.5])), {'w': w2})]
    return {'p0': (0.25, 0.27), 'tol': 0.001, 'elements': els, 'simple': False, 'scale_width': True, 'calls': calls, 'rep': None, 'props': [],
            'sharp': False, 'taper_kink': True}


def make_case(i):
    sd = vfw.seed() * 1000003 + 70000 + i
    rnd = random.Random(sd)
    fp = gen_path(rnd, sd)
    if random.Random(sd + 9).random() < 0.06:
        fp = gen_taper_kink(random.Random(sd + 10))
    c = Case('Q%d' % i, timeout=60)
    if fp['simple']:
        c.op('lib', script.hx('L'), fl(1e-6), fl(1e-9))
        c.op('cell', script.hx('C'), 'l0')
        genlib.emit_flexpath(c, 'c0', fp)
    else:
        genlib.emit_flexpath(c, '-', fp)
    c.op('dump_el', 'f0', 'path')
    c.op('to_polygons', 'f0')
    c.op('dump_el', 'f0', 'after')
    if fp['simple']:
        c.op('write_gds', 'l0', 'p.gds', 0)
        c.op('filehex', 'p.gds')
        c.op('write_oas', 'l0', 'p.oas', fl(0.0), 0, 0)
        c.op('filehex', 'p.oas')
    c.meta = {'seed': sd, 'path': fp, 'sharp': fp['sharp']}
    return c


def pairs(flat):
    return [(flat[k], flat[k + 1]) for k in range(0, len(flat), 2)]


def centre_line(spine, hwo):
    """(centre vertices, half-widths) of an element from the spine and its per-point (half width, offset) entries"""
    n = len(spine)
    segs = []
    for i in range(n - 1):
        dx, dy = spine[i + 1][0] - spine[i][0], spine[i + 1][1] - spine[i][1]
        ln = math.hypot(dx, dy)
        if ln == 0:
            segs.append(None)
            continue
        nx, ny = -dy / ln, dx / ln
        segs.append(((spine[i][0] + nx * hwo[i][1], spine[i][1] + ny * hwo[i][1]), (spine[i + 1][0] + nx * hwo[i + 1][1], spine[i + 1][1] + ny * hwo[i + 1][1])))
    if any(s is None for s in segs):
        return None
    out = [segs[0][0]]
    for i in range(len(segs) - 1):
        (a, b), (c_, d) = segs[i], segs[i + 1]
        r = (b[0] - a[0], b[1] - a[1])
        s = (d[0] - c_[0], d[1] - c_[1])
        den = r[0] * s[1] - r[1] * s[0]
        if abs(den) < 1e-9 * math.hypot(*r) * math.hypot(*s):
            out.append(((b[0] + c_[0]) / 2, (b[1] + c_[1]) / 2))
        else:
            t = ((c_[0] - a[0]) * s[1] - (c_[1] - a[1]) * s[0]) / den
            out.append((a[0] + t * r[0], a[1] + t * r[1]))
    out.append(segs[-1][1])
    return out


def bent_centre(cl, hw, R0, off=0.0):
    """centre line with every corner where the bend fits replaced by a sampled arc of radius R"""
    n = len(cl)
    out = [cl[0]]
    used_prev = 0.0
    for k in range(1, n - 1):
        a = (cl[k][0] - cl[k - 1][0], cl[k][1] - cl[k - 1][1])
        b = (cl[k + 1][0] - cl[k][0], cl[k + 1][1] - cl[k][1])
        la, lb = math.hypot(*a), math.hypot(*b)
        th = math.atan2(a[0] * b[1] - a[1] * b[0], a[0] * b[0] + a[1] * b[1])
        R = R0 - (1.0 if th > 0 else -1.0) * off      # the element's own centre radius (offset to the inside shortens it)
        lt = R * math.tan(abs(th) / 2)
        if abs(th) >= 1e-9 and R > hw[k] and (abs(lt - (la - used_prev)) < 0.04 * lt or abs(lt - lb) < 0.04 * lt):
            bent_centre.ambiguous = True        # the bend fits or fails to fit by a few per cent of its tangent length: "when they fit" is not that sharp
        if abs(th) < 1e-9 or R <= hw[k] or lt > la - used_prev or lt > lb:
            out.append(cl[k])
            used_prev = 0.0
            continue
        t0 = (a[0] / la, a[1] / la)
        t1 = (b[0] / lb, b[1] / lb)
        s_ = 1.0 if th > 0 else -1.0
        start = (cl[k][0] - t0[0] * lt, cl[k][1] - t0[1] * lt)
        cen = (start[0] - s_ * t0[1] * R, start[1] + s_ * t0[0] * R)
        a0 = math.atan2(start[1] - cen[1], start[0] - cen[0])
        for j in range(0, 13):
            ang = a0 + th * j / 12
            out.append((cen[0] + R * math.cos(ang), cen[1] + R * math.sin(ang)))
        used_prev = lt
    out.append(cl[-1])
    return out, [hw[0]] * len(out)


def judge(chk, c, evs):
    m = c.meta
    fp = m['path']
    rp = {'case': c.text(), 'meta': {'seed': m['seed']}}
    if not script.check_exit(chk, c, evs):
        return
    # (1) bookkeeping after every construction call
    for e in evs:
        if e['op'] == 'fpcall' and e.get('k') != 'call':
            if any(n != e['spine_count'] for n in e['el_counts']):
                chk.violation('C07/bookkeeping/' + e['name'], 'after %s the spine has %d points but the elements hold %s width/offset entries' % (
                    e['name'], e['spine_count'], e['el_counts']), rp)
                return
            chk.cov('calls_checked')
            chk.cov('call_' + e['name'])
    d = [e for e in evs if e['op'] == 'dump_el']
    tp = [e for e in evs if e['op'] == 'to_polygons' and e.get('k') != 'call']
    if not d or not tp:
        chk.harness_error('%s: dump or outline missing' % c.id)
        return
    el = d[0]['el']
    spine = pairs(el['spine'])
    # taper law per call: the entries a call appends run monotonically from the previous last entry to the requested (width/2, offset),
    # which the last one hits exactly; without a request the previous value is kept
    done = [e for e in evs if e['op'] == 'fpcall' and e.get('k') != 'call']
    if len(done) == len(fp['calls']):
        start = 1
        for call, e in zip(fp['calls'], done):
            ex = call[2] if len(call) > 2 else {}
            stop = e['spine_count']
            for ei, edump in enumerate(el['elements']):
                h = pairs(edump['hwo'])
                if stop > len(h) or start > stop:
                    break
                prev = h[start - 1]
                want = (ex['w'][ei] / 2 if ex.get('w') else prev[0], ex['o'][ei] if ex.get('o') else prev[1])
                if stop > start:
                    lastv = h[stop - 1]
                    if any(abs(lastv[q] - want[q]) > 1e-12 * max(1.0, abs(want[q])) for q in (0, 1)):
                        chk.violation('C07/bookkeeping/taper-target', 'after %s element %d ends at (half width, offset) = (%.12g, %.12g), requested (%.12g, %.12g)' % (
                            e['name'], ei, lastv[0], lastv[1], want[0], want[1]), rp)
                        return
                    for q in (0, 1):
                        seq = [prev[q]] + [h[j][q] for j in range(start, stop)]
                        sg = 1 if want[q] >= prev[q] else -1
                        if any(sg * (seq[j + 1] - seq[j]) < -1e-12 for j in range(len(seq) - 1)):
                            chk.violation('C07/bookkeeping/taper-not-monotone', 'after %s the %s entries of element %d do not run monotonically from %.12g to %.12g' % (
                                e['name'], ('half width', 'offset')[q], ei, prev[q], want[q]), rp)
                            return
                    chk.cov('taper_ranges_checked')
            start = stop
    polys = tp[0]['polys']
    if tp[0]['err'] != 0:
        chk.violation('C07/to_polygons/error-code', 'to_polygons returned %d' % tp[0]['err'], rp)
        return
    if len(polys) != len(el['elements']):
        chk.violation('C07/to_polygons/count', '%d polygons for %d elements' % (len(polys), len(el['elements'])), rp)
        return
    tol = el['tolerance']
    rnd = random.Random(m['seed'] + 7)
    # drop consecutive duplicate spine points the way to_polygons does (closer than the tolerance)
    keep = [0]
    for i in range(1, len(spine)):
        if math.hypot(spine[i][0] - spine[keep[-1]][0], spine[i][1] - spine[keep[-1]][1]) >= tol:
            keep.append(i)
    if len(keep) < 2:
        chk.cov('cases_judged')
        return
    sp = [spine[i] for i in keep]
    centres = {}
    # bookkeeping after the outline was built: duplicates are gone from the spine and from every element alike
    if len(d) > 1:
        el2 = d[1]['el']
        sp2 = pairs(el2['spine'])
        if sp2 != sp:
            chk.violation('C07/bookkeeping/overlap-removal-spine', 'after to_polygons the spine has %d points, expected %d (points closer than the tolerance to their '
                          'predecessor removed)' % (len(sp2), len(sp)), rp)
            return
        for ei, (ea, eb) in enumerate(zip(el['elements'], el2['elements'])):
            if pairs(eb['hwo']) != [pairs(ea['hwo'])[i] for i in keep]:
                chk.violation('C07/bookkeeping/overlap-removal-elements', 'after to_polygons element %d holds %d width/offset entries that do not match the %d kept spine points' % (
                    ei, len(eb['hwo']) // 2, len(sp)), rp)
                return
        if len(keep) < len(spine):
            chk.cov('cases_with_removed_duplicates')
    nontrivial = len(set(cc[0] for cc in fp['calls'])) >= 2
    for ei, (e, pe, spec) in enumerate(zip(el['elements'], polys, fp['elements'])):
        hwo_all = pairs(e['hwo'])
        hwo = [hwo_all[i] for i in keep]
        poly = pairs(pe['pts'])
        if any(not (math.isfinite(p[0]) and math.isfinite(p[1])) for p in poly):
            chk.violation('C07/outline/non-finite', 'outline of element %d has a non-finite vertex' % ei, rp)
            return
        if (pe['layer'], pe['type']) != (e['layer'], e['type']):
            chk.violation('C07/outline/tag', 'outline %d carries tag %s, element has %s' % (ei, (pe['layer'], pe['type']), (e['layer'], e['type'])), rp)
        cl = centre_line(sp, hwo)
        if cl is None:
            continue
        hw = [h[0] for h in hwo]
        # an offset that eats more than a whole (short) segment on the inside of a corner reverses that segment of the displaced line:
        # the centre line is then not defined (segment shorter than the width+offset it carries - outside the property's domain)
        if any((cl[k + 1][0] - cl[k][0]) * (sp[k + 1][0] - sp[k][0]) + (cl[k + 1][1] - cl[k][1]) * (sp[k + 1][1] - sp[k][1]) <= 0 for k in range(len(sp) - 1)):
            chk.cov('elements_skipped_offset_fold')
            continue
        if spec['bend']:
            if len(set(hw)) != 1 or len(set(o for _h, o in hwo)) != 1:
                continue
            bent_centre.ambiguous = False
            cl, hw = bent_centre(cl, hw, e['bend_radius'], hwo[0][1])
            if bent_centre.ambiguous:
                chk.cov('elements_skipped_bend_fits_marginally')
                continue
        if min(hw) <= 0:
            continue
        nseg = len(cl) - 1
        clear = 2.5 * (max(hw) + 0.0) + 4 * tol
        approach = False
        # (the centre line extended by the end caps: the cap of one end reaching the other end, or another stretch, is self-overlap as well)
        capa = {0: 0.0, 1: hw[0], 2: hw[0], 3: max(0.0, e['ext'][0])}.get(spec['end'], hw[0])
        capb = {0: 0.0, 1: hw[-1], 2: hw[-1], 3: max(0.0, e['ext'][1])}.get(spec['end'], hw[-1])
        cle = list(cl)
        for which, capx in ((0, capa), (-1, capb)):
            a_, b_ = (cl[1], cl[0]) if which == 0 else (cl[-2], cl[-1])
            ln_ = math.hypot(b_[0] - a_[0], b_[1] - a_[1])
            if ln_ > 0 and capx > 0:
                cle[which] = (b_[0] + (b_[0] - a_[0]) / ln_ * capx, b_[1] + (b_[1] - a_[1]) / ln_ * capx)
        for k1 in range(nseg):
            for k2 in range(k1 + 2, nseg):
                # skip neighbours that are short samples of one curved section
                gap = sum(math.hypot(cl[q + 1][0] - cl[q][0], cl[q + 1][1] - cl[q][1]) for q in range(k1 + 1, k2))
                d1 = (cl[k1 + 1][0] - cl[k1][0], cl[k1 + 1][1] - cl[k1][1])
                d2 = (cl[k2 + 1][0] - cl[k2][0], cl[k2 + 1][1] - cl[k2][1])
                back = d1[0] * d2[0] + d1[1] * d2[1] < -0.5 * math.hypot(*d1) * math.hypot(*d2)      # the path has turned by more than 120 degrees
                if gap < 2 * clear and not back:
                    continue
                if genlib._seg_dist(cle[k1], cle[k1 + 1], cle[k2], cle[k2 + 1]) < clear:
                    approach = True
                    break
            if approach:
                break
        if approach:
            chk.cov('elements_skipped_self_approach')
            continue
        # turning angles of the centre line
        turns = [0.0]
        for k in range(1, nseg):
            a = (cl[k][0] - cl[k - 1][0], cl[k][1] - cl[k - 1][1])
            b = (cl[k + 1][0] - cl[k][0], cl[k + 1][1] - cl[k][1])
            turns.append(abs(math.atan2(a[0] * b[1] - a[1] * b[0], a[0] * b[0] + a[1] * b[1])))
        turns.append(0.0)
        maxturn = max(turns)
        # the inner side of a corner of angle t consumes hw*tan(t/2) of both adjacent segments; a segment shorter than what its two corners
        # consume is "shorter than the width" in the property's sense (for a sampled curve: radius of curvature below the half width)
        seglen0 = [math.hypot(cl[k + 1][0] - cl[k][0], cl[k + 1][1] - cl[k][1]) for k in range(nseg)]
        eat = [hw[k] * math.tan(min(turns[k], 3.1) / 2) for k in range(nseg + 1)]
        if not spec['bend'] and any(eat[k] + eat[k + 1] > seglen0[k] for k in range(nseg)):
            chk.cov('elements_skipped_segment_shorter_than_width')
            continue
        end_t = spec['end']
        join = spec['join']
        if any(o != hwo[0][1] for _h, o in hwo) or any(h != hw[0] for h in hw):
            nontrivial = True
        if hwo[0][1] != 0 or maxturn > math.radians(160):
            nontrivial = True
        # cap extension of the centre line (how far the outline may reach beyond the end points)
        cap0 = {0: 0.0, 1: hw[0], 2: hw[0], 3: max(0.0, e['ext'][0])}.get(end_t, hw[0])
        cap1 = {0: 0.0, 1: hw[-1], 2: hw[-1], 3: max(0.0, e['ext'][1])}.get(end_t, hw[-1])
        # reach of the join: round and bevel joins stay within half the width, a miter reaches hw/cos(turn/2), a natural join is a miter up
        # to 90 degrees and two points hw beyond the corner after that (sqrt(2) hw from the vertex)
        tcap = math.radians(141) if m.get('sharp') else math.radians(100)
        teff = min(maxturn + (0.06 if m.get('sharp') and len(set(hw)) > 1 else 0.0), tcap)
        reach = 1.0 if join == 3 else 1.0 / max(math.cos(teff / 2), 0.3)
        if m.get('sharp') and join == 2:
            reach = 1.0
        if m.get('sharp') and join == 0:
            reach = min(reach, math.sqrt(2.0) * 1.03)
        reach *= max(hw)
        if spec['bend']:
            reach = max(reach, max(hw) * 1.5)
        seglen = [math.hypot(cl[k + 1][0] - cl[k][0], cl[k + 1][1] - cl[k][1]) for k in range(nseg)]

        def dist_centre(px, py, extended):
            best = (float('inf'), 0, 0.0)
            for k in range(nseg):
                a, b = cl[k], cl[k + 1]
                if extended and seglen[k] > 0:
                    ux, uy = (b[0] - a[0]) / seglen[k], (b[1] - a[1]) / seglen[k]
                    if k == 0:
                        a = (a[0] - ux * cap0, a[1] - uy * cap0)
                    if k == nseg - 1:
                        b = (b[0] + ux * cap1, b[1] + uy * cap1)
                d2 = geom.dist2_point_seg(px, py, a[0], a[1], b[0], b[1])
                if d2 < best[0]:
                    dx, dy = b[0] - a[0], b[1] - a[1]
                    l2 = dx * dx + dy * dy
                    s_ = ((px - a[0]) * dx + (py - a[1]) * dy) / l2 if l2 else 0.0
                    best = (d2, k, s_)
            return math.sqrt(best[0]), best[1], best[2]
        inside_tests = outside_tests = 0
        for _t in range(400):
            if inside_tests >= 60 and outside_tests >= 60:
                break
            k = rnd.randrange(nseg)
            if seglen[k] == 0:
                continue
            s_ = rnd.uniform(0.02, 0.98)
            a, b = cl[k], cl[k + 1]
            ux, uy = (b[0] - a[0]) / seglen[k], (b[1] - a[1]) / seglen[k]
            nx, ny = -uy, ux
            hloc = hw[k] + (hw[k + 1] - hw[k]) * s_
            lat = rnd.choice([-1, 1]) * rnd.choice([0.0, 0.3, 0.55, 1.0 + 0.3, 1.6, 2.2]) * hloc
            if abs(lat) > hloc and rnd.random() < 0.5:
                lat = math.copysign(reach + 3 * tol + rnd.uniform(0.05, 0.6) * max(hw), lat)
            px, py = a[0] + ux * seglen[k] * s_ + nx * lat, a[1] + uy * seglen[k] * s_ + ny * lat
            dist, kk, ss = dist_centre(px, py, False)
            hmin = min(hw[kk], hw[kk + 1])
            inside = geom.fwinding(poly, px, py) != 0
            # well inside the band, with the nearest centre point strictly inside a segment (not beyond an end plane)
            if dist <= 0.6 * hmin - 2 * tol and 0.0 < ss < 1.0:
                inside_tests += 1
                if not inside:
                    chk.violation('C07/outline/gap', 'element %d (half width %g, join %d, end %d): point (%.6g,%.6g) is %.4g from the centre line but outside the outline' % (
                        ei, hmin, join, end_t, px, py, dist), rp)
                    return
            else:
                dext, _k2, _s2 = dist_centre(px, py, True)
                if dext > reach + 3 * tol + 1e-9:
                    outside_tests += 1
                    if inside:
                        chk.violation('C07/outline/excess', 'element %d (half width %g, join %d, end %d): point (%.6g,%.6g) is %.4g from the (cap-extended) centre line, '
                                      'beyond the reach %.4g of the join/end style, but inside the outline' % (ei, max(hw), join, end_t, px, py, dext, reach), rp)
                        return
        # the outline's own vertices are its extreme points: none may lie beyond the reach either
        # (not for miter joins: the tip of a miter is as far out as the turn of the two outline edges makes it, and with tapers those turn
        # slightly more or less than the centre line - the sampled test above leaves the tip alone, a vertex test would sit right on it)
        for (vx, vy) in (poly if join != 1 else []):
            dext, _kv, _sv = dist_centre(vx, vy, True)
            # (a natural join is a miter up to a quarter turn: with tapering widths its tip is up to a few per cent farther out, see above)
            if dext > reach * (1.12 if join == 0 and len(set(hw)) > 1 else 1.02) + 3 * tol + 1e-9:
                chk.violation('C07/outline/excess', 'element %d (half width %g, join %d, end %d): outline vertex (%.6g,%.6g) is %.4g from the (cap-extended) centre line, '
                              'beyond the reach %.4g of the join/end style' % (ei, max(hw), join, end_t, vx, vy, dext, reach), rp)
                return
        chk.cov('outline_vertices_checked', len(poly))
        # outer side of every real corner: the points just inside the two offset corners (0.85 of the half width from the vertex, at right
        # angles to either adjacent segment) are closer than half the width to the centre line whatever the join type
        if not spec['bend']:
            for k in range(1, nseg):
                if turns[k] < 0.3 or seglen[k - 1] < 3 * hw[k] or seglen[k] < 3 * hw[k]:
                    continue
                a = (cl[k][0] - cl[k - 1][0], cl[k][1] - cl[k - 1][1])
                b = (cl[k + 1][0] - cl[k][0], cl[k + 1][1] - cl[k][1])
                outer = -1.0 if a[0] * b[1] - a[1] * b[0] > 0 else 1.0     # left turn: the outer side is on the right
                lat = 0.85 * hw[k] - 2 * tol
                if lat <= 0:
                    continue
                for (dx, dy), ln, back in ((a, seglen[k - 1], -1.0), (b, seglen[k], 1.0)):
                    ux, uy = dx / ln, dy / ln
                    px = cl[k][0] + outer * lat * (-uy) + back * 0.02 * hw[k] * ux
                    py = cl[k][1] + outer * lat * ux + back * 0.02 * hw[k] * uy
                    if geom.fwinding(poly, px, py) == 0:
                        chk.violation('C07/outline/corner-gap', 'element %d (half width %g, join %d): point (%.6g,%.6g), %.4g to the outer side of corner %d '
                                      '(turn %.1f degrees), is outside the outline' % (ei, hw[k], join, px, py, lat, k, math.degrees(turns[k])), rp)
                        return
                    chk.cov('corner_probes')
                if turns[k] > math.radians(95):
                    chk.cov('sharp_corners_probed')
        # end planes: flush ends stop at the end point, extended ends reach exactly their extension
        if seglen[0] > 0 and end_t in (0, 1, 2, 3):
            for which in (0, 1):
                k = 0 if which == 0 else nseg - 1
                a, b = cl[k], cl[k + 1]
                ux, uy = (b[0] - a[0]) / seglen[k], (b[1] - a[1]) / seglen[k]
                base, sign, cap = (a, -1.0, cap0) if which == 0 else (b, 1.0, cap1)
                hloc = hw[0] if which == 0 else hw[-1]
                # just inside the cap and just beyond it, on the centre line
                if cap > 4 * tol:
                    px, py = base[0] + sign * ux * (cap - 2 * tol), base[1] + sign * uy * (cap - 2 * tol)
                    if geom.fwinding(poly, px, py) == 0:
                        chk.violation('C07/outline/end-short', 'element %d end style %d: point %.4g beyond the end point (extension %.4g) is outside the outline' % (ei, end_t, cap - 2 * tol, cap), rp)
                        return
                px, py = base[0] + sign * ux * (cap + 3 * tol + 0.05 * hloc), base[1] + sign * uy * (cap + 3 * tol + 0.05 * hloc)
                dd, _k3, _s3 = dist_centre(px, py, False)
                if geom.fwinding(poly, px, py) != 0 and dd >= cap:
                    chk.violation('C07/outline/end-long', 'element %d end style %d: point %.4g beyond the end point (extension %.4g) is inside the outline' % (
                        ei, end_t, cap + 3 * tol + 0.05 * hloc, cap), rp)
                    return
        # (3) circular bends
        if spec['bend'] and hwo[0][1] == 0 and all(o == 0 for _h, o in hwo):
            R = e['bend_radius']
            for k in range(1, len(sp) - 1):
                a = (sp[k][0] - sp[k - 1][0], sp[k][1] - sp[k - 1][1])
                b = (sp[k + 1][0] - sp[k][0], sp[k + 1][1] - sp[k][1])
                la, lb = math.hypot(*a), math.hypot(*b)
                th = abs(math.atan2(a[0] * b[1] - a[1] * b[0], a[0] * b[0] + a[1] * b[1]))
                if th < 0.2 or la < 4 * R or lb < 4 * R or R <= hw[k]:
                    continue
                t0 = (a[0] / la, a[1] / la)
                t1 = (b[0] / lb, b[1] / lb)
                bx, by = t1[0] - t0[0], t1[1] - t0[1]
                bl = math.hypot(bx, by)
                bx, by = bx / bl, by / bl
                V = sp[k]
                mid = (V[0] + bx * (R / math.cos(th / 2) - R), V[1] + by * (R / math.cos(th / 2) - R))
                tip = (V[0] - bx * 0.9 * hw[k] / math.cos(th / 2), V[1] - by * 0.9 * hw[k] / math.cos(th / 2))
                if geom.fwinding(poly, mid[0], mid[1]) == 0:
                    chk.violation('C07/bend/arc-missing', 'circular bend (radius %g) at corner %d: the arc mid point (%.6g,%.6g) is outside the outline' % (R, k, mid[0], mid[1]), rp)
                    return
                # (the tip must not lie in the band of some other stretch of the same path that passes close to this corner)
                tip_free = dist_centre(tip[0], tip[1], True)[0] > max(hw) + 3 * tol
                if tip_free and geom.fwinding(poly, tip[0], tip[1]) != 0 and (R + hw[k]) * (1 / math.cos(th / 2) - 1) > 0.9 * hw[k] / math.cos(th / 2) * 0 + 4 * tol + 0.1 * hw[k] / math.cos(th / 2):
                    chk.violation('C07/bend/corner-not-rounded', 'circular bend (radius %g) at corner %d: the sharp outer corner (%.6g,%.6g) is still inside the outline' % (R, k, tip[0], tip[1]), rp)
                    return
                chk.cov('bends_checked')
        chk.cov('inside_tests', inside_tests)
        chk.cov('outside_tests', outside_tests)
        chk.cov('elements_checked')
        centres[ei] = (cl, hw[0], e)
    if fp['simple'] and not path_records(chk, c, evs, fp, centres, tol, rp):
        return
    chk.cov('cases_judged')
    if fp.get('taper_kink'):
        chk.cov('taper_kink_paths')
    if nontrivial:
        chk.fp(c.id)


def _hausdorff(A, B):
    """max over the vertices and segment mid points of A of the distance to polyline B, and vice versa"""
    def one(P, Q):
        worst = 0.0
        pts = list(P) + [((P[k][0] + P[k + 1][0]) / 2, (P[k][1] + P[k + 1][1]) / 2) for k in range(len(P) - 1)]
        for p in pts:
            d2 = min(geom.dist2_point_seg(p[0], p[1], Q[k][0], Q[k][1], Q[k + 1][0], Q[k + 1][1]) for k in range(len(Q) - 1))
            worst = max(worst, math.sqrt(d2))
        return worst
    return max(one(A, B), one(B, A))


def path_records(chk, c, evs, fp, centres, tol, rp):
    """a simple path saved as a GDSII / OASIS PATH record denotes the same region: the centre line, width and end style read back from the
    bytes (independent decoders) against the oracle's centre line and the specified width"""
    import gds_codec
    import oas_codec
    grid = 1e-3
    fh = {e['path']: e['hex'] for e in evs if e['op'] == 'filehex'}
    ws = [e for e in evs if e['op'] in ('write_gds', 'write_oas') and e.get('k') != 'call']
    if len(ws) != 2 or fh.get('p.gds') is None or fh.get('p.oas') is None:
        chk.harness_error('%s: PATH files missing' % c.id)
        return False
    try:
        g = gds_codec.decode(bytes.fromhex(fh['p.gds']))
        o = oas_codec.decode(bytes.fromhex(fh['p.oas']))
    except (gds_codec.GdsError, oas_codec.OasError) as ex:
        chk.violation('C07/path-record/decode', 'the file written for a simple path is rejected by the independent decoder: %s' % ex, rp)
        return False
    gp = [e for cc in g['cells'] for e in cc['elements'] if e['kind'] == 'path']
    op = [e for cc in o['cells'] for e in cc['elements'] if e['kind'] == 'path']
    nel = len(fp['elements'])
    if len(gp) != nel or len(op) != nel:
        chk.violation('C07/path-record/count', 'a simple path of %d elements was saved as %d GDSII and %d OASIS PATH records' % (nel, len(gp), len(op)), rp)
        return False
    for ei, (cl, hw, edump) in centres.items():
        spec = fp['elements'][ei]
        want_hw = hw / grid
        rmax = max([0.0] + [e_['bend_radius'] for e_ in fp['elements']])
        slack = tol + 2.2 * grid + 0.003 * rmax
        ext = (spec['ext'][0] / grid, spec['ext'][1] / grid)
        for fmt, el in (('GDSII', gp[ei]), ('OASIS', op[ei])):
            if fmt == 'GDSII':
                pts = [(x * grid, y * grid) for x, y in el['xy']]
                tagok = (el['layer'], el['datatype']) == tuple(spec['tag'])
                wok = abs(abs(el['width']) - 2 * want_hw) <= 1.0
                pt = {0: 0, 2: 2, 3: 4}[spec['end']]
                eok = el['pathtype'] == pt and (pt != 4 or (abs(el['bgnextn'] - ext[0]) <= 0.5 + 1e-9 and abs(el['endextn'] - ext[1]) <= 0.5 + 1e-9))
                wdesc = 'width %s pathtype %s extensions (%s, %s)' % (el['width'], el['pathtype'], el['bgnextn'], el['endextn'])
            else:
                pts = [(x * grid, y * grid) for x, y in el['pts']]
                tagok = (el['layer'], el['datatype']) == tuple(spec['tag'])
                wok = abs(el['halfwidth'] - want_hw) <= 0.5 + 1e-9
                wantext = {0: (0.0, 0.0), 2: (want_hw, want_hw), 3: ext}[spec['end']]
                eok = abs(el['ext'][0] - wantext[0]) <= 0.5 + 1e-9 and abs(el['ext'][1] - wantext[1]) <= 0.5 + 1e-9
                wdesc = 'half width %s extensions %s' % (el['halfwidth'], el['ext'])
            if not tagok:
                chk.violation('C07/path-record/tag', '%s PATH %d carries tag (%s, %s), element has %s' % (fmt, ei, el['layer'], el['datatype'], spec['tag']), rp)
                return False
            if not wok or not eok:
                chk.violation('C07/path-record/width-or-ends', '%s PATH %d: %s; the element has half width %.6g grid units, end style %d, extensions %s grid units' % (
                    fmt, ei, wdesc, want_hw, spec['end'], ext), rp)
                return False
            d = _hausdorff(pts, cl)
            if d > slack:
                chk.violation('C07/path-record/centre-line', '%s PATH %d: its point list is %.4g away from the centre line of the element (allowed %.4g)' % (fmt, ei, d, slack), rp)
                return False
            chk.cov('path_records_checked')
    return True


def work(rec, b, indices):
    cases = [make_case(i) for i in indices]
    ev = script.run_cases(rec, b, cases, shards=1)
    for c in cases:
        rec.evaluations += 1
        judge(rec, c, ev.get(c.id, []))


def run(tier):
    chk = vfw.Check('C07', tier)
    b = vfw.build()
    n = N[tier]
    vfw.run_sharded(chk, b, n, work)
    c = make_case(1)
    chk.sample({'case': c.id, 'elements': c.meta['path']['elements'], 'calls': [str(x)[:120] for x in c.meta['path']['calls']]})
    chk.rule = ('flexible paths of 1-3 elements (constant or tapering widths and offsets, all four join styles, flush/round/half-width/extended ends, '
                'circular bends) built by 1-5 construction calls drawn from segment(s)/horizontal/vertical/arc/turn/cubic/bezier/cubic_smooth/'
                'quadratic_smooth/interpolation/parametric/commands, segments >= 4 widths, turns <= 90 degrees. Monitors: (1) after every call the '
                'spine count equals every element\'s width/offset count; (2) with the element centre line rebuilt by the oracle from the observed spine '
                '(segments displaced by the interpolated offset, joined at intersections): points within 0.6 half widths of the centre line (foot '
                'strictly inside a segment) must be inside the outline, points farther than the join reach + 3 tolerances from the cap-extended '
                'centre line must be outside; end planes probed on the centre line; (3) circular bends: arc mid point inside, sharp outer corner '
                'outside when the bend fits. Non-trivial: >= 2 different construction calls, a taper, a non-zero offset or a sharp corner.')
    chk.assumptions = ['spine correctness itself is C15; simple-path PATH records are decided by C01/C03',
                       'reach = half width for round joins, half width / cos(turn/2) otherwise']
    chk.floor('cases_judged', chk.coverage.get('cases_judged', 0), int(0.9 * n))
    chk.floor('bends_checked', chk.coverage.get('bends_checked', 0), 50)
    chk.finish()


def replay(path):
    import c01
    return c01.replay(path)
