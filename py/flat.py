# Hand flattening of a library spec: composes the 2x3 placement matrices and repetition vectors of every level.
# Leaf path outlines are supplied by the caller (observed from gdstk's to_polygons on the *untransformed* leaf; their
# correctness is decided by C07/C08), everything else comes from the spec.
import math

import genlib
import geom


def leaf_polys(cell, ci, outlines, include_paths=True):
    """[(tag, pts)] of a cell's own shapes with their own repetitions expanded"""
    out = []
    for p in cell['polys']:
        for v in genlib.rep_offsets(p.get('rep')):
            out.append((tuple(p['tag']), [(x + v[0], y + v[1]) for x, y in p['pts']]))
    if include_paths:
        for kind, key in (('f', 'fpaths'), ('r', 'rpaths')):
            for pi, path in enumerate(cell[key]):
                for (tag, pts) in outlines.get((ci, kind, pi), []):
                    for v in genlib.rep_offsets(path.get('rep')):
                        out.append((tuple(tag), [(x + v[0], y + v[1]) for x, y in pts]))
    return out


def leaf_labels(cell):
    out = []
    for l in cell['labels']:
        for v in genlib.rep_offsets(l.get('rep')):
            out.append({'tag': tuple(l['tag']), 'text': l['text'], 'anchor': l['anchor'],
                        'M': geom.m_placement(l['mag'], l['xrefl'], l['rotation'], (l['origin'][0] + v[0], l['origin'][1] + v[1]))})
    return out


def ref_matrices(rf):
    base = geom.m_placement(rf['mag'], rf['xrefl'], rf['rotation'], rf['origin'])
    return [geom.m_mul(geom.m_translate(v), base) for v in genlib.rep_offsets(rf.get('rep'))]


def flatten_polys(lib, ci, depth, outlines, include_paths=True, paths_only=None):
    cell = lib['cells'][ci]
    out = leaf_polys(cell, ci, outlines, include_paths) if paths_only is None else paths_only(cell, ci)
    if depth != 0:
        for rf in cell['refs']:
            if rf['kind'] != 'cell':
                continue
            sub = flatten_polys(lib, rf['target'], depth - 1 if depth > 0 else -1, outlines, include_paths, paths_only)
            for M in ref_matrices(rf):
                for tag, pts in sub:
                    out.append((tag, [geom.m_apply(M, p) for p in pts]))
    return out


def flatten_labels(lib, ci, depth):
    cell = lib['cells'][ci]
    out = leaf_labels(cell)
    if depth != 0:
        for rf in cell['refs']:
            if rf['kind'] != 'cell':
                continue
            sub = flatten_labels(lib, rf['target'], depth - 1 if depth > 0 else -1)
            for M in ref_matrices(rf):
                for l in sub:
                    out.append({'tag': l['tag'], 'text': l['text'], 'anchor': l['anchor'], 'M': geom.m_mul(M, l['M'])})
    return out


def count_instances(lib, ci, depth=-1):
    """number of flattened copies of each cell's content (guards against combinatorial blow-up)"""
    cell = lib['cells'][ci]
    n = 1
    if depth != 0:
        for rf in cell['refs']:
            if rf['kind'] == 'cell':
                n += len(genlib.rep_offsets(rf.get('rep'))) * count_instances(lib, rf['target'], depth - 1 if depth > 0 else -1)
    return n


def polys_from_dump(plist, expand_rep=True):
    """[(tag, pts)] from dumped polygons, expanding attached repetitions with the oracle's own enumeration"""
    out = []
    for p in plist:
        pts = [(p['pts'][k], p['pts'][k + 1]) for k in range(0, len(p['pts']), 2)]
        rep = rep_from_dump(p.get('rep'))
        for v in (genlib.rep_offsets(rep) if expand_rep else [(0.0, 0.0)]):
            out.append(((p['layer'], p['type']), [(x + v[0], y + v[1]) for x, y in pts]))
    return out


def rep_from_dump(r):
    if r is None:
        return None
    if r['kind'] == 'explicit':
        o = r['offsets']
        return {'kind': 'explicit', 'offsets': [(o[k], o[k + 1]) for k in range(0, len(o), 2)]}
    return r


def canon_poly(pts, scale):
    """rotation-canonical tuple of vertices rounded to 1e-9 of the scale"""
    q = [(round(x / scale, 9), round(y / scale, 9)) for x, y in pts]
    n = len(q)
    if n == 0:
        return ()
    k = min(range(n), key=lambda i: q[i:] + q[:i])
    return tuple(q[k:] + q[:k])


def match_polys(A, B, tol=1e-9):
    """A, B: [(tag, pts)]. True when they are the same multiset of polygons (vertex lists equal to tol, same start vertex
    or any rotation of the cycle)."""
    if len(A) != len(B):
        return False
    scale = max([1.0] + [abs(v) for _, pts in A for p in pts for v in p])
    from collections import Counter
    ca = Counter((tag, len(pts)) for tag, pts in A)
    cb = Counter((tag, len(pts)) for tag, pts in B)
    if ca != cb:
        return False
    # bucket by tag and vertex count, then greedy matching with tolerance on a sort key
    def key(item):
        tag, pts = item
        cx = sum(p[0] for p in pts) / max(1, len(pts))
        cy = sum(p[1] for p in pts) / max(1, len(pts))
        return (tag, len(pts), round(cx / scale, 6), round(cy / scale, 6))
    used = [False] * len(B)
    Bk = sorted(range(len(B)), key=lambda i: key(B[i]))
    for tag, pts in sorted(A, key=key):
        found = False
        for i in Bk:
            if used[i]:
                continue
            t2, p2 = B[i]
            if t2 != tag or len(p2) != len(pts):
                continue
            if same_cycle(pts, p2, tol * scale):
                used[i] = True
                found = True
                break
        if not found:
            return False
    return True


def same_cycle(P, Q, tol):
    n = len(P)
    if n != len(Q):
        return False
    if n == 0:
        return True
    for s in range(n):
        if abs(P[0][0] - Q[s][0]) <= tol and abs(P[0][1] - Q[s][1]) <= tol:
            if all(abs(P[i][0] - Q[(s + i) % n][0]) <= tol and abs(P[i][1] - Q[(s + i) % n][1]) <= tol for i in range(n)):
                return True
    return False


def label_close(M1, M2, tol=1e-9):
    return geom.m_close(M1, M2, tol)
