# C02 - OASIS save/load round trip preserves the layout under every writer option.
#  For each generated library and option set (config flags, deflate level, circle tolerance):
#    build -> write_oas -> [bytes] -> oas_validate -> read_oas -> dump -> write_oas -> read_oas -> dump (-> third cycle)
#  Oracles: the canonical model of the *specification* of the library (py/oasmodel.from_spec: every coordinate rounded to the grid by
#  exact rational arithmetic) must equal the model of the re-loaded library; the second and third cycles must be fixpoints; the
#  signature reported by oas_validate must equal the CRC32 / byte sum of the file computed here; the independent strict decoder must
#  accept the file and see the same layout.
import math
import random
import zlib

import genlib
import oas_codec
import oasmodel
import script
import vfw
from script import Case, fl

N = {'quick': 3000, 'thorough': 60000}
FLAG_NAMES = ['PROPERTY_MAX_COUNTS', 'PROPERTY_TOP_LEVEL', 'PROPERTY_BOUNDING_BOX', 'PROPERTY_CELL_OFFSET', 'DETECT_RECTANGLES',
              'DETECT_TRAPEZOIDS', 'INCLUDE_CRC32', 'INCLUDE_CHECKSUM32']


def flag_bits():
    """config flag values from the public header (include/gdstk/oasis.hpp) - read once, by name"""
    import re
    txt = open(vfw.REPO + '/include/gdstk/oasis.hpp').read()
    out = {}
    for nm in FLAG_NAMES:
        m = re.search(r'OASIS_CONFIG_%s\s+(0x[0-9a-fA-F]+|\d+)' % nm, txt)
        out[nm] = int(m.group(1), 0)
    return out


def special_polygons(rnd, g):
    """shapes the writer may turn into RECTANGLE / TRAPEZOID / CTRAPEZOID / CIRCLE records"""
    out = []
    k = rnd.randrange(10)
    x, y = rnd.randrange(-100, 100), rnd.randrange(-100, 100)
    w, h = rnd.randrange(2, 40), rnd.randrange(2, 40)
    if k == 0:
        pts = [(x, y), (x + w, y), (x + w, y + h), (x, y + h)]
    elif k == 1:
        pts = [(x, y), (x, y + w), (x + w, y + w), (x + w, y)]          # square, clockwise
    elif k == 2:
        da, db = rnd.randrange(-h, h + 1), rnd.randrange(-h, h + 1)
        ww = w + 2 * h
        pts = [(x + max(da, 0), y + h), (x + ww + min(db, 0), y + h), (x + ww - max(db, 0), y), (x - min(da, 0), y)]
    elif k == 3:
        da, db = rnd.randrange(-w, w + 1), rnd.randrange(-w, w + 1)
        hh = h + 2 * w
        pts = [(x, y + max(da, 0)), (x, y + hh + min(db, 0)), (x + w, y + hh - max(db, 0)), (x + w, y - min(da, 0))]
    elif k == 4:
        t = rnd.randrange(26)
        ww, hh = (w + 2 * h, h) if t < 8 else (w, h + 2 * w)
        rel, _w, _h = oas_codec.ctrapezoid_points(t, ww, hh)
        pts = [(x + a, y + b) for a, b in rel]
        if rnd.random() < 0.5:
            pts = pts[::-1]
        s = rnd.randrange(len(pts))
        pts = pts[s:] + pts[:s]
    elif k == 5:
        pts = [(x, y), (x + w, y), (x, y + w)]
    elif k == 9:
        # corners off the grid that round in opposite directions: the box on the grid is one unit larger than the rounded difference
        pts = [(x - 0.4, y - 0.4), (x + w + 0.4, y - 0.4), (x + w + 0.4, y + h + 0.4), (x - 0.4, y + h + 0.4)]
    elif k == 8:
        # a sliver whose vertices lie near one arc of a large circle without going around it
        if rnd.random() < 0.5:
            ww, hh = rnd.randrange(8, 15), rnd.randrange(1, 3)
            pts = [(x, y), (x + ww // 2, y), (x + ww, y), (x + ww, y + hh), (x, y + hh)]
        else:
            # a crescent: 7-9 vertices on a 40-55 degree arc of a circle of radius 20-30, closed by the chord
            R_ = rnd.choice([20.0, 25.0, 30.0])
            n_ = rnd.randrange(7, 10)
            span = math.radians(rnd.uniform(40, 55))
            a0_ = rnd.uniform(0, 2 * math.pi)
            pts = [(x + R_ * math.cos(a0_ + span * i_ / (n_ - 1)), y + R_ * math.sin(a0_ + span * i_ / (n_ - 1))) for i_ in range(n_)]
    elif k == 7:
        # rectilinear with an odd number of vertices: the first vertex sits in the middle of an edge
        pts = [(x + w // 2 + 1, y), (x + w + 2, y), (x + w + 2, y + h), (x, y + h), (x, y)]
        if rnd.random() < 0.5:
            pts = [(x, y + 1), (x, y + h + 3), (x + w, y + h + 3), (x + w, y + h), (x + 3 * w, y + h), (x + 3 * w, y), (x, y)]
    else:
        # circle approximations: centre on or off the grid, radius 20..200 grid units, n points
        r = rnd.choice([20, 50, 127.3, 200])
        n = rnd.choice([16, 32, 64, 200])
        cx, cy = x + rnd.choice([0, 0.3, 0.25]), y + rnd.choice([0, 0.45])
        pts = [(cx + r * math.cos(2 * math.pi * i / n), cy + r * math.sin(2 * math.pi * i / n)) for i in range(n)]
    if len(set(pts)) < 3 or oasmodel.area2(pts) == 0:
        pts = [(x, y), (x + w, y), (x + w, y + h), (x, y + h)]
    out.append([(a * g, b * g) for a, b in pts])
    return out


def make_case(i, flagbits):
    sd = vfw.seed() * 1000003 + 20000 + i
    rnd = random.Random(sd)
    g = genlib.Gen(sd, dict(oas_props=True, gds_props=True, nonsimple=rnd.random() < 0.3, round_ends=False, label_transform=False, max_tag=2 ** 32 - 1,
                            ext_neg=rnd.random() < 0.5))
    lib = g.library()
    grid = lib['precision'] / lib['unit']
    for c in lib['cells']:
        for _ in range(rnd.randrange(0, 4)):
            for pts in special_polygons(rnd, grid):
                c['polys'].append({'tag': g.tag(), 'pts': pts, 'rep': g.repetition(grid) if rnd.random() < 0.3 else None, 'props': g.oas_props()})
    if rnd.random() < 0.12:
        # a frame around everything in one cell whose corners round in opposite directions: the cell's box on the grid is one unit wider
        # than the rounded difference of its corners (S_BOUNDING_BOX states the former)
        L = rnd.choice([10 ** 5, 10 ** 6]) + rnd.randrange(0, 1000)
        fr = [(-L - 0.4, -L - 0.4), (L + 0.4, -L - 0.4), (L + 0.4, L + 0.4), (-L - 0.4, L + 0.4)]
        rnd.choice(lib['cells'])['polys'].append({'tag': g.tag(), 'pts': [(a * grid, b * grid) for a, b in fr], 'rep': None, 'props': []})
    if lib.get('props') is None:
        lib['props'] = []
    # a referenced cell that is not added to the library: its references must survive as references by name
    if len(lib['cells']) > 1 and rnd.random() < 0.3:
        targets = sorted(set(rf['target'] for c_ in lib['cells'] for rf in c_['refs'] if rf['kind'] == 'cell'))
        if targets:
            lib['cells'][rnd.choice(targets)]['in_lib'] = False
    sel = rnd.random()
    if sel < 0.15:
        flags = 0
    elif sel < 0.3:
        flags = sum(flagbits.values())
    else:
        flags = sum(v for v in flagbits.values() if rnd.random() < 0.5)
    level = rnd.choice([0, 0, 1, 6, 9])
    # circle tolerance of the order of the grid: coarser values legitimately turn any small polygon into a circle
    tol = rnd.choice([0.0, 0.0, 0.5, 1.0, 2.0]) * grid
    c = Case('O%d' % i, timeout=120)
    genlib.emit_library(c, lib)
    # outlines of the paths that are not simple (they are written as polygons; what the outline should be is C07/C08's subject)
    fi = ri = 0
    want = []
    for ci, cell in enumerate(lib['cells']):
        for pi, fp in enumerate(cell['fpaths']):
            if not fp['simple']:
                c.op('to_polygons', 'f%d' % fi)
                want.append((ci, 'f', pi, 'f%d' % fi))
            fi += 1
        for pi, rp_ in enumerate(cell['rpaths']):
            if not rp_['simple']:
                c.op('to_polygons', 'r%d' % ri)
                want.append((ci, 'r', pi, 'r%d' % ri))
            ri += 1
    c.op('write_oas', 'l0', 'f1.oas', fl(tol), level, flags)
    c.op('filehex', 'f1.oas')
    c.op('oas_validate', 'f1.oas')
    c.op('read_oas', 'f1.oas', fl(lib['unit']), fl(0.0))       # same user unit as the original: the circle tolerance is in user units
    c.op('dump_lib', 'l1')
    c.op('write_oas', 'l1', 'f2.oas', fl(tol), level, flags)
    c.op('read_oas', 'f2.oas', fl(lib['unit']), fl(0.0))
    c.op('dump_lib', 'l2')
    third = rnd.random() < 0.3
    if third:
        c.op('write_oas', 'l2', 'f3.oas', fl(tol), level, flags)
        c.op('read_oas', 'f3.oas', fl(lib['unit']), fl(0.0))
        c.op('dump_lib', 'l3')
    c.meta = {'seed': sd, 'lib': lib, 'want': want, 'flags': flags, 'level': level, 'tol': tol, 'third': third, 'grid': grid}
    return c


def outlines_of(chk, c, evs):
    """{(cell index, 'f'|'r', path index): [(tag, points)]} for the paths that are not simple, from the to_polygons events of the case"""
    outl = {}
    tp = {e['h']: e for e in evs if e['op'] == 'to_polygons' and e.get('k') != 'call'}
    for ci, kind, pi, h in c.meta.get('want', []):
        e = tp.get(h)
        if e is None:
            chk.harness_error('%s: no outline for %s' % (c.id, h))
            return None
        outl[(ci, kind, pi)] = [((p['layer'], p['type']), [(p['pts'][k], p['pts'][k + 1]) for k in range(0, len(p['pts']), 2)]) for p in e['polys']]
    return outl


def judge(chk, c, evs, flagbits):
    m = c.meta
    rp = {'case': c.text(), 'meta': {'seed': m['seed'], 'flags': m['flags'], 'level': m['level'], 'tol': m['tol']}}
    if not script.check_exit(chk, c, evs):
        return
    ws = [e for e in evs if e['op'] == 'write_oas' and e.get('k') != 'call']
    rs = [e for e in evs if e['op'] == 'read_oas' and e.get('k') != 'call']
    ds = [e for e in evs if e['op'] == 'dump_lib']
    fh = [e for e in evs if e['op'] == 'filehex']
    va = [e for e in evs if e['op'] == 'oas_validate' and e.get('k') != 'call']
    ncyc = 3 if m['third'] else 2
    if len(ws) != ncyc or len(rs) != ncyc or len(ds) != ncyc or not fh or not va:
        chk.harness_error('%s: events missing' % c.id)
        return
    for k, w in enumerate(ws):
        if w['err'] != 0:
            chk.violation('C02/write/error-code', 'write_oas (cycle %d, flags 0x%02x, level %d) returned %d' % (k + 1, m['flags'], m['level'], w['err']), rp)
            return
    for k, r in enumerate(rs):
        if r['err'] not in (0, 4):          # MissingReference is expected for references to cells that are not in the library
            chk.violation('C02/read/error-code', 'read_oas (cycle %d) returned %d' % (k + 1, r['err']), rp)
            return
    outl = outlines_of(chk, c, evs)
    if outl is None:
        return
    exp = oasmodel.from_spec(m['lib'], outl)
    if outl:
        chk.cov('cases_with_non_simple_paths')
    grid_u = m['grid']
    circ = None
    if m['tol'] > 0:
        # written: radius and centre rounded to the grid; re-loaded: a polygon inscribed to the reader tolerance (one grid unit)
        circ = 3.0 + m['tol'] / grid_u
    got = [oasmodel.from_dump(d) for d in ds]
    if exp.get('ties'):
        chk.cov('cases_skipped_half_grid_ties')       # a coordinate exactly half way between grid points: either neighbour is a correct rounding
        chk.cov('cases_judged')
        return
    if got[0]['off_grid'] or (m['tol'] == 0 and got[0]['off_grid_circle_like']):
        chk.violation('C02/first-load/off-grid', 'first load: %d coordinates are not on the precision grid (worst %.3g grid units)' % (got[0]['off_grid'], got[0]['worst_off_grid']), rp)
        return
    diffs = oasmodel.compare(exp, got[0], 'first load', circ)
    for suffix, msg in diffs[:3]:
        chk.violation('C02/first-load/' + suffix, msg + ' [flags 0x%02x level %d tol %g]' % (m['flags'], m['level'], m['tol']), rp)
    if diffs:
        return
    for k in range(1, ncyc):
        diffs = oasmodel.compare(got[k - 1], got[k], 'cycle %d vs %d' % (k + 1, k), circ)
        for suffix, msg in diffs[:3]:
            chk.violation('C02/fixpoint/' + suffix, msg + ' [flags 0x%02x level %d tol %g]' % (m['flags'], m['level'], m['tol']), rp)
        if diffs:
            return
    # the bytes: signature and independent decode
    data = bytes.fromhex(fh[0]['hex'])
    want_crc = bool(m['flags'] & flagbits['INCLUDE_CRC32'])
    want_sum = bool(m['flags'] & flagbits['INCLUDE_CHECKSUM32']) and not want_crc
    v = va[0]
    if want_crc or want_sum:
        calc = (zlib.crc32(data[:-4]) & 0xFFFFFFFF) if want_crc else (sum(data[:-4]) & 0xFFFFFFFF)
        stored = int.from_bytes(data[-4:], 'little')
        if stored != calc:
            chk.violation('C02/signature/stored', 'the %s stored in the file is %08x, the bytes give %08x' % ('CRC32' if want_crc else 'CHECKSUM32', stored, calc), rp)
            return
        if not v['ok'] or v['signature'] != calc:
            chk.violation('C02/signature/validate', 'oas_validate -> ok=%s signature=%08x on a file whose %s is %08x' % (v['ok'], v['signature'], 'CRC32' if want_crc else 'CHECKSUM32', calc), rp)
            return
        chk.cov('signatures_checked')
    else:
        if data[-1] != 0:
            chk.violation('C02/signature/unrequested', 'no signature requested but the validation scheme byte is %d' % data[-1], rp)
            return
    try:
        dec = oas_codec.decode(data)
    except oas_codec.OasError as e:
        chk.violation('C02/bytes/strict-decode', 'the independent decoder rejects the file: %s [flags 0x%02x level %d]' % (e, m['flags'], m['level']), rp)
        return
    dm = oasmodel.from_decoded(dec)
    diffs = oasmodel.compare(exp, _circles_as_is(dm), 'decoded bytes', None) if m['tol'] == 0 else []
    for suffix, msg in diffs[:3]:
        chk.violation('C02/bytes/' + suffix, msg + ' [flags 0x%02x level %d]' % (m['flags'], m['level']), rp)
    if diffs:
        return
    for k, n in dec['stats'].items():
        if k.startswith('rec_') and k in ('rec_20', 'rec_23', 'rec_24', 'rec_25', 'rec_26', 'rec_27', 'rec_34'):
            chk.cov(k, n)
        if k.startswith('rep_type_'):
            chk.cov(k, n)
    chk.cov('cases_judged')
    chk.cov('flagset_%02x' % m['flags'])
    chk.cov('level_%d' % m['level'])
    special = any(dec['stats'].get(k) for k in ('rec_20', 'rec_23', 'rec_24', 'rec_25', 'rec_26', 'rec_27'))
    reps = any(k.startswith('rep_type_') for k in dec['stats'])
    if special or reps or dec['stats'].get('rec_28'):
        chk.fp('%s/%02x/%d' % (c.id, m['flags'], m['level']))


def _circles_as_is(dm):
    return dm


_FB = None


def work(rec, b, indices):
    global _FB
    if _FB is None:
        _FB = flag_bits()
    cases = [make_case(i, _FB) for i in indices]
    ev = script.run_cases(rec, b, cases, shards=1)
    for c in cases:
        rec.evaluations += 1
        judge(rec, c, ev.get(c.id, []), _FB)


def run(tier):
    chk = vfw.Check('C02', tier)
    b = vfw.build()
    fb = flag_bits()
    n = N[tier]
    vfw.run_sharded(chk, b, n, work)
    c = make_case(1, fb)
    chk.sample({'case': c.id, 'flags': c.meta['flags'], 'level': c.meta['level'], 'circle_tolerance': c.meta['tol'],
                'cells': [cc['name'] for cc in c.meta['lib']['cells']]})
    chk.rule = ('libraries of 1-5 cells with simple polygons (plus shapes aimed at the rectangle / trapezoid / 26 compact-trapezoid / circle detectors), '
                'simple flexible and robust paths with flush / half-width / extended ends, labels, references (by cell and by name, to cells outside the library), '
                'all repetition kinds, 32-bit tags, GDSII-style and free-form properties; written with random subsets of the 8 configuration flags, deflate levels '
                '{0,1,6,9}, circle tolerance {0, >0}; 2-3 save/load cycles. Oracles: exact-rational model of the specification vs model of the re-loaded library; '
                'fixpoint between cycles; CRC32 / CHECKSUM32 recomputed from the bytes vs stored value and oas_validate; independent strict decode of the bytes. '
                'Non-trivial: the file contains a detected special shape, a repetition or a property.')
    chk.assumptions = ['labels: text, position, tag, repetition and properties (OASIS TEXT records carry nothing else)', 'paths: simple paths only (outlines of the others are C07/C08)']
    chk.floor('cases_judged', chk.coverage.get('cases_judged', 0), int(0.9 * n))
    for k in ('rec_20', 'rec_26', 'rec_34', 'signatures_checked'):
        chk.floor(k, chk.coverage.get(k, 0), 20)
    chk.finish()


def replay(path):
    import c01
    return c01.replay(path)
