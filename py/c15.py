# C15 - curves and shape primitives stay within tolerance of the exact geometry.  The oracle tracks the curve state itself
# (end point, last control point, end tangent) and evaluates every section analytically.
import math
import random

import script
import vfw
from script import Case, fl

N = {'quick': 3000, 'thorough': 100000}
TOLS = [20.0, 1.0, 0.1, 1e-2, 1e-3, 1e-5]
FACTOR = 5.0      # "small fixed multiple" of the tolerance allowed between polyline and exact curve


# ------------------------------------------------------------------------------------ analytic helpers
def bez(C, t):
    pts = list(C)
    n = len(pts)
    for r in range(1, n):
        pts = [((1 - t) * pts[i][0] + t * pts[i + 1][0], (1 - t) * pts[i][1] + t * pts[i + 1][1]) for i in range(n - r)]
    return pts[0]


def dist_seg(p, a, b):
    dx, dy = b[0] - a[0], b[1] - a[1]
    l2 = dx * dx + dy * dy
    if l2 == 0:
        return math.hypot(p[0] - a[0], p[1] - a[1])
    t = max(0.0, min(1.0, ((p[0] - a[0]) * dx + (p[1] - a[1]) * dy) / l2))
    return math.hypot(p[0] - a[0] - t * dx, p[1] - a[1] - t * dy)


def _refine(f, v, a, b, lo, hi):
    def dd(t):
        p = f(t)
        return (p[0] - v[0]) ** 2 + (p[1] - v[1]) ** 2
    g = (math.sqrt(5) - 1) / 2
    c, d_ = b - g * (b - a), a + g * (b - a)
    fc, fd = dd(c), dd(d_)
    for _ in range(50):
        if fc < fd:
            b, d_, fd = d_, c, fc
            c = b - g * (b - a)
            fc = dd(c)
        else:
            a, c, fc = c, d_, fd
            d_ = a + g * (b - a)
            fd = dd(d_)
    t = (a + b) / 2
    for _ in range(8):      # Newton on (f(t)-v).f'(t) = 0 with numerical derivatives
        h = 1e-6 * max(hi - lo, 1e-9)
        t0, t1 = max(lo, t - h), min(hi, t + h)
        if t1 <= t0:
            break
        p0, p1, pm = f(t0), f(t1), f(t)
        d1 = ((p1[0] - p0[0]) / (t1 - t0), (p1[1] - p0[1]) / (t1 - t0))
        den = d1[0] * d1[0] + d1[1] * d1[1]
        if den == 0:
            break
        tn = min(hi, max(lo, t - ((pm[0] - v[0]) * d1[0] + (pm[1] - v[1]) * d1[1]) / den))
        if dd(tn) <= dd(t):
            t = tn
        else:
            break
    return t, math.sqrt(dd(t))


def locate(f, v, lo, hi, n=160, good=None):
    """smallest parameter in [lo,hi] at which f passes through v (every local minimum of the distance is refined, in order of
    increasing parameter; the first one with residual <= good wins), else the closest approach; returns (t, residual)"""
    ts = [lo + (hi - lo) * k / n for k in range(n + 1)]
    ds = []
    for t in ts:
        p = f(t)
        ds.append((p[0] - v[0]) ** 2 + (p[1] - v[1]) ** 2)
    best = None
    for k in range(n + 1):
        left = ds[k - 1] if k > 0 else float('inf')
        right = ds[k + 1] if k < n else float('inf')
        if ds[k] <= left and ds[k] <= right:
            t, res = _refine(f, v, ts[max(0, k - 1)], ts[min(n, k + 1)], lo, hi)
            if good is not None and res <= good:
                return t, res
            if best is None or res < best[1]:
                best = (t, res)
    return best


def ell_param(a, rx, ry):
    """parameter t of the point of the ellipse (rx cos t, ry sin t) seen from the centre under polar angle a (continuous in a)"""
    if rx == ry:
        return a
    t = math.atan2(rx * math.sin(a), ry * math.cos(a))
    return t + 2 * math.pi * round((a - t) / (2 * math.pi))


def param_fn(p, u):
    k = int(p[0])
    if k == 0:
        a = p[2] + u * (p[3] - p[2])
        return (p[1] * (math.cos(a) - math.cos(p[2])), p[1] * (math.sin(a) - math.sin(p[2])))
    if k == 1:
        return (p[1] * u, p[2] * u * u)
    if k == 2:
        return (p[1] * u, p[2] * math.sin(2 * math.pi * p[3] * u))
    return (p[1] * u + p[2] * u * u + p[3] * u ** 3, p[4] * u + p[5] * u * u + p[6] * u ** 3)


def param_grad(p, u):
    h = 1e-6
    a, b = param_fn(p, max(0.0, u - h)), param_fn(p, min(1.0, u + h))
    return (b[0] - a[0], b[1] - a[1])


def unit(v):
    ln = math.hypot(*v)
    return (v[0] / ln, v[1] / ln) if ln > 0 else None


# ------------------------------------------------------------------------------------ case generation
def gen_pt(rnd, base=(0.0, 0.0), span=12):
    return (base[0] + rnd.randrange(-span, span + 1) * 0.5, base[1] + rnd.randrange(-span, span + 1) * 0.5)


def make_case(i):
    sd = vfw.seed() * 1000003 + 150000 + i
    rnd = random.Random(sd)
    c = Case('V%d' % i, timeout=60)
    tol = rnd.choice(TOLS)
    P = gen_pt(rnd)
    c.op('curve', fl(P[0]), fl(P[1]), fl(tol))
    nsec = rnd.randrange(1, 7)
    secs = []
    # oracle state: P end point, ctrl = last control point (None = not defined by a polynomial section), tan = end tangent
    ctrl, tan = None, None
    for _ in range(nsec):
        kinds = ['segment', 'horizontal', 'vertical', 'cubic', 'quadratic', 'bezier', 'arc', 'parametric', 'interpolation', 'commands', 'segments']
        if ctrl is not None:
            kinds += ['cubic_smooth', 'cubic_smooth', 'quadratic_smooth', 'quadratic_smooth']
        if tan is not None:
            kinds += ['turn', 'turn']
        k = rnd.choice(kinds)
        rel = rnd.random() < 0.5
        ref = P if rel else (0.0, 0.0)

        def given(absolute):
            return (absolute[0] - ref[0], absolute[1] - ref[1])
        if k == 'segment':
            Q = gen_pt(rnd, P)
            c.op('cvcall', 'v0', 'segment1', int(rel), fl(given(Q)[0]), fl(given(Q)[1]))
            secs.append({'kind': 'line', 'pts': [Q], 'rel': rel, 'given': [given(Q)]})
            if Q != P:
                ctrl, tan = P, unit((Q[0] - P[0], Q[1] - P[1]))
            P = Q
        elif k == 'segments':
            Qs = [gen_pt(rnd, P) for _ in range(rnd.randrange(1, 5))]
            c.op('cvcall', 'v0', 'segment', int(rel), len(Qs), *[fl(v) for q in Qs for v in given(q)])
            secs.append({'kind': 'line', 'pts': Qs, 'rel': rel, 'given': [given(q) for q in Qs]})
            prev = ([P] + Qs)[-2]
            if Qs[-1] != prev:
                ctrl, tan = prev, unit((Qs[-1][0] - prev[0], Qs[-1][1] - prev[1]))
            else:
                ctrl, tan = None, None
            P = Qs[-1]
        elif k in ('horizontal', 'vertical'):
            d = rnd.randrange(-10, 11) * 0.5 or 1.5
            if k == 'horizontal':
                Q = (P[0] + d, P[1])
                c.op('cvcall', 'v0', 'horizontal', int(rel), fl(given(Q)[0]))
                secs.append({'kind': 'hv', 'axis': 0, 'rel': rel, 'given': given(Q)[0]})
            else:
                Q = (P[0], P[1] + d)
                c.op('cvcall', 'v0', 'vertical', int(rel), fl(given(Q)[1]))
                secs.append({'kind': 'hv', 'axis': 1, 'rel': rel, 'given': given(Q)[1]})
            ctrl, tan = P, unit((Q[0] - P[0], Q[1] - P[1]))
            P = Q
        elif k in ('cubic', 'quadratic', 'cubic_smooth', 'quadratic_smooth'):
            nsub = rnd.choice([1, 1, 2])
            per = {'cubic': 3, 'quadratic': 2, 'cubic_smooth': 2, 'quadratic_smooth': 1}[k]
            style = rnd.choice(['any', 'any', 'forward', 'cusp', 'coincident'])
            pts = []
            subs = []
            cur, cctrl = P, ctrl
            for _s in range(nsub):
                if style == 'forward':
                    d0 = rnd.uniform(0, 2 * math.pi)
                    q = []
                    base = cur
                    for j in range(per):
                        a = d0 + rnd.uniform(-0.6, 0.6)
                        ln = rnd.choice([1.0, 2.5, 6.0])
                        base = (base[0] + ln * math.cos(a), base[1] + ln * math.sin(a))
                        q.append(base)
                elif style == 'cusp':
                    q = [gen_pt(rnd, cur, 4) for _ in range(per)]
                    if per >= 2:
                        q[0], q[1] = q[1], q[0]
                elif style == 'coincident':
                    q = [gen_pt(rnd, cur, 6) for _ in range(per)]
                    if per >= 2:
                        q[0] = cur if rnd.random() < 0.5 else q[1]
                else:
                    q = [gen_pt(rnd, cur) for _ in range(per)]
                pts += q
                if k == 'cubic':
                    C = [cur, q[0], q[1], q[2]]
                elif k == 'quadratic':
                    C = [cur, q[0], q[1]]
                elif k == 'cubic_smooth':
                    C = [cur, (2 * cur[0] - cctrl[0], 2 * cur[1] - cctrl[1]), q[0], q[1]]
                else:
                    C = [cur, (2 * cur[0] - cctrl[0], 2 * cur[1] - cctrl[1]), q[0]]
                subs.append(C)
                cur, cctrl = C[-1], C[-2]
            c.op('cvcall', 'v0', k, int(rel), len(pts), *[fl(v) for q_ in pts for v in given(q_)])
            secs.append({'kind': 'bezier', 'subs': subs, 'name': k, 'rel': rel, 'given': [given(q_) for q_ in pts], 'per': per})
            P, ctrl = cur, cctrl
            tan = unit((P[0] - ctrl[0], P[1] - ctrl[1]))
            if tan is None:
                ctrl = None
        elif k == 'bezier':
            n = rnd.randrange(2, 6)
            q = [gen_pt(rnd, P) for _ in range(n)]
            c.op('cvcall', 'v0', 'bezier', int(rel), n, *[fl(v) for q_ in q for v in given(q_)])
            C = [P] + q
            secs.append({'kind': 'bezier', 'subs': [C], 'name': 'bezier', 'rel': rel, 'given': [given(q_) for q_ in q], 'per': n})
            P, ctrl = C[-1], C[-2]
            tan = unit((P[0] - ctrl[0], P[1] - ctrl[1]))
            if tan is None:
                ctrl = None
        elif k == 'arc':
            rx = rnd.choice([0.5, 2.0, 5.0, 10.0])
            ry = rx if rnd.random() < 0.5 else rx * rnd.choice([0.5, 0.1, 2.0, 0.01, 3.0])
            a0 = rnd.choice([0.0, math.pi / 2, -1.0, 2.5, 7.0])
            a1 = a0 + rnd.choice([1, -1]) * rnd.choice([0.1, math.pi / 2, math.pi, 3.0, 2 * math.pi, 7.5])
            rot = rnd.choice([0.0, 0.0, 0.4, -1.2, math.pi / 2])
            c.op('cvcall', 'v0', 'arc', 0, fl(rx), fl(ry), fl(a0), fl(a1), fl(rot))
            t0, t1 = ell_param(a0 - rot, rx, ry), ell_param(a1 - rot, rx, ry)
            cr, sr = math.cos(rot), math.sin(rot)
            e0 = (rx * math.cos(t0), ry * math.sin(t0))
            C0 = (P[0] - (e0[0] * cr - e0[1] * sr), P[1] - (e0[0] * sr + e0[1] * cr))
            secs.append({'kind': 'arc', 'C': C0, 'rx': rx, 'ry': ry, 't0': t0, 't1': t1, 'rot': rot, 'tol': tol})
            e1 = (rx * math.cos(t1), ry * math.sin(t1))
            P = (C0[0] + e1[0] * cr - e1[1] * sr, C0[1] + e1[0] * sr + e1[1] * cr)
            sgn = 1.0 if t1 > t0 else -1.0
            d1 = (-rx * math.sin(t1) * sgn, ry * math.cos(t1) * sgn)
            tan = unit((d1[0] * cr - d1[1] * sr, d1[0] * sr + d1[1] * cr))
            ctrl = None
            secs[-1]['step'] = 2 * math.acos(max(-1.0, 1 - tol / max(rx, ry)))
        elif k == 'turn':
            r = rnd.choice([0.5, 2.0, 5.0])
            ang = rnd.choice([1, -1]) * rnd.choice([0.3, math.pi / 2, math.pi, 4.0, 7.0])
            c.op('cvcall', 'v0', 'turn', 0, fl(r), fl(ang))
            n = (-tan[1], tan[0])
            s = 1.0 if ang > 0 else -1.0
            C0 = (P[0] + s * r * n[0], P[1] + s * r * n[1])
            secs.append({'kind': 'turn', 'C': C0, 'r': r, 'angle': ang, 'P': P, 'tan': tan, 'prev_step': secs[-1].get('step', 0.0) if secs else 0.0})
            ca, sa = math.cos(ang), math.sin(ang)
            v = (P[0] - C0[0], P[1] - C0[1])
            P = (C0[0] + v[0] * ca - v[1] * sa, C0[1] + v[0] * sa + v[1] * ca)
            tan = (tan[0] * ca - tan[1] * sa, tan[0] * sa + tan[1] * ca)
            ctrl = None
            secs[-1]['step'] = 2 * math.acos(max(-1.0, 1 - tol / r))
        elif k == 'parametric':
            fk = rnd.randrange(4)
            blk = {0: [0, rnd.choice([2.0, 6.0]), rnd.choice([0.0, 1.0]), rnd.choice([2.0, -2.5, 5.0])],
                   1: [1, rnd.choice([4.0, -6.0]), rnd.choice([3.0, -2.0])],
                   2: [2, rnd.choice([6.0, 10.0]), rnd.choice([1.0, 2.0]), rnd.choice([0.5, 1.0, 1.5])],
                   3: [3, 3.0, -2.0, 4.0, 1.0, 5.0, -3.0]}[fk]
            c.op('cvcall', 'v0', 'parametric', 1, len(blk), *[fl(x) for x in blk])
            secs.append({'kind': 'param', 'blk': blk, 'ref': P})
            e = param_fn(blk, 1.0)
            g = param_grad(blk, 1.0)
            P = (P[0] + e[0], P[1] + e[1])
            tan = unit(g)
            ctrl = None
        elif k == 'interpolation':
            n = rnd.randrange(1, 5)
            q = []
            cur = P
            for _j in range(n):
                nx = gen_pt(rnd, cur, 8)
                if nx == cur:
                    nx = (cur[0] + 1.5, cur[1] + 0.5)
                q.append(nx)
                cur = nx
            toks = [n] + [fl(v) for q_ in q for v in given(q_)]
            chain_ = [P] + q
            for _j in range(n + 1):
                con = rnd.random() < 0.2
                # a constrained direction stays within 2.2 rad of the neighbouring chord (Hobby's velocity formulas are
                # singular when direction and chord are exactly opposite)
                a_, b_ = (chain_[_j], chain_[_j + 1]) if _j < n else (chain_[_j - 1], chain_[_j])
                base_ = math.atan2(b_[1] - a_[1], b_[0] - a_[0])
                ang_ = base_ + rnd.choice([0.0, 1.0, -2.0, 0.5, -0.7, 2.2])
                for a2_, b2_ in ((chain_[max(0, _j - 1)], chain_[_j]), (chain_[_j], chain_[min(n, _j + 1)])):
                    if a2_ != b2_:
                        d_ = math.atan2(b2_[1] - a2_[1], b2_[0] - a2_[0]) - ang_
                        if abs(math.atan2(math.sin(d_), math.cos(d_))) > 2.3:
                            con = False
                toks += [int(con), fl(ang_)]
            for _j in range(n + 1):
                toks += [fl(rnd.choice([1.0, 1.0, 2.0])), fl(rnd.choice([1.0, 1.0, 0.75]))]
            toks += [fl(rnd.choice([1.0, 0.5])), fl(rnd.choice([1.0, 2.0])), 0]
            c.op('cvcall', 'v0', 'interpolation', int(rel), *toks)
            secs.append({'kind': 'interp', 'pts': q, 'rel': rel, 'given': [given(q_) for q_ in q]})
            P = q[-1]
            ctrl, tan = None, None
        else:
            # command string: L/l, H/h, V/v, C/c, Q/q
            items = []
            sub = []
            cur = P
            for _j in range(rnd.randrange(1, 4)):
                ck = rnd.choice('LlHhVvCcQq')
                r_ = ck.islower()
                rf = cur if r_ else (0.0, 0.0)
                if ck in 'Ll':
                    Q = gen_pt(rnd, cur)
                    items += [ck, Q[0] - rf[0], Q[1] - rf[1]]
                    sub.append(('line', [Q], cur, ck, [Q[0] - rf[0], Q[1] - rf[1]]))
                    cur = Q
                elif ck in 'Hh':
                    Q = (cur[0] + rnd.choice([1.5, -2.0, 4.0]), cur[1])
                    items += [ck, Q[0] - rf[0]]
                    sub.append(('line', [Q], cur, ck, [Q[0] - rf[0]]))
                    cur = Q
                elif ck in 'Vv':
                    Q = (cur[0], cur[1] + rnd.choice([1.5, -2.0, 4.0]))
                    items += [ck, Q[1] - rf[1]]
                    sub.append(('line', [Q], cur, ck, [Q[1] - rf[1]]))
                    cur = Q
                elif ck in 'Cc':
                    q = [gen_pt(rnd, cur) for _ in range(3)]
                    items += [ck] + [v - rf[j % 2] for q_ in q for j, v in enumerate(q_)]
                    sub.append(('bezier', [cur] + q, cur, ck, [v - rf[j % 2] for q_ in q for j, v in enumerate(q_)]))
                    cur = q[-1]
                else:
                    q = [gen_pt(rnd, cur) for _ in range(2)]
                    items += [ck] + [v - rf[j % 2] for q_ in q for j, v in enumerate(q_)]
                    sub.append(('bezier', [cur] + q, cur, ck, [v - rf[j % 2] for q_ in q for j, v in enumerate(q_)]))
                    cur = q[-1]
            c.op('cvcall', 'v0', 'commands', 0, len(items), *[('@' + x) if isinstance(x, str) else fl(x) for x in items])
            secs.append({'kind': 'commands', 'sub': sub, 'nitems': len(items)})
            P = cur
            last = sub[-1][:3]
            if last[0] == 'bezier':
                ctrl = last[1][-2]
                tan = unit((P[0] - ctrl[0], P[1] - ctrl[1]))
                if tan is None:
                    ctrl = None
            else:
                ctrl = last[2] if last[2] != P else None
                tan = unit((P[0] - last[2][0], P[1] - last[2][1])) if ctrl is not None else None
        secs[-1]['end'] = P
    # primitives
    prims = []
    pk = rnd.choice(['rectangle', 'cross', 'regular', 'ellipse', 'ring', 'slice', 'racetrack', 'fillet'])
    ptol = rnd.choice([1.0, 0.1, 1e-2, 1e-3])
    if pk == 'rectangle':
        a, b = gen_pt(rnd), gen_pt(rnd)
        c.op('prim', 'rectangle', fl(a[0]), fl(a[1]), fl(b[0]), fl(b[1]))
        prims.append(('rectangle', a, b))
    elif pk == 'cross':
        ce = gen_pt(rnd)
        full, arm = rnd.choice([4.0, 10.0]), rnd.choice([0.5, 1.0, 2.0])
        c.op('prim', 'cross', fl(ce[0]), fl(ce[1]), fl(full), fl(arm))
        prims.append(('cross', ce, full, arm))
    elif pk == 'regular':
        ce = gen_pt(rnd)
        side, n, rot = rnd.choice([1.0, 2.5]), rnd.randrange(3, 9), rnd.choice([0.0, 0.3])
        c.op('prim', 'regular', fl(ce[0]), fl(ce[1]), fl(side), n, fl(rot))
        prims.append(('regular', ce, side, n, rot))
    elif pk in ('ellipse', 'ring', 'slice'):
        ce = gen_pt(rnd)
        rx = rnd.choice([1.0, 5.0, 10.0])
        ry = rx * rnd.choice([1.0, 0.5, 0.1, 0.02])
        # rings: the inner ellipse has its own aspect ratio (also elongated along the other axis than the outer one)
        irx, iry = (0.0, 0.0) if pk != 'ring' else (rx * rnd.choice([0.5, 0.1, 0.7]), ry * rnd.choice([0.5, 0.8, 0.1]))
        a0, a1 = (0.0, 0.0) if pk != 'slice' else (rnd.choice([0.0, 0.5, -1.0]), rnd.choice([0.1, 1.0, 2.5, 4.0]))
        c.op('prim', 'ellipse', fl(ce[0]), fl(ce[1]), fl(rx), fl(ry), fl(irx), fl(iry), fl(a0), fl(a1), fl(ptol))
        prims.append((pk, ce, rx, ry, irx, iry, a0, a1, ptol))
    elif pk == 'racetrack':
        ce = gen_pt(rnd)
        ln, r, vert = rnd.choice([4.0, 10.0]), rnd.choice([1.0, 3.0]), rnd.random() < 0.5
        c.op('prim', 'racetrack', fl(ce[0]), fl(ce[1]), fl(ln), fl(r), fl(0.0), int(vert), fl(ptol))
        prims.append(('racetrack', ce, ln, r, vert, ptol))
    else:
        w, h, r = rnd.choice([6.0, 10.0]), rnd.choice([4.0, 8.0]), rnd.choice([0.5, 1.0, 1.5])
        c.op('prim', 'fillet_poly', 4, fl(0.0), fl(0.0), fl(w), fl(0.0), fl(w), fl(h), fl(0.0), fl(h), 1, fl(r), fl(ptol))
        prims.append(('fillet', w, h, r, ptol))
    c.meta = {'seed': sd, 'tol': tol, 'secs': secs, 'prims': prims}
    return c


# ------------------------------------------------------------------------------------ judging
def check_on_curve(f, verts, start, tol, scale, what, doubling_back, report, lo=0.0, hi=1.0):
    """verts: new vertices; the polyline starts at 'start' (= f(lo))"""
    t_prev = lo
    prev = start
    for v in verts:
        # consecutive vertices are close in parameter: search expanding windows so that a tight loop or cusp of the exact curve
        # (which passes near the same place again a little later) is not mistaken for the vertex's own position
        t, res = t_prev, float('inf')
        for w, nn in ((1e-3, 24), (1e-2, 24), (1e-1, 48), (1.0, 160)):
            t, res = locate(f, v, t_prev, min(hi, t_prev + w * (hi - lo)), n=nn, good=1e-7 * scale)
            if res <= 1e-7 * scale or t_prev + w * (hi - lo) >= hi:
                break
        if res > 1e-7 * scale:
            # near a cusp the exact curve can pass the same place twice within one cell of the coarse scan: look again on a fine grid
            for span in (0.02, 0.3, 1.0):
                t, res = locate(f, v, t_prev, min(hi, t_prev + span * (hi - lo)), n=4000, good=1e-7 * scale)
                if res <= 1e-7 * scale:
                    break
        if res > 1e-7 * scale:
            # perhaps the parameter went backwards: look on the whole range to tell the two failures apart
            t2, res2 = locate(f, v, lo, hi, good=1e-7 * scale)
            if res2 <= 1e-7 * scale:
                report('order', '%s: vertex (%.9g,%.9g) lies on the curve at parameter %.6f, before the previous vertex (%.6f)' % (what, v[0], v[1], t2, t_prev))
            else:
                report('off-curve', '%s: vertex (%.9g,%.9g) is %.3g away from the exact curve' % (what, v[0], v[1], res2))
            return None
        if not doubling_back:
            for k in range(1, 8):
                tm = t_prev + (t - t_prev) * k / 8
                d = dist_seg(f(tm), prev, v)
                if d > FACTOR * tol + 1e-9 * scale:
                    report('deviation', '%s: the exact curve at parameter %.6f is %.4g from the polyline (tolerance %g)' % (what, tm, d, tol))
                    return None
        t_prev, prev = t, v
    return t_prev


def split_at(new, idx, endp, scale):
    j = idx
    while j < len(new) and math.hypot(new[j][0] - endp[0], new[j][1] - endp[1]) > 1e-12 * scale:
        j += 1
    return j


def judge(chk, c, evs):
    m = c.meta
    rp = {'case': c.text(), 'meta': {'seed': m['seed'], 'tol': m['tol']}}
    if not script.check_exit(chk, c, evs):
        return
    calls = [e for e in evs if e['op'] == 'cvcall' and e.get('k') != 'call']
    if len(calls) != len(m['secs']):
        chk.harness_error('%s: %d results for %d sections' % (c.id, len(calls), len(m['secs'])))
        return
    tol = m['tol']
    first = [l for l in c.lines if l.startswith('curve ')][0].split()
    cur = (float(first[1]), float(first[2]))
    ctrl, tan, prev_step = None, None, 0.0      # state rebuilt from what was observed so far
    dependent = False
    coincident = False
    for sec, e in zip(m['secs'], calls):
        new = [(e['new'][k], e['new'][k + 1]) for k in range(0, len(e['new']), 2)]
        kind = sec['kind']
        name = e['name']
        failed = [False]

        def report(suffix, msg):
            failed[0] = True
            chk.violation('C15/%s/%s' % (name, suffix), msg + ' (tolerance %g)' % tol, rp)
        if any(not (math.isfinite(v[0]) and math.isfinite(v[1])) for v in new):
            report('non-finite', '%s produced a non-finite vertex' % name)
            return
        if not new:
            report('no-vertices', '%s appended no vertex' % name)
            return
        ref = cur if sec.get('rel') else (0.0, 0.0)
        scale = max(1.0, abs(cur[0]), abs(cur[1]), max(abs(v) for p_ in new for v in p_))
        step = 0.0
        if kind in ('line', 'hv'):
            if kind == 'hv':
                g = sec['given']
                want = [(ref[0] + g if sec['rel'] else g, cur[1])] if sec['axis'] == 0 else [(cur[0], ref[1] + g if sec['rel'] else g)]
            else:
                want = [(ref[0] + g[0], ref[1] + g[1]) for g in sec['given']]
            if len(new) != len(want) or any(math.hypot(a[0] - b[0], a[1] - b[1]) > 1e-12 * scale for a, b in zip(new, want)):
                report('vertices', '%s appended %s, expected %s' % (name, new[:3], want[:3]))
                return
            prevp = ([cur] + want)[-2]
            endp = want[-1]
            ctrl = prevp        # (Curve::segment stores the point before the last one, also when the segment has no length)
            tan = unit((endp[0] - prevp[0], endp[1] - prevp[1]))
        elif kind == 'bezier':
            pts = [(ref[0] + g[0], ref[1] + g[1]) for g in sec['given']]
            per = sec['per']
            groups = [pts[k0:k0 + per] for k0 in range(0, len(pts), per)]
            errors = []
            state = {}

            def controls(q, start, cctrl):
                if name == 'cubic':
                    return [start, q[0], q[1], q[2]]
                if name == 'quadratic':
                    return [start, q[0], q[1]]
                if name == 'cubic_smooth':
                    return [start, (2 * start[0] - cctrl[0], 2 * start[1] - cctrl[1]), q[0], q[1]]
                if name == 'quadratic_smooth':
                    return [start, (2 * start[0] - cctrl[0], 2 * start[1] - cctrl[1]), q[0]]
                return [start] + q

            def solve(gi, idx, start, cctrl):
                """assign the vertices new[idx:] to sub-sections gi.. ; the last vertex of a sub-section is its end point (parameter 1
                by definition), the ones before it must lie on it with increasing parameters; earlier coincidences with the end
                point are resolved by trying every candidate"""
                nonlocal coincident
                C = controls(groups[gi], start, cctrl)
                endp = C[-1]
                last_sub = gi == len(groups) - 1
                cands = [len(new) - 1] if last_sub else [jx for jx in range(idx, len(new)) if math.hypot(new[jx][0] - endp[0], new[jx][1] - endp[1]) <= 1e-12 * scale]
                if last_sub and math.hypot(new[-1][0] - endp[0], new[-1][1] - endp[1]) > 1e-12 * scale:
                    errors.append(('end-point', '%s ends at (%.12g,%.12g), requested (%.12g,%.12g)' % (name, new[-1][0], new[-1][1], endp[0], endp[1])))
                    return False
                if not cands or cands[0] < idx:
                    errors.append(('end-point', '%s: no vertex at the requested end (%.12g,%.12g) of a sub-section' % (name, endp[0], endp[1])))
                    return False
                d = [(C[k + 1][0] - C[k][0], C[k + 1][1] - C[k][1]) for k in range(len(C) - 1)]
                if any(v == (0.0, 0.0) for v in d):
                    coincident = True
                dn = [v for v in d if v != (0.0, 0.0)]
                back = any(a[0] * b[0] + a[1] * b[1] <= 0 for ii, a in enumerate(dn) for b in dn[ii + 1:]) or not dn
                for jn in cands:
                    if jn < idx:
                        continue
                    ok = True
                    if len(set(C)) > 1:
                        got = []
                        inner = new[idx:jn]
                        tl = check_on_curve(lambda t, C=C: bez(C, t), inner, start, tol, scale, name, back, lambda a, b: got.append((a, b))) if inner else 0.0
                        if tl is None:
                            errors.extend(got)
                            ok = False
                        elif not back:
                            # the closing chord (last inner vertex -> end point) against the exact curve
                            prevv = inner[-1] if inner else start
                            for kk in range(1, 8):
                                tm = tl + (1 - tl) * kk / 8
                                dv = dist_seg(bez(C, tm), prevv, endp)
                                if dv > FACTOR * tol + 1e-9 * scale:
                                    errors.append(('deviation', '%s: the exact curve at parameter %.6f is %.4g from the polyline' % (name, tm, dv)))
                                    ok = False
                                    break
                            if ok:
                                chk.cov('deviation_checked_sections')
                    if not ok:
                        continue
                    if last_sub:
                        state['end'] = (endp, C[-2])
                        return True
                    if solve(gi + 1, jn + 1, endp, C[-2]):
                        return True
                return False
            if not solve(0, 0, cur, ctrl):
                suffix, msg = errors[0] if errors else ('vertices', '%s: vertices cannot be assigned to the requested sub-sections' % name)
                report(suffix, msg)
                return
            endp, cctrl = state['end']
            ctrl = cctrl
            tan = unit((endp[0] - ctrl[0], endp[1] - ctrl[1]))
            if tan is None:
                ctrl = None
            if name in ('cubic_smooth', 'quadratic_smooth'):
                dependent = True
        elif kind == 'arc':
            rx, ry, t0, t1, rot = sec['rx'], sec['ry'], sec['t0'], sec['t1'], sec['rot']
            cr, sr = math.cos(rot), math.sin(rot)
            e0 = (rx * math.cos(t0), ry * math.sin(t0))
            C0 = (cur[0] - (e0[0] * cr - e0[1] * sr), cur[1] - (e0[0] * sr + e0[1] * cr))

            def f(u, C0=C0, rx=rx, ry=ry, t0=t0, t1=t1, cr=cr, sr=sr):
                t = t0 + (t1 - t0) * u
                x, y = rx * math.cos(t), ry * math.sin(t)
                return (C0[0] + x * cr - y * sr, C0[1] + x * sr + y * cr)
            endp = f(1.0)
            if math.hypot(new[-1][0] - endp[0], new[-1][1] - endp[1]) > 1e-9 * (scale + rx + ry):
                report('end-point', 'arc ends at (%.12g,%.12g), the requested arc ends at (%.12g,%.12g)' % (new[-1][0], new[-1][1], endp[0], endp[1]))
                return
            if check_on_curve(f, new, cur, tol, scale + rx + ry, name, False, report) is None:
                return
            chk.cov('deviation_checked_sections')
            if rx != ry:
                chk.cov('elliptical_arcs')
            sgn = 1.0 if t1 > t0 else -1.0
            d1 = (-rx * math.sin(t1) * sgn, ry * math.cos(t1) * sgn)
            tan = unit((d1[0] * cr - d1[1] * sr, d1[0] * sr + d1[1] * cr))
            ctrl = None
            # a following turn takes its direction from the last chord: allow the direction change over the last sampling step
            # the direction of the last chord can differ from the end tangent by the rotation of the tangent over the last step
            def tang(u, rx=rx, ry=ry, t0=t0, t1=t1):
                t = t0 + (t1 - t0) * u
                return (-rx * math.sin(t), ry * math.cos(t))
            ua, ub = tang(1.0 - 1.0 / len(new)), tang(1.0)
            step = abs(math.atan2(ua[0] * ub[1] - ua[1] * ub[0], ua[0] * ub[0] + ua[1] * ub[1])) + 1e-6
        elif kind == 'turn':
            r, ang = sec['r'], sec['angle']
            s_ = 1.0 if ang > 0 else -1.0
            if tan is None:
                # the previous section has no direction (a zero-length segment, an interpolation): the API does not say where a turn starts
                # from then - the rest of this curve is not judged
                chk.cov('curves_cut_at_turn_without_direction')
                return
            # ideal circle from the tracked end tangent; the start tangent may differ by one sampling step of the previous section
            pts = [cur] + new
            # centre from the first chord: perpendicular bisector at distance r
            # verify: all points at distance r from one centre c0 = cur + r * n(theta)
            best = None
            nrm = (-tan[1], tan[0])
            base = math.atan2(s_ * nrm[1], s_ * nrm[0])
            slack = prev_step + 1e-6
            # the centre direction must be within slack of base; solve it from the last vertex
            cands = []
            if len(pts) >= 3:
                A, B_, Cc_ = pts[0], pts[len(pts) // 2], pts[-1]
                dd_ = 2 * (A[0] * (B_[1] - Cc_[1]) + B_[0] * (Cc_[1] - A[1]) + Cc_[0] * (A[1] - B_[1]))
                if abs(dd_) > 1e-9 * r * r:
                    ux = ((A[0] ** 2 + A[1] ** 2) * (B_[1] - Cc_[1]) + (B_[0] ** 2 + B_[1] ** 2) * (Cc_[1] - A[1]) + (Cc_[0] ** 2 + Cc_[1] ** 2) * (A[1] - B_[1])) / dd_
                    uy = ((A[0] ** 2 + A[1] ** 2) * (Cc_[0] - B_[0]) + (B_[0] ** 2 + B_[1] ** 2) * (A[0] - Cc_[0]) + (Cc_[0] ** 2 + Cc_[1] ** 2) * (B_[0] - A[0])) / dd_
                    cands.append((ux, uy))
            cands.append((cur[0] + s_ * r * nrm[0], cur[1] + s_ * r * nrm[1]))     # the ideal centre (full turns, two-point arcs)
            for cc in cands:
                if all(abs(math.hypot(p_[0] - cc[0], p_[1] - cc[1]) - r) <= 1e-7 * max(r, scale) for p_ in pts):
                    th = math.atan2(cc[1] - cur[1], cc[0] - cur[0])
                    dth = abs(math.atan2(math.sin(th - base), math.cos(th - base)))
                    if best is None or dth < best[0]:
                        best = (dth, cc)
            if best is None:
                report('radius', 'turn(radius %g, angle %g): the vertices do not lie on a circle of the requested radius through the start point' % (r, ang))
                return
            if best[0] > slack:
                report('start-tangent', 'turn starts %.5f rad away from the end tangent of the previous section (allowed: one sampling step = %.5f)' % (best[0], slack))
                return
            cc = best[1]
            a_s = math.atan2(cur[1] - cc[1], cur[0] - cc[0])
            a_e = math.atan2(new[-1][1] - cc[1], new[-1][0] - cc[0])
            swept = a_e - a_s
            # compare modulo 2 pi with the requested angle
            diff = math.atan2(math.sin(swept - ang), math.cos(swept - ang))
            # (the centre is reconstructed from three vertices that span as little as 0.3 rad: its own error is of the order of 1e-7 / angle)
            if abs(diff) > 1e-6 + 8e-7 * max(r, scale) / r:         # (vertices are accepted within 1e-7 max(r, scale) of the circle: so is the centre)
                report('angle', 'turn sweeps %.9f rad (mod 2 pi), requested %.9f' % (swept, ang))
                return
            # vertices in order along the arc
            # (about the reconstructed centre the sweep is the requested angle up to the difference accepted above: the curve the vertices
            # are located on ends where the last vertex is, not that difference short of it)
            def f(u, cc=cc, a_s=a_s, ang=ang + diff, r=r):
                a = a_s + ang * u
                return (cc[0] + r * math.cos(a), cc[1] + r * math.sin(a))
            if check_on_curve(f, new, cur, tol, scale + r, name, False, report) is None:
                return
            radv = (new[-1][0] - cc[0], new[-1][1] - cc[1])
            tan = unit((-radv[1] * s_, radv[0] * s_))
            ctrl = None
            step = 2 * math.acos(max(-1.0, 1 - tol / r))
            dependent = True
        elif kind == 'param':
            blk = sec['blk']
            rf = cur

            def f(u, blk=blk, rf=rf):
                q = param_fn(blk, u)
                return (rf[0] + q[0], rf[1] + q[1])
            endp = f(1.0)
            if math.hypot(new[-1][0] - endp[0], new[-1][1] - endp[1]) > 1e-9 * (scale + abs(blk[1])):
                report('end-point', 'parametric ends at (%.12g,%.12g), the function ends at (%.12g,%.12g)' % (new[-1][0], new[-1][1], endp[0], endp[1]))
                return
            if check_on_curve(f, new, cur, tol, scale + abs(blk[1]) * 2, name, True, report) is None:
                return
            # a following turn continues in the direction in which the section ends *as sampled* (its last chord)
            prevv = new[-2] if len(new) >= 2 else cur
            tan = unit((new[-1][0] - prevv[0], new[-1][1] - prevv[1])) or unit(param_grad(blk, 1.0))
            ctrl = None
            step = 1e-3
        elif kind == 'interp':
            want = [(ref[0] + g[0], ref[1] + g[1]) for g in sec['given']]
            jn = 0
            for q in want:
                jn = split_at(new, jn, q, scale * 1000)
                if jn >= len(new):
                    report('misses-point', 'interpolation does not pass through (%.9g,%.9g) (in order)' % q)
                    return
            if math.hypot(new[-1][0] - want[-1][0], new[-1][1] - want[-1][1]) > 1e-9 * scale:
                report('end-point', 'interpolation ends at %s, last point given %s' % (new[-1], want[-1]))
                return
            ctrl, tan = None, None
        elif kind == 'commands':
            if e['processed'] != sec['nitems']:
                report('processed', 'commands processed %d of %d items' % (e['processed'], sec['nitems']))
                return
            subs_ = sec['sub']
            errors = []
            state = {}

            def solve_cmd(ci, idx, start, cctrl, ctan):
                if ci == len(subs_):
                    if idx != len(new):
                        errors.append(('extra-vertices', 'command string: %d unexpected vertices' % (len(new) - idx)))
                        return False
                    state['end'] = (cctrl, ctan)
                    return True
                sk, _d, _st, ck, vals = subs_[ci]
                rf = start if ck.islower() else (0.0, 0.0)
                if ck in 'LlHhVv':
                    if ck in 'Ll':
                        want = (rf[0] + vals[0], rf[1] + vals[1])
                    elif ck in 'Hh':
                        want = (rf[0] + vals[0], start[1])
                    else:
                        want = (start[0], rf[1] + vals[0])
                    if idx >= len(new) or math.hypot(new[idx][0] - want[0], new[idx][1] - want[1]) > 1e-12 * scale:
                        errors.append(('vertices', 'command %s: expected vertex %s, found %s' % (ck, want, new[idx] if idx < len(new) else None)))
                        return False
                    return solve_cmd(ci + 1, idx + 1, want, start if start != want else None, unit((want[0] - start[0], want[1] - start[1])))
                q = [(rf[0] + vals[k], rf[1] + vals[k + 1]) for k in range(0, len(vals), 2)]
                C = [start] + q
                endp = C[-1]
                cands = [jx for jx in range(idx, len(new)) if math.hypot(new[jx][0] - endp[0], new[jx][1] - endp[1]) <= 1e-12 * scale]
                if not cands:
                    errors.append(('end-point', 'command %s: no vertex at the requested end %s' % (ck, endp)))
                    return False
                for jn in cands:
                    got = []
                    inner = new[idx:jn]
                    if len(set(C)) > 1 and inner and check_on_curve(lambda t, C=C: bez(C, t), inner, start, tol, scale, name, True, lambda a, b: got.append((a, b))) is None:
                        errors.extend(got)
                        continue
                    nt = unit((endp[0] - C[-2][0], endp[1] - C[-2][1]))
                    if solve_cmd(ci + 1, jn + 1, endp, C[-2] if nt else None, nt):
                        return True
                return False
            if not solve_cmd(0, 0, cur, ctrl, tan):
                suffix, msg = errors[0] if errors else ('vertices', 'command string: vertices cannot be assigned to the commands')
                report(suffix, msg)
                return
            ctrl, tan = state['end']
        chk.cov('sections_checked')
        chk.cov('section_' + name)
        cur = new[-1]
        prev_step = step
    # ---- primitives
    pe = [e for e in evs if e['op'] == 'prim' and e.get('k') != 'call']
    for pr, e in zip(m['prims'], pe):
        pts = [(e['pts'][k], e['pts'][k + 1]) for k in range(0, len(e['pts']), 2)]
        check_prim(chk, rp, pr, pts)
    chk.cov('cases_judged')
    if dependent or coincident:
        chk.fp(c.id)


def check_prim(chk, rp, pr, pts):
    k = pr[0]

    def bad(suffix, msg):
        chk.violation('C15/primitive/%s/%s' % (k, suffix), msg, rp)
    if any(not (math.isfinite(p[0]) and math.isfinite(p[1])) for p in pts):
        bad('non-finite', 'non-finite vertex')
        return
    if k == 'rectangle':
        a, b = pr[1], pr[2]
        want = {(a[0], a[1]), (b[0], a[1]), (b[0], b[1]), (a[0], b[1])}
        if len(pts) != 4 or set(pts) != want:
            bad('vertices', 'rectangle %s-%s has vertices %s' % (a, b, pts))
    elif k == 'cross':
        ce, full, arm = pr[1], pr[2], pr[3]
        h, w = full / 2, arm / 2
        want = {(ce[0] + sx * x, ce[1] + sy * y) for sx in (1, -1) for sy in (1, -1) for x, y in ((h, w), (w, w), (w, h))}
        if len(pts) != 12 or any(min(math.hypot(p[0] - q[0], p[1] - q[1]) for q in want) > 1e-12 * full for p in pts) or \
                any(min(math.hypot(p[0] - q[0], p[1] - q[1]) for p in pts) > 1e-12 * full for q in want):
            bad('vertices', 'cross(full %g, arm %g) has vertices %s' % (full, arm, pts))
    elif k == 'regular':
        ce, side, n, rot = pr[1], pr[2], pr[3], pr[4]
        R = side / (2 * math.sin(math.pi / n))
        ok = len(pts) == n and all(abs(math.hypot(p[0] - ce[0], p[1] - ce[1]) - R) <= 1e-9 * R for p in pts)
        ok = ok and all(abs(math.hypot(pts[i][0] - pts[i - 1][0], pts[i][1] - pts[i - 1][1]) - side) <= 1e-9 * side for i in range(n))
        if not ok:
            bad('vertices', 'regular polygon (%d sides of %g) has vertices %s' % (n, side, pts[:4]))
    elif k in ('ellipse', 'ring', 'slice'):
        _, ce, rx, ry, irx, iry, a0, a1, tol = pr
        # every vertex on the outer ellipse, the inner ellipse, or (slice) the centre
        outer = []
        inner = []
        for p in pts:
            x, y = p[0] - ce[0], p[1] - ce[1]
            fo = (x / rx) ** 2 + (y / ry) ** 2
            fi = (x / irx) ** 2 + (y / iry) ** 2 if irx > 0 else None
            if abs(fo - 1) <= 1e-9:
                outer.append(p)
            elif fi is not None and abs(fi - 1) <= 1e-9:
                inner.append(p)
            elif k == 'slice' and x == 0 and y == 0:
                pass
            else:
                bad('off-curve', '%s: vertex (%.9g,%.9g) is on neither ellipse' % (k, p[0], p[1]))
                return
        # chord sagitta of consecutive outer vertices vs tolerance (exact ellipse evaluated at the mid parameter)
        worst = 0.0
        seq = outer + ([outer[0]] if k != 'slice' and k != 'ring' else [])
        for a, b in zip(seq, seq[1:]):
            ta = math.atan2((a[1] - ce[1]) / ry, (a[0] - ce[0]) / rx)
            tb = math.atan2((b[1] - ce[1]) / ry, (b[0] - ce[0]) / rx)
            dt = tb - ta
            while dt <= -math.pi:
                dt += 2 * math.pi
            while dt > math.pi:
                dt -= 2 * math.pi
            for s in (0.25, 0.5, 0.75):
                tm = ta + dt * s
                pm = (ce[0] + rx * math.cos(tm), ce[1] + ry * math.sin(tm))
                worst = max(worst, dist_seg(pm, a, b))
        if worst > FACTOR * tol + 1e-9:
            bad('deviation', '%s (radii %g x %g, angles %g..%g): the exact ellipse is %.4g from the outline (tolerance %g)' % (k, rx, ry, a0, a1, worst, tol))
        # the inner boundary of a ring against the inner ellipse, the same way
        worst = 0.0
        for a, b in zip(inner, inner[1:]):
            ta = math.atan2((a[1] - ce[1]) / iry, (a[0] - ce[0]) / irx)
            tb = math.atan2((b[1] - ce[1]) / iry, (b[0] - ce[0]) / irx)
            dt = tb - ta
            while dt <= -math.pi:
                dt += 2 * math.pi
            while dt > math.pi:
                dt -= 2 * math.pi
            for s in (0.25, 0.5, 0.75):
                tm = ta + dt * s
                pm = (ce[0] + irx * math.cos(tm), ce[1] + iry * math.sin(tm))
                worst = max(worst, dist_seg(pm, a, b))
        if inner and worst > FACTOR * tol + 1e-9:
            bad('deviation', 'ring (inner radii %g x %g inside %g x %g): the exact inner ellipse is %.4g from the outline (tolerance %g)' % (irx, iry, rx, ry, worst, tol))
    elif k == 'racetrack':
        _, ce, ln, r, vert, tol = pr
        for p in pts:
            x, y = p[0] - ce[0], p[1] - ce[1]
            if vert:
                x, y = y, x
            d = abs(abs(y) - r) if abs(x) <= ln / 2 + 1e-12 else abs(math.hypot(abs(x) - ln / 2, y) - r)
            if d > 1e-9 * max(r, ln):
                bad('off-curve', 'racetrack: vertex (%.9g,%.9g) is %.3g off the exact outline' % (p[0], p[1], d))
                return
    elif k == 'fillet':
        _, w, h, r, tol = pr
        for p in pts:
            x, y = p
            cx = min(max(x, r), w - r)
            cy = min(max(y, r), h - r)
            inside_corner = (x < r or x > w - r) and (y < r or y > h - r)
            d = abs(math.hypot(x - cx, y - cy) - r) if inside_corner else min(abs(x), abs(x - w), abs(y), abs(y - h))
            if d > FACTOR * tol + 1e-9 * max(w, h):
                bad('deviation', 'filleted rectangle (radius %g): vertex (%.9g,%.9g) is %.3g off the exact outline (tolerance %g)' % (r, x, y, d, tol))
                return
    chk.cov('primitive_' + k)


def work(rec, b, indices):
    cases = [make_case(i) for i in indices]
    ev = script.run_cases(rec, b, cases, shards=1)
    for c in cases:
        rec.evaluations += 1
        judge(rec, c, ev.get(c.id, []))


def run(tier):
    chk = vfw.Check('C15', tier)
    b = vfw.build()
    n = N[tier]
    vfw.run_sharded(chk, b, n, work)
    c = make_case(2)
    chk.sample({'case': c.id, 'tolerance': c.meta['tol'], 'sections': [s['kind'] for s in c.meta['secs']], 'script': c.lines[:8]})
    chk.rule = ('curves of 1-6 sections drawn from segment(s)/horizontal/vertical/cubic/cubic_smooth/quadratic/quadratic_smooth/bezier (degree 2-5)/'
                'arc (circular and elliptical up to 100:1, any sign and span incl. > 2 pi, rotated axes)/turn/parametric (4 analytic functions)/'
                'interpolation/command strings, relative and absolute, control points on a 0.5 lattice (coincident, cusp, forward styles), tolerances '
                '20..1e-5; plus one primitive per case (rectangle, cross, regular polygon, ellipse, ring, slice, racetrack, filleted rectangle). '
                'Oracle: tracked end point / last control point / end tangent; every new vertex finite; last vertex = requested end; vertices located '
                'on the analytic section with non-decreasing parameter; for arcs and polynomial sections whose control directions span less than a '
                'quarter turn the exact curve stays within 5 tolerances of the polyline; turn: fitted circle of the requested radius whose start '
                'tangent is within one sampling step of the incoming tangent; interpolation passes through the points in order. Non-trivial: a '
                'section that depends on the previous one (smooth / turn) or a control polygon with coincident points.')
    chk.assumptions = ['"small fixed multiple" of the tolerance = 5', 'smooth continuations are only generated after sections that define a control point; '
                       'turn only after sections with a defined end tangent']
    chk.floor('cases_judged', chk.coverage.get('cases_judged', 0), int(0.9 * n))
    chk.finish()


def replay(path):
    import c01
    return c01.replay(path)
