# Independent GDSII stream codec, written from the format description in DESIGN.md appendix A.
# Encoder: abstract layout + choice vector -> bytes.  Strict decoder: bytes -> abstract layout, raising
# GdsError on anything the grammar does not allow.  Shares no code with gdstk.
import struct
from fractions import Fraction

HEADER, BGNLIB, LIBNAME, UNITS, ENDLIB, BGNSTR, STRNAME, ENDSTR = 0, 1, 2, 3, 4, 5, 6, 7
BOUNDARY, PATH, SREF, AREF, TEXT, LAYER, DATATYPE, WIDTH, XY, ENDEL = 8, 9, 10, 11, 12, 13, 14, 15, 16, 17
SNAME, COLROW, TEXTNODE, NODE, TEXTTYPE, PRESENTATION, SPACING, STRING = 18, 19, 20, 21, 22, 23, 24, 25
STRANS, MAG, ANGLE, UINTEGER, USTRING, REFLIBS, FONTS, PATHTYPE, GENERATIONS, ATTRTABLE = 26, 27, 28, 29, 30, 31, 32, 33, 34, 35
STYPTABLE, STRTYPE, ELFLAGS, ELKEY, LINKTYPE, LINKKEYS, NODETYPE, PROPATTR, PROPVALUE = 36, 37, 38, 39, 40, 41, 42, 43, 44
BOX, BOXTYPE, PLEX, BGNEXTN, ENDEXTN, TAPENUM, TAPECODE, STRCLASS, RESERVED, FORMAT, MASK, ENDMASKS = 45, 46, 47, 48, 49, 50, 51, 52, 53, 54, 55, 56
LIBDIRSIZE, SRFNAME, LIBSECUR = 57, 58, 59

# record type -> data type (0 none, 1 bits, 2 int16, 3 int32, 5 real8, 6 ascii)
DTYPE = {HEADER: 2, BGNLIB: 2, LIBNAME: 6, UNITS: 5, ENDLIB: 0, BGNSTR: 2, STRNAME: 6, ENDSTR: 0, BOUNDARY: 0, PATH: 0,
         SREF: 0, AREF: 0, TEXT: 0, LAYER: 2, DATATYPE: 2, WIDTH: 3, XY: 3, ENDEL: 0, SNAME: 6, COLROW: 2, NODE: 0,
         TEXTTYPE: 2, PRESENTATION: 1, STRING: 6, STRANS: 1, MAG: 5, ANGLE: 5, REFLIBS: 6, FONTS: 6, PATHTYPE: 2,
         GENERATIONS: 2, ATTRTABLE: 6, ELFLAGS: 1, NODETYPE: 2, PROPATTR: 2, PROPVALUE: 6, BOX: 0, BOXTYPE: 2, PLEX: 3,
         BGNEXTN: 3, ENDEXTN: 3, STRCLASS: 1, FORMAT: 2, MASK: 6, ENDMASKS: 0, LIBDIRSIZE: 2, SRFNAME: 6, LIBSECUR: 2}


class GdsError(Exception):
    pass


# ------------------------------------------------------------------------------------ 8-byte reals
def real8_to_fraction(b):
    (u,) = struct.unpack('>Q', b)
    sign = -1 if u >> 63 else 1
    exp = (u >> 56) & 0x7f
    mant = u & 0x00ffffffffffffff
    return sign * Fraction(mant, 1 << 56) * Fraction(16) ** (exp - 64)


def fraction_to_real8(v):
    """normalized excess-64 base-16 encoding, mantissa truncated (as the format prescribes no rounding rule,
    truncation and rounding are both within 1 unit of the 56-bit mantissa)"""
    v = Fraction(v)
    if v == 0:
        return b'\0' * 8
    sign = 0
    if v < 0:
        sign = 1
        v = -v
    e = 0
    while v >= 1:
        v /= 16
        e += 1
    while v < Fraction(1, 16):
        v *= 16
        e -= 1
    mant = int(v * (1 << 56))
    if not (0 <= e + 64 <= 127):
        raise ValueError('real8 exponent out of range')
    return struct.pack('>Q', (sign << 63) | ((e + 64) << 56) | mant)


# ------------------------------------------------------------------------------------ records
def rec(rt, data=b''):
    if len(data) % 2:
        raise ValueError('odd record payload')
    return struct.pack('>HBB', 4 + len(data), rt, DTYPE[rt]) + data


def rec_i16(rt, *v):
    return rec(rt, struct.pack('>%dh' % len(v), *v))


def rec_u16(rt, *v):
    return rec(rt, struct.pack('>%dH' % len(v), *v))


def rec_i32(rt, *v):
    return rec(rt, struct.pack('>%di' % len(v), *v))


def rec_str(rt, s):
    if isinstance(s, str):
        s = s.encode('latin-1')
    if len(s) % 2:
        s += b'\0'
    return rec(rt, s)


def rec_real(rt, *v):
    return rec(rt, b''.join(fraction_to_real8(x) for x in v))


def split_records(data):
    """framing only: yields (offset, type, dtype, payload); strict about lengths."""
    off = 0
    n = len(data)
    out = []
    while off < n:
        if n - off < 4:
            raise GdsError('truncated record header at %d' % off)
        ln, rt, dt = struct.unpack('>HBB', data[off:off + 4])
        if ln < 4:
            raise GdsError('record length %d < 4 at %d' % (ln, off))
        if ln % 2:
            raise GdsError('odd record length %d at %d' % (ln, off))
        if off + ln > n:
            raise GdsError('record at %d runs past end of file' % off)
        out.append((off, rt, dt, data[off + 4:off + ln]))
        off += ln
        if rt == ENDLIB:
            break
    tail = data[off:]
    if any(tail):
        raise GdsError('non-zero bytes after ENDLIB')
    return out


# ------------------------------------------------------------------------------------ strict decoder
def _ints16(p):
    return list(struct.unpack('>%dh' % (len(p) // 2), p))


def _ints32(p):
    return list(struct.unpack('>%di' % (len(p) // 4), p))


def _string(p):
    if p.endswith(b'\0'):
        p = p[:-1]
    if b'\0' in p:
        raise GdsError('NUL inside string')
    return p


class _Stream:
    def __init__(self, recs):
        self.recs = recs
        self.i = 0

    def peek(self):
        if self.i >= len(self.recs):
            raise GdsError('unexpected end of stream (no ENDLIB)')
        return self.recs[self.i]

    def take(self, rt=None):
        r = self.peek()
        if rt is not None and r[1] != rt:
            raise GdsError('expected record 0x%02x, found 0x%02x at offset %d' % (rt, r[1], r[0]))
        if r[1] not in DTYPE:
            raise GdsError('unknown record type 0x%02x at %d' % (r[1], r[0]))
        if r[2] != DTYPE[r[1]]:
            raise GdsError('record 0x%02x with data type %d (expected %d) at %d' % (r[1], r[2], DTYPE[r[1]], r[0]))
        self.i += 1
        return r

    def opt(self, rt):
        if self.peek()[1] == rt:
            return self.take(rt)
        return None


def _fixed(r, size, what):
    if len(r[3]) != size:
        raise GdsError('%s payload has %d bytes (expected %d) at %d' % (what, len(r[3]), size, r[0]))
    return r[3]


def _xy(st, min_pts=1, max_pts_per_record=8191):
    """one or more consecutive XY records, concatenated"""
    pts = []
    r = st.take(XY)
    while True:
        if len(r[3]) % 8 or not r[3]:
            raise GdsError('XY payload of %d bytes at %d' % (len(r[3]), r[0]))
        v = _ints32(r[3])
        if len(v) // 2 > max_pts_per_record:
            raise GdsError('more than %d points in one XY record' % max_pts_per_record)
        pts += list(zip(v[0::2], v[1::2]))
        if st.peek()[1] == XY:
            r = st.take(XY)
        else:
            break
    if len(pts) < min_pts:
        raise GdsError('XY with %d points (need %d)' % (len(pts), min_pts))
    return pts


def _strans(st, el):
    r = st.opt(STRANS)
    el['xrefl'] = False
    el['mag'] = Fraction(1)
    el['angle'] = Fraction(0)
    el['abs_mag'] = el['abs_angle'] = False
    if r is None:
        return
    (bits,) = struct.unpack('>H', _fixed(r, 2, 'STRANS'))
    if bits & ~0x8006:
        raise GdsError('reserved STRANS bits set: %04x' % bits)
    el['xrefl'] = bool(bits & 0x8000)
    el['abs_mag'] = bool(bits & 4)
    el['abs_angle'] = bool(bits & 2)
    m = st.opt(MAG)
    if m is not None:
        el['mag'] = real8_to_fraction(_fixed(m, 8, 'MAG'))
    a = st.opt(ANGLE)
    if a is not None:
        el['angle'] = real8_to_fraction(_fixed(a, 8, 'ANGLE'))


def _props(st, el):
    el['props'] = []
    while st.peek()[1] == PROPATTR:
        a = st.take(PROPATTR)
        (attr,) = struct.unpack('>h', _fixed(a, 2, 'PROPATTR'))
        v = st.take(PROPVALUE)
        if len(v[3]) % 2:
            raise GdsError('odd PROPVALUE')
        el['props'].append((attr, _string(v[3])))
    st.take(ENDEL)


def _i16(st, rt, what):
    r = st.take(rt)
    (v,) = struct.unpack('>h', _fixed(r, 2, what))
    return v


def _elflags_plex(st, el):
    r = st.opt(ELFLAGS)
    if r is not None:
        _fixed(r, 2, 'ELFLAGS')
        el['elflags'] = True
    r = st.opt(PLEX)
    if r is not None:
        _fixed(r, 4, 'PLEX')
        el['plex'] = True


def decode(data, strict_ranges=True):
    recs = split_records(data)
    st = _Stream(recs)
    lib = {'cells': []}
    h = st.take(HEADER)
    lib['version'] = struct.unpack('>h', _fixed(h, 2, 'HEADER'))[0]
    b = st.take(BGNLIB)
    lib['bgnlib'] = _ints16(_fixed(b, 24, 'BGNLIB'))
    for rt in (LIBDIRSIZE, SRFNAME, LIBSECUR):
        st.opt(rt)
    lib['name'] = _string(st.take(LIBNAME)[3])
    for rt in (REFLIBS, FONTS, ATTRTABLE, GENERATIONS):
        st.opt(rt)
    if st.opt(FORMAT) is not None:
        while st.peek()[1] == MASK:
            st.take(MASK)
        st.opt(ENDMASKS)
    u = st.take(UNITS)
    _fixed(u, 16, 'UNITS')
    lib['db_in_user'] = real8_to_fraction(u[3][:8])
    lib['db_in_m'] = real8_to_fraction(u[3][8:])
    lib['units_normalized'] = all((u[3][k + 1] & 0xf0) != 0 or u[3][k:k + 8] == b'\0' * 8 for k in (0, 8))
    while st.peek()[1] == BGNSTR:
        bs = st.take(BGNSTR)
        cell = {'bgnstr': _ints16(_fixed(bs, 24, 'BGNSTR')), 'elements': [], 'offset': bs[0]}
        cell['name'] = _string(st.take(STRNAME)[3])
        if not cell['name']:
            raise GdsError('empty structure name')
        st.opt(STRCLASS)
        while st.peek()[1] != ENDSTR:
            r = st.take()
            el = {'offset': r[0]}
            if r[1] == BOUNDARY or r[1] == BOX:
                el['kind'] = 'boundary' if r[1] == BOUNDARY else 'box'
                _elflags_plex(st, el)
                el['layer'] = _i16(st, LAYER, 'LAYER')
                el['datatype'] = _i16(st, DATATYPE if r[1] == BOUNDARY else BOXTYPE, 'DATATYPE')
                el['xy'] = _xy(st, 4, 8191)
                if el['xy'][0] != el['xy'][-1]:
                    raise GdsError('boundary not closed at %d' % r[0])
                if r[1] == BOX and len(el['xy']) != 5:
                    raise GdsError('BOX with %d points' % len(el['xy']))
            elif r[1] == PATH:
                el['kind'] = 'path'
                _elflags_plex(st, el)
                el['layer'] = _i16(st, LAYER, 'LAYER')
                el['datatype'] = _i16(st, DATATYPE, 'DATATYPE')
                p = st.opt(PATHTYPE)
                el['pathtype'] = struct.unpack('>h', _fixed(p, 2, 'PATHTYPE'))[0] if p else 0
                if el['pathtype'] not in (0, 1, 2, 4):
                    raise GdsError('PATHTYPE %d' % el['pathtype'])
                w = st.opt(WIDTH)
                el['width'] = struct.unpack('>i', _fixed(w, 4, 'WIDTH'))[0] if w else 0
                be = st.opt(BGNEXTN)
                ee = st.opt(ENDEXTN)
                el['bgnextn'] = struct.unpack('>i', _fixed(be, 4, 'BGNEXTN'))[0] if be else 0
                el['endextn'] = struct.unpack('>i', _fixed(ee, 4, 'ENDEXTN'))[0] if ee else 0
                el['xy'] = _xy(st, 2, 8191)
            elif r[1] in (SREF, AREF):
                el['kind'] = 'sref' if r[1] == SREF else 'aref'
                _elflags_plex(st, el)
                el['sname'] = _string(st.take(SNAME)[3])
                _strans(st, el)
                if r[1] == AREF:
                    c = st.take(COLROW)
                    el['cols'], el['rows'] = struct.unpack('>hh', _fixed(c, 4, 'COLROW'))
                    if strict_ranges and not (0 <= el['cols'] <= 32767 and 0 <= el['rows'] <= 32767):
                        raise GdsError('COLROW out of range: %d x %d' % (el['cols'], el['rows']))
                    el['xy'] = _xy(st, 3)
                    if len(el['xy']) != 3:
                        raise GdsError('AREF with %d points' % len(el['xy']))
                else:
                    el['xy'] = _xy(st, 1)
                    if len(el['xy']) != 1:
                        raise GdsError('SREF with %d points' % len(el['xy']))
            elif r[1] == TEXT:
                el['kind'] = 'text'
                _elflags_plex(st, el)
                el['layer'] = _i16(st, LAYER, 'LAYER')
                el['texttype'] = _i16(st, TEXTTYPE, 'TEXTTYPE')
                p = st.opt(PRESENTATION)
                el['presentation'] = struct.unpack('>H', _fixed(p, 2, 'PRESENTATION'))[0] if p else 0
                if el['presentation'] & ~0x3f:
                    raise GdsError('reserved PRESENTATION bits: %04x' % el['presentation'])
                p = st.opt(PATHTYPE)
                if p is not None:
                    _fixed(p, 2, 'PATHTYPE')
                w = st.opt(WIDTH)
                if w is not None:
                    _fixed(w, 4, 'WIDTH')
                _strans(st, el)
                el['xy'] = _xy(st, 1)
                if len(el['xy']) != 1:
                    raise GdsError('TEXT with %d points' % len(el['xy']))
                el['string'] = _string(st.take(STRING)[3])
            elif r[1] == NODE:
                el['kind'] = 'node'
                _elflags_plex(st, el)
                el['layer'] = _i16(st, LAYER, 'LAYER')
                el['nodetype'] = _i16(st, NODETYPE, 'NODETYPE')
                el['xy'] = _xy(st, 1)
            else:
                raise GdsError('record 0x%02x cannot start an element (offset %d)' % (r[1], r[0]))
            if strict_ranges and 'layer' in el and not (0 <= el['layer'] <= 32767):
                raise GdsError('layer %d out of range' % el['layer'])
            _props(st, el)
            cell['elements'].append(el)
        es = st.take(ENDSTR)
        _fixed(es, 0, 'ENDSTR')
        cell['end'] = es[0] + 4
        lib['cells'].append(cell)
    e = st.take(ENDLIB)
    _fixed(e, 0, 'ENDLIB')
    lib['endlib_offset'] = e[0]
    if st.i != len(recs):
        raise GdsError('records after ENDLIB')
    return lib


# ------------------------------------------------------------------------------------ encoder
class Choices:
    """Serialisation choices of the encoder, drawn from a random.Random; counts how many depart from what
    gdstk's own writer would do (non-triviality measure for C03)."""

    def __init__(self, rnd, hostile=True):
        self.r = rnd
        self.hostile = hostile
        self.departures = 0

    def flip(self, p=0.5):
        v = self.hostile and self.r.random() < p
        if v:
            self.departures += 1
        return v


def encode(lib, ch):
    """lib: abstract layout in the GDSII data model (integers on the database grid):
       {'name','db_in_user','db_in_m','bgnlib':[12],'cells':[{'name','bgnstr':[12],'elements':[...]}]}
       elements as produced by decode() (kind, layer, datatype, xy, props, ...)."""
    out = [rec_i16(HEADER, lib.get('version', 600)), rec_i16(BGNLIB, *lib['bgnlib'])]
    if ch.flip(0.2):
        out.append(rec_i16(LIBDIRSIZE, 3))
    if ch.flip(0.2):
        out.append(rec_str(SRFNAME, 'srf'))
    out.append(rec_str(LIBNAME, lib['name']))
    if ch.flip(0.2):
        out.append(rec_str(REFLIBS, 'a' * 44 + 'b' * 44))
    if ch.flip(0.2):
        out.append(rec_str(FONTS, 'f' * 176))
    if ch.flip(0.2):
        out.append(rec_i16(GENERATIONS, 3))
    out.append(rec_real(UNITS, lib['db_in_user'], lib['db_in_m']))
    for c in lib['cells']:
        out.append(rec_i16(BGNSTR, *c['bgnstr']))
        out.append(rec_str(STRNAME, c['name']))
        for el in c['elements']:
            out.append(encode_element(el, ch))
        out.append(rec(ENDSTR))
    out.append(rec(ENDLIB))
    data = b''.join(out)
    if ch.flip(0.15):
        data += b'\0' * ch.r.choice([2, 4, 2048 - len(data) % 2048])  # tape-block padding after ENDLIB
    return data


def _enc_xy(pts, ch, splittable):
    flat = [v for p in pts for v in p]
    cuts = list(range(8190, len(pts), 8190))          # mandatory: at most 8191 points fit one record
    if splittable and len(pts) >= 2 and ch.flip(0.25):
        cuts.append(ch.r.randrange(1, len(pts)))
    cuts = sorted(set(cuts))
    out = b''
    prev = 0
    for k in cuts + [len(pts)]:
        if k > prev:
            out += rec_i32(XY, *flat[2 * prev:2 * k])
        prev = k
    return out


def _enc_strans(el, ch):
    plain = not el.get('xrefl') and el.get('mag', 1) == 1 and el.get('angle', 0) == 0
    if plain and not ch.flip(0.3):
        return b''
    out = rec_u16(STRANS, 0x8000 if el.get('xrefl') else 0)
    if el.get('mag', 1) != 1 or ch.flip(0.3):
        out += rec_real(MAG, el.get('mag', 1))
    if el.get('angle', 0) != 0 or ch.flip(0.3):
        out += rec_real(ANGLE, el.get('angle', 0))
    return out


def _enc_flags(ch):
    out = b''
    if ch.flip(0.15):
        out += rec_u16(ELFLAGS, ch.r.choice([0, 1, 2]))
    if ch.flip(0.15):
        out += rec_i32(PLEX, ch.r.randrange(0, 1 << 24))
    return out


def encode_element(el, ch):
    k = el['kind']
    out = b''
    if k in ('boundary', 'box'):
        out += rec(BOUNDARY if k == 'boundary' else BOX) + _enc_flags(ch)
        out += rec_i16(LAYER, el['layer']) + rec_i16(DATATYPE if k == 'boundary' else BOXTYPE, el['datatype'])
        out += _enc_xy(el['xy'], ch, k == 'boundary')
    elif k == 'path':
        out += rec(PATH) + _enc_flags(ch) + rec_i16(LAYER, el['layer']) + rec_i16(DATATYPE, el['datatype'])
        if el['pathtype'] != 0 or ch.flip(0.5):
            out += rec_i16(PATHTYPE, el['pathtype'])
        if el['width'] != 0 or ch.flip(0.5):
            out += rec_i32(WIDTH, el['width'])
        if el['pathtype'] == 4:
            if el['bgnextn'] != 0 or not ch.flip(0.5):
                out += rec_i32(BGNEXTN, el['bgnextn'])
            if el['endextn'] != 0 or not ch.flip(0.5):
                out += rec_i32(ENDEXTN, el['endextn'])
        out += _enc_xy(el['xy'], ch, True)
    elif k in ('sref', 'aref'):
        out += rec(SREF if k == 'sref' else AREF) + _enc_flags(ch) + rec_str(SNAME, el['sname']) + _enc_strans(el, ch)
        if k == 'aref':
            out += rec_i16(COLROW, el['cols'], el['rows'])
        out += _enc_xy(el['xy'], ch, False)
    elif k == 'text':
        out += rec(TEXT) + _enc_flags(ch) + rec_i16(LAYER, el['layer']) + rec_i16(TEXTTYPE, el['texttype'])
        if el.get('presentation', 0) != 0 or not ch.flip(0.5):
            out += rec_u16(PRESENTATION, el.get('presentation', 0))
        if ch.flip(0.2):
            out += rec_i16(PATHTYPE, ch.r.choice([0, 1, 2]))
        if ch.flip(0.2):
            out += rec_i32(WIDTH, ch.r.choice([-40, 0, 25, 1000]))
        out += _enc_strans(el, ch) + _enc_xy(el['xy'], ch, False) + rec_str(STRING, el['string'])
    else:
        raise ValueError(k)
    for attr, val in el.get('props', []):
        out += rec_i16(PROPATTR, attr) + rec_str(PROPVALUE, val)
    out += rec(ENDEL)
    return out
