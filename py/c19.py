# C19 - number encodings of the file formats vs an independent codec (online monitor mon_c19).
import os
import vfw


def run(tier):
    chk = vfw.Check('C19', tier)
    b = vfw.build()
    stats = vfw.run_online(chk, os.path.join(b, 'mon_c19'), 16)
    chk.coverage.update(stats)
    chk.evaluations = sum(stats.get(k, 0) for k in ('gdsreal_values', 'uint_values', 'sint_values', 'delta_values', 'real_values',
                                                    'plist_lists', 'uint_alt_encodings', 'sint_alt_encodings',
                                                    'delta_alt_encodings', 'real_alt_encodings', 'uint_overflow_encodings',
                                                    'sint_overflow_encodings'))
    chk.rule = ('systematic: 2^k-1, 2^k, 2^k+1 for k=1..63 (covers every 7-bit group boundary) as unsigned, signed (both signs) and '
                'as magnitude of every 2-/3-/g-delta direction; 16^k and both neighbouring doubles for k=-64..63 as GDSII reals; '
                '1/n and its neighbouring doubles for n = 2^k+-1, 2^k and small n as OASIS reals; 10-byte encodings of values '
                '>= 2^64 / 2^63 for the overflow flag. Random: doubles, integers, point lists of 5 geometric classes (alternating '
                'Manhattan h/v-first, Manhattan, octangular, general), open and closed, with repeated vertices. Each value goes '
                'gdstk-encode -> independent decode, gdstk-encode -> gdstk-decode, and independent alternative encodings '
                '(non-minimal lengths up to 10 bytes, general form of octangular g-deltas, all real types, every list type that '
                'can hold the points) -> gdstk-decode, in both stream modes (memory cursor and FILE). Non-trivial = boundary '
                'value (distinct by construction) or a point list with >= 3 admissible list types.')
    chk.assumptions = ['signed magnitudes are < 2^63 (INT64_MIN is not representable in sign-magnitude form by either side)',
                       'non-minimal integer encodings longer than the 10-byte window are not demanded to decode',
                       'GDSII real: 1 ulp slack as stated in the property']
    for k, need in (('uint_overflow_encodings', 20), ('sint_overflow_encodings', 10), ('plist_alt_type_0', 200),
                    ('plist_alt_type_1', 200), ('plist_alt_type_5', 1000), ('real_written_as_reciprocal', 1000),
                    ('real_written_as_double', 1000), ('plist_written_type_0', 100), ('plist_written_type_3', 100)):
        chk.floor(k, stats.get(k, 0), need)
    chk.finish()


def replay(path):
    return vfw.replay_cmd(path)
