# Script builder and sharded runner for the gdsmon driver.
import concurrent.futures as cf
import json
import os
import shutil
import subprocess

import vfw


def hx(s):
    """hex-encode a str (latin-1) or bytes for the script; '-' is the empty string."""
    if s is None:
        return '~'
    if isinstance(s, str):
        s = s.encode('latin-1')
    return s.hex() if s else '-'


def fl(x):
    """float -> token that strtod reads back exactly"""
    if isinstance(x, int):
        return repr(float(x)) if abs(x) < 2 ** 53 else repr(x)
    if x != x:
        return 'nan'
    if x in (float('inf'), float('-inf')):
        return 'inf' if x > 0 else '-inf'
    return repr(float(x))


class Case:
    """One forked case: an id, a list of script lines, and free-form metadata kept on the Python side."""

    def __init__(self, cid, timeout=20):
        self.id = str(cid)
        self.timeout = timeout
        self.lines = []
        self.meta = {}
        self.counters = {}

    def op(self, *toks):
        self.lines.append(' '.join(str(t) for t in toks))

    def handle(self, kind):
        n = self.counters.get(kind, 0)
        self.counters[kind] = n + 1
        return '%s%d' % (kind, n)

    def text(self):
        return 'CASE %s %d\n%s\nEND\n' % (self.id, self.timeout, '\n'.join(self.lines))


def run_cases(chk, build_dir, cases, shards=None, keep=False, driver='gdsmon', timeout=7200, wd=None):
    """Run cases through the driver in parallel shards. Returns {case id: [events]} with the
    terminating 'exit' event last. Cases whose child died keep their partial event list."""
    shards = shards or vfw.NPROC
    own_wd = wd is None
    if wd is None:
        wd = vfw.workdir(chk.prop)
    exe = os.path.join(build_dir, driver)
    n = max(1, min(shards, len(cases)))
    buckets = [[] for _ in range(n)]
    for i, c in enumerate(cases):
        buckets[i % n].append(c)

    def one(k):
        sp = os.path.join(wd, 's%d.txt' % k)
        op = os.path.join(wd, 'o%d.jsonl' % k)
        with open(sp, 'w') as f:
            for c in buckets[k]:
                f.write(c.text())
        try:
            p = subprocess.run([exe, sp, op, wd], stdout=subprocess.PIPE, stderr=subprocess.PIPE, env=vfw.env(),
                               timeout=timeout)
            return k, p.returncode, p.stderr.decode('latin-1')[-2000:], op
        except subprocess.TimeoutExpired:
            return k, 'timeout', '', op

    out = {}
    with cf.ThreadPoolExecutor(n) as ex:
        results = list(ex.map(one, range(n)))
    for k, rc, err, op in results:
        done = False
        if os.path.exists(op):
            with open(op, 'r', encoding='latin-1') as f:
                for line in f:
                    try:
                        e = json.loads(line)
                    except ValueError:
                        chk.harness_error('unparsable event line from driver shard %d: %r' % (k, line[:200]))
                        continue
                    if e.get('op') == 'driver_done':
                        done = True
                        continue
                    out.setdefault(e['c'], []).append(e)
        if rc != 0 or not done:
            chk.harness_error('driver shard %d ended rc=%s done=%s: %s' % (k, rc, done, err[-500:]))
    if not keep and own_wd:
        shutil.rmtree(wd, ignore_errors=True)
    return out


def exit_event(events):
    if events and events[-1].get('op') == 'exit':
        return events[-1]
    return None


def check_exit(chk, case, events, allow=()):
    """Report abnormal ends (sanitizer abort, signal, watchdog). Returns True if the case ended normally."""
    ex = exit_event(events)
    if ex is None:
        chk.harness_error('case %s produced no exit event' % case.id)
        return False
    if ex['how'] == 'ok':
        return True
    # which API call was open?
    open_call = None
    for e in events:
        if e.get('k') == 'call':
            open_call = e['op']
        elif e.get('op') != 'exit':
            open_call = None
    if ex['how'] == 'timeout':
        chk.inconc('case %s: watchdog after %ss in %s' % (case.id, ex.get('timeout_s'), open_call))
        return False
    if ex['how'] == 'exit' and ex.get('code') in (96, 97, 98):
        chk.harness_error('case %s: driver script error (code %s): %s' % (case.id, ex.get('code'), ex.get('stderr', '')[:300]))
        return False
    key = vfw.crash_key(chk.prop, ex.get('stderr', ''))
    if key in allow:
        return False
    chk.violation(key, 'case %s ended by %s in %s\n%s' % (case.id, ex['how'] + str(ex.get('sig', ex.get('code', ''))),
                                                       open_call, ex.get('stderr', '')[:2500]),
                  {'case': case.text(), 'meta': case.meta})
    return False
