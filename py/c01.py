# C01 - GDSII save/load round trip: the re-loaded library must equal the canonical model computed from
# the *spec* (exact rational rounding to the grid); second and third cycles must be fixpoints.
import math
import random

import genlib
import model
import script
import vfw
from script import Case

MAXP = [0, 0, 5, 6, 17, 199, 8190]


def make_case(i, tier):
    sd = vfw.seed() * 1000003 + i
    g = genlib.Gen(sd, dict(oas_props=False, odd_widths=True))
    lib = g.library()
    rnd = random.Random(sd)
    maxp = rnd.choice(MAXP)
    # Raith MBMS data on a simple path (gdstk's own extension records RAITHMBMSPATH / RAITHPXXDATA): the geometry must survive like any other
    if rnd.random() < 0.05:
        sp_ = [fp for c_ in lib['cells'] for fp in c_['fpaths'] if fp['simple']]
        if sp_:
            rnd.choice(sp_)['raith'] = {'name': 'BASE', 'pitch': (0.01, 0.02, 1.0), 'periods': 3, 'grating': 1, 'dots': 7, 'dwell': 1}
    # array sizes around the limit of the 16-bit COLROW field: 32767 must survive, more must be refused (or survive), never change silently
    big = None
    if rnd.random() < 0.08:
        refs = [(ci, ri) for ci, c_ in enumerate(lib['cells']) for ri, rf in enumerate(c_['refs'])]
        if refs:
            ci, ri = rnd.choice(refs)
            rf = lib['cells'][ci]['refs'][ri]
            gg = lib['precision'] / lib['unit']
            big = rnd.choice([32767, 32767, 32768, 40000, 65535, 65536])
            rf['rotation'] = rnd.choice([0.0, math.pi / 2])
            rf['rep'] = {'kind': 'rect', 'cols': big if rnd.random() < 0.5 else 2, 'rows': 1, 'spacing': (10 * gg, 7 * gg)}
            if rf['rep']['cols'] == 2:
                rf['rep']['rows'] = big
    c = Case('L%d' % i, timeout=60)
    lh, chs = genlib.emit_library(c, lib)
    # outlines of non-simple paths (region the file must reproduce)
    fi = ri = 0
    want = []
    for ci, cell in enumerate(lib['cells']):
        for pi, fp in enumerate(cell['fpaths']):
            if not fp['simple']:
                c.op('to_polygons', 'f%d' % fi)
                want.append((ci, 'f', pi, 'f%d' % fi))
            fi += 1
        for pi, rp in enumerate(cell['rpaths']):
            if not rp['simple']:
                c.op('to_polygons', 'r%d' % ri)
                want.append((ci, 'r', pi, 'r%d' % ri))
            ri += 1
    ts = '2021 3 4 5 6 7'
    c.op('write_gds', lh, 'f1.gds', maxp, ts)
    c.op('read_gds', 'f1.gds', 0, 0)
    c.op('dump_lib', 'l1', 'L1')
    c.op('write_gds', 'l1', 'f2.gds', maxp, ts)
    c.op('read_gds', 'f2.gds', 0, 0)
    c.op('dump_lib', 'l2', 'L2')
    c.op('write_gds', 'l2', 'f3.gds', maxp, ts)
    c.op('read_gds', 'f3.gds', 0, 0)
    c.op('dump_lib', 'l3', 'L3')
    c.meta = {'spec': lib, 'max_points': maxp, 'want': want, 'seed': sd, 'big_array': big}
    return c


def nontrivial(lib):
    kinds = set()
    rep = False
    tref = False
    for c in lib['cells']:
        for k in ('polys', 'labels', 'refs', 'fpaths', 'rpaths'):
            if c[k]:
                kinds.add(k)
            for e in c[k]:
                if e.get('rep'):
                    rep = True
        for r in c['refs']:
            if r['rotation'] != 0 or r['mag'] != 1 or r['xrefl']:
                tref = True
    return len(kinds) >= 2 and (rep or tref)


def judge(chk, c, evs):
    lib = c.meta['spec']
    rp = {'case': c.text(), 'meta': {'seed': c.meta['seed'], 'max_points': c.meta['max_points']}}
    if not script.check_exit(chk, c, evs):
        return
    dumps = {e['label']: e for e in evs if e['op'] == 'dump_lib'}
    outl = {}
    tp = {e['h']: e for e in evs if e['op'] == 'to_polygons' and e.get('k') != 'call'}
    for ci, kind, pi, h in c.meta['want']:
        e = tp.get(h)
        if e is None:
            chk.harness_error('%s: no to_polygons result for %s' % (c.id, h))
            return
        outl[(ci, kind, pi)] = [((p['layer'], p['type']), [(p['pts'][k], p['pts'][k + 1]) for k in range(0, len(p['pts']), 2)]) for p in e['polys']]
    errs = [e for e in evs if e['op'] in ('write_gds', 'read_gds') and e.get('k') != 'call']
    m = c.meta
    if m.get('big_array') and m['big_array'] > 32767 and errs and errs[0]['op'] == 'write_gds' and errs[0]['err'] == 7:      # the first save, of the library as specified
        chk.cov('oversized_array_refused')         # InvalidRepetition: the writer said it cannot store the array; nothing more to compare
        chk.cov('cases_judged')
        return
    for e in errs:
        # warnings that the domain makes legitimate: MissingReference (by-name refs to absent cells), UnofficialSpecification
        if e['err'] not in (0, 4, 6):
            chk.violation('C01/%s/error-code' % e['op'], '%s returned code %d on an in-domain library' % (e['op'], e['err']), rp)
            return
    if not all(k in dumps for k in ('L1', 'L2', 'L3')):
        chk.harness_error('%s: dumps missing' % c.id)
        return
    exp = model.expected_gds(lib, c.meta['max_points'], outl)
    if exp['ties']:
        chk.cov('cases_skipped_for_half_grid_ties')
        return
    rnd = random.Random(c.meta['seed'])
    o1 = model.from_dump(dumps['L1'])
    diffs = model.compare(exp, o1, 'first load', rnd, unit_rel=1e-14)
    for suffix, msg in diffs[:3]:
        chk.violation('C01/first-load/' + suffix, msg, rp)
    # library name
    if dumps['L1']['name'] != lib['name']:
        chk.violation('C01/first-load/libname', 'library name %r, expected %r' % (dumps['L1']['name'], lib['name']), rp)
    # fixpoint: second and third cycles change nothing
    o2 = model.from_dump(dumps['L2'])
    o3 = model.from_dump(dumps['L3'])
    for a, b, what in ((o1, o2, 'second'), (o2, o3, 'third')):
        if set(a['cells']) != set(b['cells']):
            chk.violation('C01/fixpoint/cells', '%s cycle changes the cell set' % what, rp)
            continue
        for name in a['cells']:
            if a['cells'][name]['items'] != b['cells'][name]['items']:
                d1 = a['cells'][name]['items'] - b['cells'][name]['items']
                d2 = b['cells'][name]['items'] - a['cells'][name]['items']
                chk.violation('C01/fixpoint/%s-cycle' % what, '%s save/load cycle changes cell %s: lost %s gained %s' % (
                    what, name, model._short(list(d1)[:1]), model._short(list(d2)[:1])), rp)
                break
        rel = 1e-14 if what == 'second' else 0.0
        for k in ('unit', 'precision'):
            if abs(a[k] - b[k]) > rel * abs(a[k]):
                chk.violation('C01/fixpoint/' + k, '%s cycle changes %s: %.17g -> %.17g' % (what, k, a[k], b[k]), rp)
    chk.cov('libraries_compared')
    chk.cov('items_compared', sum(sum(cc['items'].values()) for cc in exp['cells'].values()))
    chk.cov('region_outlines_compared', sum(len(v) for cc in exp['cells'].values() for v in cc['region'].values()))
    if nontrivial(lib):
        chk.fp(c.id)


def work(rec, b, indices):
    cases = [make_case(i, rec.tier) for i in indices]
    ev = script.run_cases(rec, b, cases, shards=1)
    for c in cases:
        rec.evaluations += 1
        judge(rec, c, ev.get(c.id, []))


def probe_one_grid_apart(chk, b):
    """Known finding: a simple path with two consecutive centre-line points exactly one grid step apart loses one of them at
    the second save (read_gds gives loaded paths a tolerance of one grid step; remove_overlapping_points compares with <)."""
    c = Case('probe-one-grid-apart')
    c.op('lib', '4c', '1e-06', '1e-09')
    c.op('cell', '41', 'l0')
    c.op('fpath', 'c0', '0.071', '-0.11', 1, '0.0001', '0.018', '0.0', 1, 0)
    c.op('fpset', 'f0', 1, 1)
    c.op('fpel', 'f0', 0, 0, 0, '0.0', '0.0', 0, '0.0')
    c.op('fpcall', 'f0', 'segment', 0, '-', '-', 4, '0.071', '0.033', '-0.014', '0.033', '-0.015', '0.033', '-0.015', '-0.07')
    for k in (0, 1):
        c.op('write_gds', 'l%d' % k, 'f%d.gds' % k, 0, '2021 3 4 5 6 7')
        c.op('read_gds', 'f%d.gds' % k, 0, 0)
        c.op('dump_lib', 'l%d' % (k + 1), 'L%d' % (k + 1))
    ev = script.run_cases(chk, b, [c], shards=1)
    evs = ev.get(c.id, [])
    if not script.check_exit(chk, c, evs):
        return
    d = {e['label']: e for e in evs if e['op'] == 'dump_lib'}
    s1 = d['L1']['cells'][0]['fpaths'][0]['spine']
    s2 = d['L2']['cells'][0]['fpaths'][0]['spine']
    if s1 != s2:
        chk.violation('C01/fixpoint/path-points-one-grid-apart',
                      'second save/load cycle changes a path: %d centre-line points after the first load, %d after the second' % (
                          len(s1) // 2, len(s2) // 2), {'case': c.text()})


def run(tier):
    chk = vfw.Check('C01', tier)
    b = vfw.build()
    probe_one_grid_apart(chk, b)
    n = 4000 if tier == 'quick' else 60000
    vfw.run_sharded(chk, b, n, work)
    cases = [make_case(0, tier)]
    chk.sample({'case': cases[0].id, 'spec': cases[0].meta['spec'], 'max_points': cases[0].meta['max_points']})
    chk.rule = ('seeded libraries (1-5 cells; polygons of 6 shape classes with grid fractions, labels with every anchor/rotation/'
                'magnification/reflection, references incl. by-name to absent cells with every repetition kind, simple and non-simple '
                'flexible/robust paths, GDSII properties, tags up to 32767, 5 unit/precision pairs) x vertex limit in {0,5,6,17,199,8190}; '
                'write_gds -> read_gds three times. Oracle: canonical model from the spec with exact rational rounding; repetitions '
                'expanded by the oracle; aligned reference lattices expected as one array with identical corner points; non-simple '
                'paths / over-limit polygons compared as regions (exact areas + exact winding at guarded sample points). '
                'Non-trivial: >= 2 element kinds and a repetition or transformed reference. Distinct = distinct seed/index.')
    chk.assumptions = ['outlines of non-simple paths are taken from to_polygons of the original (their correctness is C07/C08)',
                       'cases in which a coordinate lands within 1e-6 of a half grid step are skipped (counted)',
                       'polygon vertex lists are compared up to rotation of the cycle, orientation preserved']
    chk.floor('libraries_compared', chk.coverage.get('libraries_compared', 0), int(0.9 * n))
    chk.finish()


def replay(path):
    import json
    import os
    import subprocess
    o = json.load(open(path))
    print('replaying', o['key'], '\n', o['detail'][:2000])
    b = vfw.build()
    wd = vfw.workdir('C01replay')
    sp = os.path.join(wd, 'replay.txt')
    open(sp, 'w').write(o['replay']['case'])
    out = os.path.join(wd, 'out.jsonl')
    subprocess.run([os.path.join(b, 'gdsmon'), sp, out, wd], env=vfw.env())
    print(open(out).read()[-4000:])
    return 0
