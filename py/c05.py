# C05 - boolean operations compute the set-theoretic result: exact integer winding numbers at guarded sample points,
# no overlapping output polygons, exact-area identities.
import random

import geom
import script
import vfw
from script import Case, fl

OPS = ['or', 'and', 'xor', 'not']
N = {'quick': 2500, 'thorough': 60000}


def to_tokens(pts, s_int, s):
    # coordinates are G*unit_int / s : gdstk computes llround(x * s) = G*unit_int
    return [len(pts)] + [fl(v * s_int / s) for p in pts for v in p]


# operand pairs whose results contain pieces that touch another piece from the outside at a vertex or along an edge, next to pockets and
# shared edges (configurations in which the clipping engine has reported an outside piece as a hole of its neighbour); used under random
# lattice symmetries
TOUCHING = [
    ([[(0, 1), (0, 5), (1, 5), (1, 2), (2, 2), (2, 5), (3, 5), (3, 2), (4, 2), (4, 1)],
      [(-2, -2), (0, -2), (0, -5), (5, -5), (5, -10), (-2, -10)],
      [(2, 1), (9, 1), (9, -2), (6, -2), (6, -5), (5, -5), (5, -7), (2, -7)]],
     [[(0, 1), (0, 5), (1, 5), (1, 2), (2, 2), (2, 5), (3, 5), (3, 2), (4, 2), (4, 1)],
      [(4, 5), (15, 5), (15, 3), (12, 3), (12, 1), (10, 1), (10, -1), (7, -1), (7, -4), (6, -4), (6, -7), (4, -7)],
      [(3, 2), (6, 9), (9, 5), (12, 9), (7, 12), (7, 14), (6, 18), (0, 19), (1, 13), (1, 11), (-1, 8)]]),
    ([[(5, -2), (5, 4), (6, 4), (6, -1), (7, -1), (7, 4), (8, 4), (8, -1), (9, -1), (9, 4), (10, 4), (10, -1), (11, -1), (11, -2)],
      [(17, 0), (8, -2), (8, 4), (4, 8), (10, 9), (17, 10)],
      [(-4, 10), (-1, 10), (-1, 13), (1, 13), (1, 14), (3, 14), (3, 15), (4, 15), (4, 18), (6, 18), (6, 19), (-4, 19)]],
     [[(5, -1), (5, 5), (6, 5), (6, 0), (7, 0), (7, 5), (8, 5), (8, 0), (9, 0), (9, 5), (10, 5), (10, 0), (11, 0), (11, -1)]]),
    ([[(-2, 10), (1, 10), (1, 9), (-2, 9)], [(-10, 9), (-1, 9), (-1, 14), (-10, 14)]],
     [[(-3, 11), (0, 11), (0, 10), (-3, 10)], [(-2, 13), (5, 13), (5, 12), (7, 12), (7, 11), (-2, 11)], [(-8, -3), (-10, -14), (-11, -9)]]),
    # (OR not AND) of this pair: the hole left by the common square was attached to a contour that does not contain it
    ([[(10, 7), (17, 7), (17, 8), (11, 8), (11, 9), (10, 9)],
      [(-4, -11), (-4, -5), (-3, -5), (-3, -10), (-2, -10), (-2, -5), (-1, -5), (-1, -10), (0, -10), (0, -5), (1, -5), (1, -10), (2, -10), (2, -11)]],
     [[(12, 7), (19, 7), (19, 8), (13, 8), (13, 9), (12, 9)],
      [(-1, -7), (0, -7), (0, -5), (2, -5), (2, -3), (3, -3), (3, -1), (5, -1), (5, 2), (6, 2), (6, 4), (-1, 4)],
      [(6, 19), (13, 19), (13, 8), (6, 8)]]),
    # A xor B: the rectangle of A inside the rectangle of B is a hole whose corner (-45, 55) lies on an edge of the pentagon; the rounded
    # intersection next to it leaves that corner just outside the contour
    ([[(-30, 50), (-75, 65), (-100, 15), (-65, 25), (-50, 30)], [(-45, 55), (-25, 55), (-25, 65), (-45, 65)]],
     [[(-50, 40), (-10, 40), (-10, 80), (-50, 80)]]),
    # the opposite case: real holes (XOR, OR not AND of slightly shifted copies) one of whose vertices lies a fraction of a grid unit
    # outside the contour that owns them, by the rounding of an intersection - these must stay holes
    ([[(7, 2), (1, 2), (0, 1), (-6, -3), (-9, 2), (-6, 9), (-1, 12), (4, 9)], [(-10, 2), (-18, 6), (-18, 12), (-11, 11), (-8, 9)]],
     [[(8, 0), (2, 0), (1, -1), (-5, -5), (-8, 0), (-5, 7), (0, 10), (5, 7)]]),
    ([[(3, 10), (3, 19), (10, 14), (13, 7), (7, 7)]],
     [[(2, 11), (2, 20), (9, 15), (12, 8), (6, 8)], [(6, -8), (11, -9), (10, -12)]]),
    ([[(-15, 9), (-10, -1), (-7, 1), (0, 6), (-6, 9)], [(-14, 0), (-13, 9), (-10, 2), (-1, 3), (-7, -3), (-10, -2), (-17, -5)],
      [(-1, -1), (5, -1), (5, -2), (4, -2), (4, -4), (1, -4), (1, -5), (0, -5), (0, -6), (-1, -6)]],
     [[(-14, 7), (-9, -3), (-6, -1), (1, 4), (-5, 7)]]),
]


def touching_pair(rnd):
    A, B = rnd.choice(TOUCHING)
    if rnd.random() < 0.5:
        A, B = B, A
    k = rnd.randrange(8)
    dx, dy = rnd.randrange(-6, 7), rnd.randrange(-6, 7)

    def tr(p):
        x, y = p
        if k & 4:
            x = -x
        for _ in range(k & 3):
            x, y = -y, x
        return (x + dx, y + dy)
    out = []
    for grp in (A, B):
        g2 = []
        for poly in grp:
            q = [tr(v) for v in poly]
            if rnd.random() < 0.5:
                q.reverse()
            r0 = rnd.randrange(len(q))
            g2.append(q[r0:] + q[:r0])
        rnd.shuffle(g2)
        out.append(g2)
    return out


# probe for the known finding C05/area/contour-with-reversed-lobe (first seen at seed 19, case B2079): A xor B comes back from the clipping
# engine as one contour in which the 5 x 5 square (45..50, 20..25) is wound against the rest
PROBE_INDEX = -1
PROBE_LOBE = ([[(45, 55), (50, 55), (50, 20), (45, 20)], [(20, 20), (0, 50), (-15, 50), (-25, 45), (-40, 40), (-35, 25), (-10, 5)], [(0, 10), (20, -15), (-30, 35)]],
              [[(-10, 15), (20, -10), (25, 30), (10, 65), (-25, 40), (-55, 35), (-30, -5)],
               [(30, 65), (70, 65), (70, 55), (60, 55), (60, 45), (55, 45), (55, 35), (50, 35), (50, 25), (40, 25), (40, 10), (30, 10)],
               [(80, 10), (80, 15), (75, 15), (75, 30), (70, 30), (70, 15), (65, 15), (65, 30), (60, 30), (60, 15), (55, 15), (55, 30), (50, 30), (50, 15),
                (45, 15), (45, 30), (40, 30), (40, 15), (35, 15), (35, 30), (30, 30), (30, 10)]])


# probe for the known finding C05/clipper-hole-reported-as-contour (first seen in the thorough tier at seed 33, case B50608):
# (A or B) not (A and B) - the pocket (5..6, -1..0) between two teeth comes back from the clipping engine as an outer contour of its own,
# inside the big contour, instead of as a hole like its two neighbours
PROBE2_INDEX = -2
PROBE_HOLE = ([[(4, 0), (4, 6), (5, 6), (5, 1), (6, 1), (6, 6), (7, 6), (7, 1), (8, 1), (8, 6), (9, 6), (9, 1), (10, 1), (10, 6), (11, 6), (11, 1), (12, 1), (12, 0)],
               [(-3, 2), (8, -3), (-4, 5)]],
              [[(4, -2), (4, 4), (5, 4), (5, -1), (6, -1), (6, 4), (7, 4), (7, -1), (8, -1), (8, 4), (9, 4), (9, -1), (10, -1), (10, 4), (11, 4), (11, -1), (12, -1), (12, -2)],
               [(8, 3), (11, 6), (7, 9), (6, 10), (6, 18), (3, 13), (-3, 13), (3, 9), (-3, 4), (3, 2)]])


def make_case(i):
    sd = vfw.seed() * 1000003 + 50000 + i
    rnd = random.Random(sd)
    style = rnd.choice([1, 1, 1, 2])
    if style == 1:
        s = rnd.choice([1.0, 1000.0, 0.5, 1e6, 64.0, 0.1])
        K = 1                       # one lattice unit of the generator = 1 grid unit
    else:
        s = float(2 ** rnd.choice([40, 50, 54]))
        K = int(s)                  # coordinates are small integers, the grid is 1/s
    step = rnd.choice([5, 5, 10, 1])
    na, nb = rnd.choice([1, 1, 2, 3]), rnd.choice([1, 1, 2, 3])
    A = [geom.gen_polygon(rnd, step) for _ in range(na)]
    B = [geom.gen_polygon(rnd, step) for _ in range(nb)]
    if rnd.random() < 0.25:        # B = translated copy of a member of A: shared edges / full overlap
        dx, dy = rnd.choice([0, step, -step, 2 * step]), rnd.choice([0, step, -2 * step])
        B[0] = [(x + dx, y + dy) for x, y in A[0]]
    touching = random.Random(sd + 5).random() < 0.04
    if touching:
        A, B = touching_pair(random.Random(sd + 6))
    if i == PROBE2_INDEX:
        A, B, s, K, style, touching = PROBE_HOLE[0], PROBE_HOLE[1], 2.0 ** 40, 2 ** 40, 2, True
    if i == PROBE_INDEX:
        A, B, s, K, style, touching = PROBE_LOBE[0], PROBE_LOBE[1], 2.0 ** 50, 2 ** 50, 2, True
    if style == 2:
        # domain of the statement: scaled coordinates within 62 bits (the clipping engine refuses anything beyond +-2^62 with an exception)
        maxc = max(abs(v) for grp in (A, B) for poly in grp for q in poly for v in q)
        while maxc * s >= 2.0 ** 61 and s > 2.0 ** 40:
            s /= 16.0
        K = int(s)
    c = Case('B%d' % i if i >= 0 else ('probe-lobe' if i == PROBE_INDEX else 'probe-hole'), timeout=60)
    c.op('arr', 'new')
    for p in A:
        if style == 1:
            c.op('arr_poly', 'a0', 1, 0, len(p), *[fl(v / s) for q in p for v in q])
        else:
            c.op('arr_poly', 'a0', 1, 0, len(p), *[fl(float(v)) for q in p for v in q])
    c.op('arr', 'new')
    for p in B:
        if style == 1:
            c.op('arr_poly', 'a1', 2, 0, len(p), *[fl(v / s) for q in p for v in q])
        else:
            c.op('arr_poly', 'a1', 2, 0, len(p), *[fl(float(v)) for q in p for v in q])
    plan = []
    h = 2
    for op in OPS:
        c.op('boolean', 'a0', 'a1', op, fl(s))
        plan.append(('a%d' % h, 'A', 'B', op))
        h += 1
    c.op('boolean', 'a1', 'a0', 'not', fl(s))
    plan.append(('a%d' % h, 'B', 'A', 'not'))
    h += 1
    # chained operations on results (operands with keyholes / many pieces):  names refer to earlier results
    chains = [('a5', 'a1', 'or'), ('a2', 'a3', 'not'), ('a4', 'a3', 'or'), ('a5', 'a6', 'xor'), ('a2', 'a2', 'and')]
    picked = rnd.sample(chains, 3)
    for x, y, op in (chains if touching else picked):
        c.op('boolean', x, y, op, fl(s))
        plan.append(('a%d' % h, x, y, op))
        h += 1
    c.meta = {'A': A, 'B': B, 's': s, 'K': K, 'style': style, 'plan': plan, 'seed': sd, 'touching': touching}
    if i == PROBE2_INDEX:
        c.meta['force_points'] = [(5.5, -0.5)]
    return c


def snap(polys, s, K):
    """result polygons back on the integer grid"""
    out = []
    off = 0
    for p in polys:
        pts = []
        xs = p['pts']
        for k in range(0, len(xs), 2):
            vx, vy = xs[k] * s, xs[k + 1] * s
            ix, iy = int(round(vx)), int(round(vy))
            if abs(vx - ix) > 1e-6 * max(1.0, abs(vx)) or abs(vy - iy) > 1e-6 * max(1.0, abs(vy)):
                off += 1
            pts.append((ix, iy))
        out.append(pts)
    return out, off


def apply(op, a, b):
    if op == 'or':
        return a or b
    if op == 'and':
        return a and b
    if op == 'xor':
        return a != b
    return a and not b


def judge(chk, c, evs):
    m = c.meta
    rp = {'case': c.text(), 'meta': {'seed': m['seed'], 'scaling': m['s'], 'style': m['style']}}
    if not script.check_exit(chk, c, evs):
        return
    res = [e for e in evs if e['op'] == 'boolean' and e.get('k') != 'call']
    if len(res) != len(m['plan']):
        chk.harness_error('%s: %d results for %d operations' % (c.id, len(res), len(m['plan'])))
        return
    K = m['K']
    s = m['s']
    groups = {'A': [[(x * K, y * K) for x, y in p] for p in m['A']], 'B': [[(x * K, y * K) for x, y in p] for p in m['B']]}
    groups['a0'] = groups['A']
    groups['a1'] = groups['B']
    rnd = random.Random(m['seed'] + 1)
    guard = 2.0 if m['style'] == 1 else 0.01 * K
    nontrivial = False
    for (h, xa, xb, op), e in zip(m['plan'], res):
        if e['err'] != 0:
            # BooleanError is a warning ("unable to link hole"): it appears when a sliver hole a grid unit wide has its extreme vertex rounded
            # onto or just across the contour. The statement is about the region up to the rounding grid, so the region is judged all the
            # same (a hole of any real size that gets dropped fails the membership test below); the reports are counted.
            chk.cov('boolean_warning_reports')
        R, off = snap(e['polys'], s, K)
        if off:
            chk.violation('C05/off-grid', 'boolean %s: %d result coordinates are not on the 1/scaling grid' % (op, off), rp)
        groups[h] = R
        GA, GB = groups[xa], groups[xb]
        # sample points: near vertices of operands and result, plus uniform in the bounding box
        x0, y0, x1, y1 = geom.bbox([GA, GB, R])
        verts = [p for g in (GA, GB, R) for poly in g for p in poly]
        tested = 0
        both = False
        w = max(x1 - x0, y1 - y0, 1)
        for t in range(900):
            if tested >= 260:
                break
            if t < len(m.get('force_points', ())):
                px, py = m['force_points'][t][0] * K, m['force_points'][t][1] * K      # probes: the place where the finding shows
                px, py = int(px), int(py)
            elif verts and t % 3 != 2:
                vx, vy = rnd.choice(verts)
                r_ = max(3.0 * guard, 0.004 * w) * rnd.choice([1, 1, 2, 4])
                px = vx + int(rnd.uniform(-r_, r_))
                py = vy + int(rnd.uniform(-r_, r_))
            else:
                px = rnd.randrange(x0 - w // 10 - 3, x1 + w // 10 + 4)
                py = rnd.randrange(y0 - w // 10 - 3, y1 + w // 10 + 4)
            if geom.min_dist2([GA, GB], px, py) < guard * guard:
                continue
            ca, cb, cr = geom.covered(GA, px, py), geom.covered(GB, px, py), geom.covered(R, px, py)
            if ca is None or cb is None or cr is None:
                continue
            tested += 1
            want = apply(op, ca > 0, cb > 0)
            if ca > 0 and cb > 0:
                both = True
            if (cr > 0) != want:
                viol = ('C05/membership/' + op, '%s %s %s (scaling %g): point (%s,%s)/scaling is %s the result but should be %s (in first: %s, in second: %s)' % (
                    xa, op, xb, s, px, py, 'inside' if cr else 'outside', 'inside' if want else 'outside', ca > 0, cb > 0))
                if cr > 0 and not c.id.endswith('raw'):
                    # covered although it should not be: second stage (work()) looks at the raw output of the clipping engine for this operation -
                    # known finding C05/clipper-hole-reported-as-contour if two of its own outer contours overlap at this point
                    c.meta['extra_pending'] = (viol, (xa, xb, op), (px, py), rp)
                else:
                    chk.violation(viol[0], viol[1], rp)
                return
            if cr > 1:
                chk.violation('C05/overlap/' + op, '%s %s %s: point (%s,%s)/scaling is covered by %d result polygons' % (xa, op, xb, px, py, cr), rp)
                return
            for poly in R:
                wn = geom.winding(poly, px, py)
                if wn not in (0, 1, -1):
                    chk.violation('C05/winding/' + op, 'result polygon winds %s times around (%s,%s)/scaling' % (wn, px, py), rp)
                    return
        chk.cov('points_tested', tested)
        chk.cov('operations_' + op)
        if both:
            nontrivial = True
        if any(len(p) > 0 and _has_slit(p) for p in R):
            chk.cov('results_with_slit')
    # area identities (twice-areas, exact integers; slack = perimeter x 1 grid unit x 2 for each rounded intersection)
    def ar(h):
        return sum(abs(geom.area2(p)) for p in groups[h])

    def per(h):
        return sum(geom.perimeter(p) for p in groups[h])
    a_or, a_and, a_xor, a_ab, a_ba = ar('a2'), ar('a3'), ar('a4'), ar('a5'), ar('a6')
    # every vertex may sit up to one grid unit from its ideal position (rounded intersections, slit anchors); beyond 2^53
    # the doubles that carry the result cannot even represent every grid coordinate, which adds maxcoord * 2^-52 units
    x0, y0, x1, y1 = geom.bbox([groups['a2']])
    u = 1 + max(abs(x0), abs(y0), abs(x1), abs(y1)) * 2.0 ** -52
    slack = 2 * u * (per('a2') + per('a3') + per('a4') + per('a5') + per('a6')) + 16
    pending = []
    if abs(a_or - (a_and + a_xor)) > slack:
        pending.append(('C05/area/or=and+xor', 'area(or) %d/2 != area(and) %d/2 + area(xor) %d/2 (slack %d/2)' % (a_or, a_and, a_xor, slack)))
    if abs(a_xor - (a_ab + a_ba)) > slack:
        pending.append(('C05/area/xor=not+not', 'area(xor) %d/2 != area(A-B) %d/2 + area(B-A) %d/2 (slack %d/2)' % (a_xor, a_ab, a_ba, slack)))
    if pending:
        # Known finding C05/area/contour-with-reversed-lobe: the clipping engine itself can return a contour that runs along an inner edge
        # twice in the same direction, so that one lobe of the polygon is wound against the rest: every point is covered as it should be,
        # but the shoelace area (Polygon::area) is short by twice the lobe.  A failed identity is attributed to it only if (a) the
        # identities hold for the areas actually covered (non-zero winding), (b) some result polygon has such a lobe and (c) the lobe is
        # already there in the raw output of the engine for the same operands (second stage, work()): a lobe made by gdstk's own hole
        # linking stays a violation.
        def arc(h):
            return sum(geom.covered_area2(p) for p in groups[h])
        c_or, c_and, c_xor, c_ab, c_ba = arc('a2'), arc('a3'), arc('a4'), arc('a5'), arc('a6')
        lobed = [h for h in ('a2', 'a3', 'a4', 'a5', 'a6') for p in groups[h] if geom.covered_area2(p) != abs(geom.area2(p))]
        if lobed and abs(c_or - (c_and + c_xor)) <= slack and abs(c_xor - (c_ab + c_ba)) <= slack:
            c.meta['area_pending'] = (pending, lobed, rp)
        else:
            for key, detail in pending:
                chk.violation(key, detail, rp)
    chk.cov('cases_judged')
    if m.get('touching'):
        chk.cov('touching_configurations')
    if nontrivial and any(groups[h] for h in ('a2', 'a3', 'a4', 'a5')):
        chk.fp(c.id)


def _has_slit(p):
    # a keyhole polygon traverses some edge twice in opposite directions
    edges = set()
    n = len(p)
    for i in range(n):
        a, b = p[i], p[i + 1 - n]
        if (b, a) in edges:
            return True
        edges.add((a, b))
    return False


RAW_OPS = {'a2': ('a0', 'a1', 'or'), 'a3': ('a0', 'a1', 'and'), 'a4': ('a0', 'a1', 'xor'), 'a5': ('a0', 'a1', 'not'), 'a6': ('a1', 'a0', 'not')}


def work(rec, b, indices):
    cases = [make_case(i) for i in indices]
    ev = script.run_cases(rec, b, cases, shards=1)
    stage2 = []
    for c in cases:
        rec.evaluations += 1
        judge(rec, c, ev.get(c.id, []))
        if c.meta.get('extra_pending'):
            viol, (xa, xb, op), pt, rp = c.meta['extra_pending']
            c2 = Case(c.id + 'raw', timeout=60)
            c2.lines = list(c.lines)
            c2.op('clipper_raw', xa, xb, op, fl(c.meta['s']))
            c2.meta = c.meta
            stage2.append(c2)
        elif c.meta.get('area_pending'):
            # second stage: what does the clipping engine itself return for the operations whose result has a lobe?
            c2 = Case(c.id + 'raw', timeout=60)
            c2.lines = [ln for ln in c.lines if ln.startswith('arr')]
            for h in c.meta['area_pending'][1]:
                x, y, op = RAW_OPS[h]
                c2.op('clipper_raw', x, y, op, fl(c.meta['s']))
            c2.meta = c.meta
            stage2.append(c2)
    if not stage2:
        return
    ev2 = script.run_cases(rec, b, stage2, shards=1)
    for c2 in stage2:
        evs = ev2.get(c2.id, [])
        raw = [e for e in evs if e['op'] == 'clipper_raw']
        if c2.meta.get('extra_pending'):
            viol, _opn, (px, py), rp = c2.meta['extra_pending']
            outer = holes = 0
            over = []
            for e in raw[:1]:
                for nd in e['nodes']:
                    pts = [(nd['pts'][k], nd['pts'][k + 1]) for k in range(0, len(nd['pts']), 2)]
                    wn = geom.winding(pts, px, py)
                    if wn:
                        if nd['hole']:
                            holes += 1
                        else:
                            outer += 1
                            over.append(pts)
            # the finding is about pockets between touching pieces: the contour that should have been a hole shares vertices with the boundary
            # of the contour around it (a clean interior hole reported as a contour would be something else, and stays a violation)
            touching = 0
            if len(over) >= 2:
                over.sort(key=lambda q: abs(geom.area2(q)))
                touching = sum(1 for v in over[0] if geom.winding(over[-1], v[0], v[1]) is None)
            if raw and outer >= 2 and holes == 0 and touching >= 2:
                rec.violation('C05/clipper-hole-reported-as-contour', '%s; in the raw output of the clipping engine for the same operands %d outer contours and no hole '
                              'cover that point, the inner one touching the outer one at %d vertices' % (viol[1], outer, touching), rp)
                rec.cov('holes_reported_as_contours_by_clipper')
            else:
                rec.violation(viol[0], viol[1], rp)
            continue
        pending, lobed, rp = c2.meta['area_pending']
        native = []
        for e in raw:
            for nd in e['nodes']:
                pts = [(nd['pts'][k], nd['pts'][k + 1]) for k in range(0, len(nd['pts']), 2)]
                if geom.covered_area2(pts) != abs(geom.area2(pts)):
                    native.append((e['oper'], pts))
        if len(raw) == len(lobed) and native:
            oper, pts = native[0]
            rec.violation('C05/area/contour-with-reversed-lobe', '%s; raw Clipper contour of the %s operation with %d vertices: shoelace area %s/2, covered area %s/2: %s' % (
                pending[0][1], oper, len(pts), abs(geom.area2(pts)), geom.covered_area2(pts), pts[:40]), rp)
            rec.cov('reversed_lobe_contours_from_clipper')
        else:
            for key, detail in pending:
                rec.violation(key, detail, rp)


def run(tier):
    chk = vfw.Check('C05', tier)
    b = vfw.build()
    n = N[tier]
    vfw.run_sharded(chk, b, n, work)
    # The two classified findings are anomalies of the clipping engine met about once in 60000 random cases on the unchanged tree.  A change
    # inside the engine that makes the same anomaly common must not hide behind them: more than 1 + n/20000 classified cases in one run are
    # reported under their own key.
    for key in ('C05/clipper-hole-reported-as-contour', 'C05/area/contour-with-reversed-lobe'):
        seen = chk.violation_counts.get(key, 0)
        if seen > 1 + n // 20000:
            wit = [v for v in chk.violations if v[0] == key]
            chk.violation(key + '/too-frequent', '%d of %d random cases show this anomaly (at most %d expected from the unchanged clipping engine); e.g. %s' % (
                seen, n, 1 + n // 20000, wit[0][1][:300] if wit else ''), {'witness_replays': [w_[2] for w_ in wit], 'case': ''})
    work(chk, b, [PROBE_INDEX, PROBE2_INDEX])         # known findings: print KNOWN-FINDING while they reproduce
    chk.evaluations -= 2
    c = make_case(0)
    chk.sample({'case': c.id, 'A': c.meta['A'], 'B': c.meta['B'], 'scaling': c.meta['s'], 'operations': c.meta['plan']})
    chk.rule = ('pairs of groups (1-3 simple polygons each: rectangles, L, triangles, stars, combs, staircases on a lattice of step 1/5/10, '
                'either orientation, B sometimes a translated copy of a member of A) x {or, and, xor, A not B, B not A} + 3 chained '
                'operations on earlier results (operands with slits and many pieces); scalings 0.1..1e6 with coordinates G/scaling, or '
                '2^40..2^54 with small integer coordinates (grid coordinates up to 2^60). Oracle: exact integer winding numbers of the '
                'rounded operands at <= 260 points per operation (2/3 of them near vertices), points closer than 2 grid units (0.01 lattice '
                'units for the 2^k scalings) to an operand edge discarded; per point: membership == op(membership), at most one result '
                'polygon covers it, |winding| <= 1; exact twice-area identities with slack 2 x perimeter. Non-trivial: some tested point '
                'lies in both operands and a result is non-empty.')
    chk.assumptions = ['operands are simple polygons; results of earlier operations are fed back as given',
                       'a point is only judged when it is farther than the guard distance from every operand edge']
    chk.floor('cases_judged', chk.coverage.get('cases_judged', 0), int(0.95 * n))
    chk.floor('results_with_slit', chk.coverage.get('results_with_slit', 0), 20)
    chk.finish()


def replay(path):
    import c01
    return c01.replay(path)
