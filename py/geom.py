# Geometry kit for the region oracles: exact integer winding numbers, distances, polygon generators on
# small coordinate alphabets (so that shared edges, touching vertices and collinear triples are the norm).
import math


def winding(pts, px, py):
    """winding number of the closed polygon about (px,py); None if the point lies on the boundary.
    Exact when all coordinates are Python ints."""
    wn = 0
    n = len(pts)
    for i in range(n):
        ax, ay = pts[i]
        bx, by = pts[i + 1 - n]
        cr = (bx - ax) * (py - ay) - (by - ay) * (px - ax)
        if cr == 0 and (ax <= px <= bx or bx <= px <= ax) and (ay <= py <= by or by <= py <= ay):
            return None
        if ay <= py:
            if by > py and cr > 0:
                wn += 1
        elif by <= py and cr < 0:
            wn -= 1
    return wn


def covered(group, px, py):
    """number of polygons of the group whose winding number about the point is non-zero; None on a boundary"""
    k = 0
    for pts in group:
        w = winding(pts, px, py)
        if w is None:
            return None
        if w != 0:
            k += 1
    return k


def dist2_point_seg(px, py, ax, ay, bx, by):
    dx, dy = bx - ax, by - ay
    l2 = dx * dx + dy * dy
    if l2 == 0:
        return (px - ax) ** 2 + (py - ay) ** 2
    t = ((px - ax) * dx + (py - ay) * dy) / l2
    if t < 0:
        t = 0.0
    elif t > 1:
        t = 1.0
    ex, ey = px - ax - t * dx, py - ay - t * dy
    return ex * ex + ey * ey


def min_dist2(groups, px, py):
    best = float('inf')
    for group in groups:
        for pts in group:
            n = len(pts)
            for i in range(n):
                ax, ay = pts[i]
                bx, by = pts[i + 1 - n]
                d = dist2_point_seg(px, py, ax, ay, bx, by)
                if d < best:
                    best = d
    return best


def area2(pts):
    s = 0
    n = len(pts)
    for i in range(n):
        x0, y0 = pts[i]
        x1, y1 = pts[i + 1 - n]
        s += x0 * y1 - x1 * y0
    return s


def covered_area2(pts):
    """twice the area of the set of points with non-zero winding number about the closed integer polygon pts (exact): unlike the shoelace
    sum it counts a lobe traversed against the orientation of the rest as covered.  Scan-line over the slabs between consecutive vertex
    ordinates; the polygon may touch itself but its edges must not cross inside a slab."""
    from fractions import Fraction
    n = len(pts)
    if n < 3:
        return 0
    ys = sorted(set(y for _x, y in pts))
    edges = []
    for i in range(n):
        (x0, y0), (x1, y1) = pts[i], pts[(i + 1) % n]
        if y0 == y1:
            continue
        if y0 < y1:
            edges.append((x0, y0, x1, y1, 1))
        else:
            edges.append((x1, y1, x0, y0, -1))
    total = Fraction(0)
    for ya, yb in zip(ys, ys[1:]):
        act = []
        for x0, y0, x1, y1, d in edges:
            if y0 <= ya and y1 >= yb:
                dx = Fraction(x1 - x0, y1 - y0)
                xa = x0 + dx * (ya - y0)
                xb = x0 + dx * (yb - y0)
                act.append((xa + xb, xa, xb, d))
        act.sort()
        w = 0
        prev = None
        for _m, xa, xb, d in act:
            if w != 0:
                total += ((xa - prev[0]) + (xb - prev[1])) * (yb - ya)
            w += d
            prev = (xa, xb)
    return total


def perimeter(pts):
    n = len(pts)
    return sum(math.hypot(pts[i + 1 - n][0] - pts[i][0], pts[i + 1 - n][1] - pts[i][1]) for i in range(n))


def bbox(groups):
    xs = [p[0] for g in groups for poly in g for p in poly]
    ys = [p[1] for g in groups for poly in g for p in poly]
    if not xs:
        return (0, 0, 0, 0)
    return (min(xs), min(ys), max(xs), max(ys))


def segments_intersect_properly(a, b, c, d):
    def orient(p, q, r):
        v = (q[0] - p[0]) * (r[1] - p[1]) - (q[1] - p[1]) * (r[0] - p[0])
        return (v > 0) - (v < 0)
    o1, o2, o3, o4 = orient(a, b, c), orient(a, b, d), orient(c, d, a), orient(c, d, b)
    if o1 != o2 and o3 != o4:
        return True

    def on(p, q, r):
        return min(p[0], q[0]) <= r[0] <= max(p[0], q[0]) and min(p[1], q[1]) <= r[1] <= max(p[1], q[1])
    if o1 == 0 and on(a, b, c):
        return True
    if o2 == 0 and on(a, b, d):
        return True
    if o3 == 0 and on(c, d, a):
        return True
    if o4 == 0 and on(c, d, b):
        return True
    return False


def is_simple(pts):
    """no two non-adjacent edges touch or cross, no zero-length edge (exact for ints)"""
    n = len(pts)
    if n < 3:
        return False
    for i in range(n):
        if pts[i] == pts[i + 1 - n]:
            return False
    for i in range(n):
        a, b = pts[i], pts[i + 1 - n]
        for j in range(i + 1, n):
            if j == i or (j + 1) % n == i or (i + 1) % n == j:
                continue
            c, d = pts[j], pts[j + 1 - n]
            if segments_intersect_properly(a, b, c, d):
                return False
    # adjacent edges must not fold back onto each other
    for i in range(n):
        a, b, c = pts[i - 1], pts[i], pts[i + 1 - n]
        cr = (b[0] - a[0]) * (c[1] - b[1]) - (b[1] - a[1]) * (c[0] - b[0])
        dt = (b[0] - a[0]) * (c[0] - b[0]) + (b[1] - a[1]) * (c[1] - b[1])
        if cr == 0 and dt < 0:
            return False
    return area2(pts) != 0


# ------------------------------------------------------------------------------------ generators
def gen_polygon(rnd, step=5, span=None, kinds=None):
    """simple polygon with integer vertices on a coarse lattice (multiples of step)"""
    if span is None:
        span = 12 * step
    for _ in range(50):
        k = rnd.choice(kinds or ['rect', 'rect', 'star', 'star', 'comb', 'stair', 'tri', 'L'])
        cx = rnd.randrange(-span, span + 1, step)
        cy = rnd.randrange(-span, span + 1, step)
        if k == 'rect':
            w, h = rnd.randrange(step, span, step), rnd.randrange(step, span, step)
            pts = [(cx, cy), (cx + w, cy), (cx + w, cy + h), (cx, cy + h)]
        elif k == 'tri':
            pts = [(cx, cy), (cx + rnd.randrange(step, span, step), cy + rnd.randrange(-span // 2, span // 2, step)),
                   (cx + rnd.randrange(-span // 2, span // 2, step), cy + rnd.randrange(step, span, step))]
        elif k == 'star':
            n = rnd.randrange(4, 12)
            a0 = rnd.uniform(0, 2 * math.pi)
            pts = []
            for j in range(n):
                a = a0 + (j + rnd.uniform(-0.3, 0.3)) * 2 * math.pi / n
                rr = rnd.choice([step * 2, step * 4, step * 7, step * 9])
                pts.append((cx + int(round(rr * math.cos(a) / step)) * step, cy + int(round(rr * math.sin(a) / step)) * step))
        elif k == 'comb':
            teeth = rnd.randrange(2, 6)
            th, base = rnd.choice([3, 4, 6]) * step, step
            x = cx
            pts = [(cx, cy)]
            for _t in range(teeth):
                pts += [(x, cy + th), (x + step, cy + th), (x + step, cy + base), (x + 2 * step, cy + base)]
                x += 2 * step
            pts += [(x, cy)]
        elif k == 'stair':
            n = rnd.randrange(2, 6)
            x, y = cx, cy
            pts = [(x, y)]
            for _s in range(n):
                x += rnd.randrange(step, 4 * step, step)
                pts.append((x, y))
                y += rnd.randrange(step, 4 * step, step)
                pts.append((x, y))
            pts.append((cx, y))
        else:
            w, h = rnd.randrange(2 * step, span, step), rnd.randrange(2 * step, span, step)
            a, b = rnd.randrange(step, w, step), rnd.randrange(step, h, step)
            pts = [(cx, cy), (cx + w, cy), (cx + w, cy + b), (cx + a, cy + b), (cx + a, cy + h), (cx, cy + h)]
        out = []
        for p in pts:
            if not out or out[-1] != p:
                out.append(p)
        if len(out) > 1 and out[0] == out[-1]:
            out.pop()
        if len(out) >= 3 and is_simple(out):
            if rnd.random() < 0.5:
                out.reverse()
            return out
    return [(0, 0), (step, 0), (step, step), (0, step)]


def gen_big_polygon(rnd, nmin=5, nmax=600):
    """simple-by-construction polygons with many vertices: comb, rectilinear spiral, saw band, star, sliver.
    Optionally decorated with collinear points and repeated vertices. Integer coordinates."""
    kind = rnd.choice(['comb', 'spiral', 'saw', 'star', 'sliver', 'stair'])
    target = rnd.randrange(nmin, nmax + 1)
    ox, oy = rnd.randrange(-500, 500), rnd.randrange(-500, 500)
    if kind == 'comb':
        teeth = max(1, target // 4)
        pitch, tw, th, base = rnd.randrange(4, 12), rnd.randrange(1, 4), rnd.randrange(5, 60), rnd.randrange(2, 6)
        pts = [(0, 0)]
        x = 0
        for _ in range(teeth):
            pts += [(x, base + th), (x + tw, base + th), (x + tw, base), (x + pitch, base)]
            x += pitch
        pts[-1] = (x, base)
        pts += [(x, 0)]
    elif kind == 'spiral':
        turns = max(1, target // 8)
        w = rnd.randrange(2, 6)          # arm width = gap
        pts_out, pts_in = [], []
        # rectilinear spiral as a thick polyline: outer boundary going in, inner boundary coming back
        size = (4 * turns + 2) * w
        x0, y0, x1, y1 = 0, 0, size, size
        outer = []
        for t in range(turns):
            outer += [(x0, y0), (x1, y0), (x1, y1), (x0 + 2 * w, y1)]
            x0 += 2 * w
            y0 += 2 * w
            x1 -= 2 * w
            y1 -= 2 * w
        # build by offsetting: inner path is the outer path shifted inwards by w
        inner = []
        x0, y0, x1, y1 = 0, 0, size, size
        for t in range(turns):
            inner += [(x0 + w, y0 + w), (x1 - w, y0 + w), (x1 - w, y1 - w), (x0 + 3 * w, y1 - w)]
            x0 += 2 * w
            y0 += 2 * w
            x1 -= 2 * w
            y1 -= 2 * w
        # connect: outer forward, then inner backward; the start needs the left edge
        pts = [(0, y_) for y_ in ()]
        pts = outer + list(reversed(inner))
        # close along the first arm's left side: outer[0]=(0,0) ... inner[0]=(w,w) -> need (0, size?) no: the first arm starts at
        # the left edge; add the start cap explicitly
        pts = [(0, 0)] + outer[1:] + list(reversed(inner[1:])) + [(w, w)]
        # (0,0)->(size,0)... ->(w,w)->(0,0) closes with a diagonal; replace by a proper cap
        pts = [(0, 0)] + outer[1:] + list(reversed(inner[1:])) + [(0, w)]
    elif kind == 'saw':
        n = max(2, target // 2)
        amp, pitch, thick = rnd.randrange(3, 40), rnd.randrange(2, 9), rnd.randrange(2, 30)
        top = [(i * pitch, amp if i % 2 else 0) for i in range(n)]
        bot = [(i * pitch, (amp if i % 2 else 0) - thick) for i in range(n)]
        pts = top + list(reversed(bot))
    elif kind == 'star':
        n = max(5, target)
        a0 = rnd.uniform(0, 6.28)
        pts = []
        rr = rnd.randrange(200, 2000)
        for j in range(n):
            a = a0 + (j + rnd.uniform(-0.3, 0.3)) * 2 * math.pi / n
            r_ = rr * rnd.choice([1.0, 0.55, 0.8, 0.97])
            pts.append((int(round(r_ * math.cos(a))), int(round(r_ * math.sin(a)))))
    elif kind == 'sliver':
        L = rnd.randrange(500, 5000)
        n = max(3, min(target, 40))
        # thin wedge with extra points along its long sides
        top = [(int(L * i / n), 1 + int(3 * i / n)) for i in range(n + 1)]
        pts = [(0, 0)] + [(L, 0)] + list(reversed(top[1:]))
    else:
        n = max(2, target // 2)
        x = y = 0
        pts = [(0, 0)]
        for _ in range(n):
            x += rnd.randrange(1, 9)
            pts.append((x, y))
            y += rnd.randrange(1, 9)
            pts.append((x, y))
        pts.append((0, y))
    out = []
    for p in pts:
        if not out or out[-1] != p:
            out.append(p)
    if len(out) > 1 and out[0] == out[-1]:
        out.pop()
    if kind == 'spiral' and not is_simple(out):
        # fall back to a comb if the spiral construction degenerated
        return gen_big_polygon(rnd, nmin, nmax) if rnd.random() < 0.9 else [(0, 0), (10, 0), (10, 10), (0, 10), (0, 5)]
    # decorations: collinear points on edges and repeated vertices
    deco = rnd.random()
    if deco < 0.4:
        dec = []
        n = len(out)
        for i in range(n):
            a, b = out[i], out[i + 1 - n]
            dec.append(a)
            if rnd.random() < 0.15 and (a[0] == b[0] or a[1] == b[1]) and abs(a[0] - b[0]) + abs(a[1] - b[1]) >= 2:
                dec.append(((a[0] + b[0]) // 2, (a[1] + b[1]) // 2))      # collinear (axis-parallel edge: exact)
            if rnd.random() < 0.05:
                dec.append(b)                                          # repeated vertex (b follows again)
        out = []
        for p in dec:
            out.append(p)
        # repeated vertices are legal input; keep consecutive duplicates
    if rnd.random() < 0.5:
        out = list(reversed(out))
    return [(x + ox, y + oy) for x, y in out]


def min_clearance(pts):
    """smallest distance from a vertex to an edge it does not belong to (narrowest feature of a simple polygon)"""
    n = len(pts)
    best = float('inf')
    for i in range(n):
        px, py = pts[i]
        for j in range(n):
            if j == i or (j + 1) % n == i:
                continue
            ax, ay = pts[j]
            bx, by = pts[(j + 1) % n]
            d = dist2_point_seg(px, py, ax, ay, bx, by)
            if d < best:
                best = d
    return math.sqrt(best)


def min_angle_deg(pts):
    """smallest interior/exterior corner angle (degrees) between consecutive edges of the polygon"""
    n = len(pts)
    best = 180.0
    for i in range(n):
        a, b, c = pts[i - 1], pts[i], pts[i + 1 - n]
        u = (a[0] - b[0], a[1] - b[1])
        v = (c[0] - b[0], c[1] - b[1])
        lu, lv = math.hypot(*u), math.hypot(*v)
        if lu == 0 or lv == 0:
            return 0.0
        cs = max(-1.0, min(1.0, (u[0] * v[0] + u[1] * v[1]) / (lu * lv)))
        ang = math.degrees(math.acos(cs))
        if ang < best:
            best = ang
    return best


# ------------------------------------------------------------------------------------ affine maps (2x3)
# M = (a, b, c, d, e, f):  x' = a x + b y + c ;  y' = d x + e y + f
IDENT = (1.0, 0.0, 0.0, 0.0, 1.0, 0.0)


def m_apply(M, p):
    return (M[0] * p[0] + M[1] * p[1] + M[2], M[3] * p[0] + M[4] * p[1] + M[5])


def m_lin(M, v):
    return (M[0] * v[0] + M[1] * v[1], M[3] * v[0] + M[4] * v[1])


def m_mul(A, B):
    """A after B"""
    return (A[0] * B[0] + A[1] * B[3], A[0] * B[1] + A[1] * B[4], A[0] * B[2] + A[1] * B[5] + A[2],
            A[3] * B[0] + A[4] * B[3], A[3] * B[1] + A[4] * B[4], A[3] * B[2] + A[4] * B[5] + A[5])


def m_placement(mag, xrefl, rot, origin):
    """magnify, then reflect across x, then rotate, then translate (the documented order)"""
    ca, sa = math.cos(rot), math.sin(rot)
    sy = -1.0 if xrefl else 1.0
    return (mag * ca, -mag * sy * sa, origin[0], mag * sa, mag * sy * ca, origin[1])


def m_translate(v):
    return (1.0, 0.0, v[0], 0.0, 1.0, v[1])


def m_scale(sx, sy, c):
    return (sx, 0.0, c[0] - sx * c[0], 0.0, sy, c[1] - sy * c[1])


def m_rotate(a, c):
    ca, sa = math.cos(a), math.sin(a)
    return (ca, -sa, c[0] - ca * c[0] + sa * c[1], sa, ca, c[1] - sa * c[0] - ca * c[1])


def m_mirror(p0, p1):
    dx, dy = p1[0] - p0[0], p1[1] - p0[1]
    l2 = dx * dx + dy * dy
    if l2 == 0:
        return IDENT
    a = (dx * dx - dy * dy) / l2
    b = 2 * dx * dy / l2
    # reflection about the line through p0 with direction (dx,dy):  R = [[a,b],[b,-a]],  x' = R (x - p0) + p0
    return (a, b, p0[0] - a * p0[0] - b * p0[1], b, -a, p0[1] - b * p0[0] + a * p0[1])


def m_det(M):
    return M[0] * M[4] - M[1] * M[3]


def m_close(A, B, tol=1e-9):
    s = max(1.0, max(abs(x) for x in A), max(abs(x) for x in B))
    return all(abs(x - y) <= tol * s for x, y in zip(A, B))


# ------------------------------------------------------------------------------------ float regions
def fwinding(pts, px, py):
    wn = 0
    n = len(pts)
    for i in range(n):
        ax, ay = pts[i]
        bx, by = pts[i + 1 - n]
        if ay <= py:
            if by > py and (bx - ax) * (py - ay) - (by - ay) * (px - ax) > 0:
                wn += 1
        elif by <= py and (bx - ax) * (py - ay) - (by - ay) * (px - ax) < 0:
            wn -= 1
    return wn


def region_diff(P, Q, rnd, guard, samples=200, near=0.5):
    """P, Q: lists of polygons (float vertices). Returns None if they cover the same points at every sample farther than
    guard from both boundaries, else a witness point."""
    allp = [p for poly in P + Q for p in poly]
    if not allp:
        return None
    x0 = min(p[0] for p in allp)
    x1 = max(p[0] for p in allp)
    y0 = min(p[1] for p in allp)
    y1 = max(p[1] for p in allp)
    w = max(x1 - x0, y1 - y0, guard * 10)
    tested = 0
    g2 = guard * guard
    for t in range(samples * 6):
        if tested >= samples:
            break
        if rnd.random() < near:
            vx, vy = rnd.choice(allp)
            r_ = guard * rnd.choice([1.5, 3, 8, 20])
            px, py = vx + rnd.uniform(-r_, r_), vy + rnd.uniform(-r_, r_)
        else:
            px, py = rnd.uniform(x0 - 0.05 * w, x1 + 0.05 * w), rnd.uniform(y0 - 0.05 * w, y1 + 0.05 * w)
        if min_dist2([P, Q], px, py) < g2:
            continue
        tested += 1
        a = sum(1 for poly in P if fwinding(poly, px, py) != 0)
        b = sum(1 for poly in Q if fwinding(poly, px, py) != 0)
        if (a > 0) != (b > 0):
            return (px, py, a, b)
    return None
