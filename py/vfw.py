# Framework shared by all checks: build, parallel execution, violation bookkeeping against
# known_findings.json, evidence files, exit codes.   Standard library only (/usr/bin/python3).
import concurrent.futures as cf
import hashlib
import json
import os
import re
import shutil
import subprocess
import sys
import time

VERIF = os.path.dirname(os.path.dirname(os.path.abspath(__file__)))
REPO = os.environ.get('VERIF_REPO', '/repo')
WORK = os.path.join(VERIF, '.work')
REPLAYS = os.path.join(VERIF, 'replays')
NPROC = int(os.environ.get('VERIF_JOBS', '16'))

SAN_ENV = {
    'ASAN_OPTIONS': 'abort_on_error=1:detect_leaks=0:handle_abort=0:allocator_may_return_null=0:'
                    'max_allocation_size_mb=8192:detect_stack_use_after_return=0',
    'UBSAN_OPTIONS': 'abort_on_error=1:print_stacktrace=1',
}


def seed():
    try:
        return int(os.environ.get('VERIF_SEED', '1'))
    except ValueError:
        return 1


def build(variant='asan'):
    p = subprocess.run([os.path.join(VERIF, 'bin', 'build.sh'), variant], stdout=subprocess.PIPE,
                       stderr=subprocess.PIPE, text=True)
    if p.returncode != 0:
        sys.stderr.write(p.stderr[-6000:])
        print('HARNESS-FAILURE: build of /repo working tree failed')
        sys.exit(2)
    return p.stdout.strip().splitlines()[-1]


def workdir(prop):
    d = os.path.join(WORK, '%s-%d' % (prop, os.getpid()))
    shutil.rmtree(d, ignore_errors=True)
    os.makedirs(d, exist_ok=True)
    return d


def env():
    e = dict(os.environ)
    e.update(SAN_ENV)
    return e


_FRAME = re.compile(r'#\d+ 0x[0-9a-f]+ in (\S+?)(?:\(.*?)? (/\S+?):(\d+)')


def crash_key(prop, stderr_text):
    """Stable key for an abnormal end: kind of report + innermost frame inside gdstk."""
    kind = 'abort'
    m = re.search(r'(AddressSanitizer|UndefinedBehaviorSanitizer|LeakSanitizer): ([\w-]+)', stderr_text)
    if m:
        kind = m.group(2)
    elif 'runtime error:' in stderr_text:
        m2 = re.search(r'runtime error: ([a-z -]+)', stderr_text)
        kind = 'ubsan-' + (m2.group(1).strip().replace(' ', '-')[:40] if m2 else 'error')
    elif 'Assertion' in stderr_text:
        kind = 'assert'
    fn = 'unknown'
    for line in stderr_text.splitlines():
        m = _FRAME.search(line)
        if m and (m.group(2).startswith(REPO + '/src') or m.group(2).startswith(REPO + '/include')
                  or m.group(2).startswith(REPO + '/external')):
            fn = m.group(1)
            fn = re.sub(r'<.*>', '', fn)
            break
    else:
        m = re.search(r'(\S+): Assertion', stderr_text)
        if m:
            fn = m.group(1)
    return '%s/crash/%s/%s' % (prop, kind, fn)


class Check:
    """Collects violations, matches them against known findings, writes evidence, decides exit."""

    def __init__(self, prop, tier, level='exploration'):
        self.prop = prop
        self.tier = tier
        self.level = level
        self.t0 = time.time()
        self.violations = []       # (key, detail, replay)
        self.violation_counts = {}
        self.inconclusive = []
        self.coverage = {}
        self.samples = []
        self.fingerprints = set()
        self.distinct_extra = 0    # distinct non-trivial cases counted by a monitor itself (distinct by construction)
        self.evaluations = 0
        self.assumptions = []
        self.rule = ''
        self.harness_errors = []
        self.floors = []           # (name, got, need)
        os.makedirs(REPLAYS, exist_ok=True)
        kf = os.path.join(VERIF, 'known_findings.json')
        self.known = json.load(open(kf)) if os.path.exists(kf) else []

    # ---- bookkeeping
    def violation(self, key, detail, replay_obj=None):
        n = self.violation_counts.get(key, 0)
        self.violation_counts[key] = n + 1
        if n >= 3:          # three witnesses per key are kept; the rest is only counted
            return
        path = None
        if replay_obj is not None:
            path = os.path.join(REPLAYS, '%s-%s-%d.json' % (self.prop, hashlib.sha1(
                (key + json.dumps(replay_obj, sort_keys=True, default=str)).encode()).hexdigest()[:10], seed()))
            with open(path, 'w') as f:
                json.dump({'property': self.prop, 'key': key, 'detail': detail, 'replay': replay_obj}, f, indent=1,
                          default=str)
        self.violations.append((key, detail, path))

    def inconc(self, what):
        self.inconclusive.append(what)

    def fp(self, x):
        self.fingerprints.add(x)

    def sample(self, x):
        if len(self.samples) < 6:
            self.samples.append(x)

    def cov(self, k, n=1):
        self.coverage[k] = self.coverage.get(k, 0) + n

    def covmax(self, k, n):
        if self.coverage.get(k, 0) < n:
            self.coverage[k] = n

    def floor(self, name, got, need):
        self.floors.append((name, got, need))

    def harness_error(self, msg):
        self.harness_errors.append(msg)

    # ---- verdict
    def finish(self):
        wall = time.time() - self.t0
        open_known = {k['key']: k for k in self.known if k.get('status') == 'open' and k.get('property') == self.prop}
        reported = []
        known_hit = {}
        for key, detail, path in self.violations:
            if key in open_known:
                known_hit.setdefault(key, detail)
            else:
                reported.append((key, detail, path))
        cov = dict(self.coverage)
        cov['evaluations'] = int(self.evaluations)
        cov['distinct_nontrivial'] = len(self.fingerprints) + self.distinct_extra
        cov['rule'] = self.rule
        cov['samples'] = self.samples if self.samples else ['(none recorded)']
        cov['inconclusive'] = len(self.inconclusive)
        cov['known_findings_reproduced'] = sorted(known_hit)
        if self.inconclusive:
            cov['inconclusive_examples'] = self.inconclusive[:5]
        ev = {
            'property_id': self.prop, 'tier': self.tier, 'seed': seed(), 'level': self.level,
            'coverage': cov, 'assumptions': self.assumptions, 'wall_s': round(wall, 2),
            'violations': sum(self.violation_counts.get(k, 0) for k in set(k for k, _, _ in reported)),
        }
        # runs against a scratch copy of the repository (mutant / seeded-change testing) keep their evidence apart
        evdir = os.environ.get('VERIF_EVIDENCE_DIR') or os.path.join(VERIF, 'evidence')
        os.makedirs(evdir, exist_ok=True)
        with open(os.path.join(evdir, self.prop + '.json'), 'w') as f:
            json.dump(ev, f, indent=1, default=str)
            f.write('\n')
        for key in sorted(known_hit):
            print('KNOWN-FINDING: property=%s %s -- %s' % (self.prop, key, open_known[key].get('what', '')))
        seen = set()
        for key, detail, path in reported:
            if key in seen:
                continue
            seen.add(key)
            print('VIOLATION property=%s replay=%s key=%s :: %s' % (self.prop, path or '-', key, str(detail)[:600]))
        print('%s %s seed=%d: evaluations=%d distinct_nontrivial=%d violations=%d known=%d inconclusive=%d wall=%.1fs' % (
            self.prop, self.tier, seed(), self.evaluations, len(self.fingerprints) + self.distinct_extra, len(reported), len(known_hit),
            len(self.inconclusive), wall))
        if reported:
            sys.exit(1)
        if self.harness_errors:
            for m in self.harness_errors[:10]:
                print('HARNESS-FAILURE: ' + m)
            sys.exit(2)
        bad = [(n, g, need) for n, g, need in self.floors if g < need]
        if bad:
            for n, g, need in bad:
                print('INCONCLUSIVE: coverage floor missed: %s = %s (need >= %s)' % (n, g, need))
            sys.exit(2)
        if self.evaluations and len(self.inconclusive) > max(2, 0.01 * self.evaluations):
            print('INCONCLUSIVE: %d inconclusive cases of %d' % (len(self.inconclusive), self.evaluations))
            sys.exit(2)
        sys.exit(0)


# ------------------------------------------------------------------------------- sharded execution
class Rec:
    """Recorder with Check's recording interface; filled inside a worker process and merged by the parent."""

    def __init__(self, prop, tier):
        self.prop = prop
        self.tier = tier
        self.calls = []
        self.evaluations = 0
        self.coverage = {}

    def violation(self, key, detail, replay_obj=None):
        n = sum(1 for c in self.calls if c[0] == 'violation' and c[1] == key)
        if n >= 3:
            replay_obj = None if n >= 3 else replay_obj
            self.calls.append(('violation', key, '(further witness omitted)', None))
            return
        self.calls.append(('violation', key, detail, replay_obj))

    def inconc(self, what):
        self.calls.append(('inconc', what))

    def fp(self, x):
        self.calls.append(('fp', x))

    def sample(self, x):
        if sum(1 for c in self.calls if c[0] == 'sample') < 2:
            self.calls.append(('sample', x))

    def cov(self, k, n=1):
        self.coverage[k] = self.coverage.get(k, 0) + n

    def covmax(self, k, n):
        self.calls.append(('covmax', k, n))

    def harness_error(self, msg):
        self.calls.append(('harness_error', msg))


def merge(chk, rec):
    chk.evaluations += rec.evaluations
    for k, v in rec.coverage.items():
        chk.cov(k, v)
    for c in rec.calls:
        getattr(chk, c[0])(*c[1:])


def _shard_entry(args):
    work, prop, tier, b, indices = args
    rec = Rec(prop, tier)
    try:
        work(rec, b, indices)
    except Exception:
        import traceback
        rec.harness_error('worker failed: ' + traceback.format_exc()[-1500:])
    return rec


def run_sharded(chk, b, n, work, nshards=None):
    """work(rec, build_dir, indices) generates, executes and judges the cases with the given indices."""
    import multiprocessing
    nshards = max(1, min(nshards or NPROC, n))
    args = [(work, chk.prop, chk.tier, b, list(range(k, n, nshards))) for k in range(nshards)]
    ctx = multiprocessing.get_context('fork')
    with ctx.Pool(nshards) as pool:
        for rec in pool.imap_unordered(_shard_entry, args):
            merge(chk, rec)


# ------------------------------------------------------------------------------- online monitors
def run_online(chk, exe, nbatches, extra=(), timeout=3600):
    """Run an in-process monitor as nbatches parallel processes; aggregate its JSON lines."""
    stats = {}
    wd = workdir(chk.prop)

    def one(b):
        cmd = ['{BUILD}/' + os.path.basename(exe), '--seed', str(seed()), '--batch', str(b), '--nbatches', str(nbatches), '--tier', chk.tier] + list(extra)
        try:
            p = subprocess.run([exe] + cmd[1:], stdout=subprocess.PIPE, stderr=subprocess.PIPE, env=env(), timeout=timeout, cwd=wd)
            return b, cmd, p.returncode, p.stdout.decode('latin-1'), p.stderr.decode('latin-1')
        except subprocess.TimeoutExpired as e:
            return b, cmd, 'timeout', (e.stdout or b'').decode('latin-1'), (e.stderr or b'').decode('latin-1')

    with cf.ThreadPoolExecutor(NPROC) as ex:
        results = list(ex.map(one, range(nbatches)))
    for b, cmd, rc, out, err in results:
        crash_at = None
        got_stats = False
        for line in out.splitlines():
            if not line.startswith('{'):
                continue
            try:
                o = json.loads(line)
            except ValueError:
                continue
            if 'fp' in o:
                chk.fp(o['fp'])
            elif 'distinct_nontrivial' in o:
                chk.distinct_extra += int(o['distinct_nontrivial'])
            elif 'stats' in o:
                got_stats = True
                for k, v in o['stats'].items():
                    if k.startswith('max_') or '_max_' in k:
                        stats[k] = max(stats.get(k, 0), v)
                    else:
                        stats[k] = stats.get(k, 0) + v
            elif 'violation' in o:
                v = o['violation']
                chk.violation(v['key'], v['detail'], {'cmd': cmd + ['--only', v['workload'], '--index', str(v['index'])],
                                                      'workload': v['workload'], 'index': v['index']})
            elif 'sample' in o:
                chk.sample(o['sample'])
            elif 'crash_at' in o:
                crash_at = o['crash_at']
        if rc == 'timeout':
            chk.inconc('batch %d timed out' % b)
        elif rc != 0 or not got_stats:
            key = crash_key(chk.prop, err)
            rcmd = list(cmd)
            if crash_at:
                rcmd += ['--only', crash_at['workload'], '--index', str(crash_at['index'])]
            chk.violation(key, 'monitor process ended abnormally (rc=%s) at %s\n%s' % (rc, crash_at, err[:3000]),
                          {'cmd': rcmd, 'crash_at': crash_at, 'stderr': err[:6000]})
    shutil.rmtree(wd, ignore_errors=True)
    return stats


def replay_cmd(path):
    """Generic replay: re-run the stored command and show its output."""
    o = json.load(open(path))
    r = o.get('replay', {})
    print('replaying %s key=%s' % (o.get('property'), o.get('key')))
    print('recorded detail:', o.get('detail'))
    if 'cmd' in r:
        b = build()
        p = subprocess.run([c.replace('{BUILD}', b) for c in r['cmd']], env=env(), stdout=subprocess.PIPE, stderr=subprocess.STDOUT)
        out = p.stdout.decode('latin-1')
        keep = [l for l in out.splitlines() if not l.startswith('{"fp"')]
        print('\n'.join(keep[-80:]))
        bad = p.returncode != 0 or '"violation"' in out
        print('replay verdict:', 'VIOLATION reproduced' if bad else 'no violation')
        return 1 if bad else 0
    return None
