# C18 - truncated files: every prefix of every file, every reader, in forked children under ASan.
# Crash-point model: a killed save / cut transfer leaves a prefix (DESIGN.md section 6).
import os
import random
import zlib

import gds_codec
import genlib
import script
import vfw
from script import Case

ERR_FIRST = 9  # ErrorCode values >= ChecksumError are errors, 1..8 are warnings
GDS_READERS = ['read_gds', 'read_rawcells', 'gds_info', 'gds_units', 'gds_timestamp', 'gds_timestamp_set']
OAS_READERS = ['oas_precision', 'oas_validate']
NEW_TS = '2031 7 9 1 2 3'


def reader_ops(case, reader, path):
    if reader == 'read_gds':
        case.op('read_gds', path, 0, 0)
    elif reader == 'read_rawcells':
        case.op('read_rawcells', path)
        case.op('raw_release')
    elif reader == 'gds_timestamp_set':
        case.op('truncate', path, 'copy.gds', 1 << 40)
        case.op('gds_timestamp', 'copy.gds', NEW_TS)
    else:
        case.op(reader, path)


def cut_case(cid, full, n, readers, repeat=0):
    c = Case(cid, timeout=30)
    c.op('truncate', full, 't.bin', n)
    if repeat:
        c.op('nofile_limit', 32)
    c.op('fdcount')
    for r in readers:
        if repeat and r == 'gds_timestamp_set':
            continue
        if repeat:
            c.op('repeat', repeat, *([r, 't.bin', 0, 0] if r == 'read_gds' else ([r, 't.bin', 'release'] if r == 'read_rawcells' else [r, 't.bin'])))
            if r == 'read_rawcells':
                c.op('raw_release')
        else:
            reader_ops(c, r, 't.bin')
        c.op('fdcount')
    return c


def make_files(chk, b, tier, wd):
    """Stage 1: valid files - gdstk-written (GDSII, OASIS with option sets) and independently encoded."""
    rnd = random.Random(vfw.seed() * 7919 + 18)
    nlib = 12 if tier == 'quick' else 170
    cases = []
    specs = {}
    oas_sets = [(0, 0, 0x40), (6, 0, 0x80), (9, 1e-3, 0x7f), (0, 0, 0), (3, 0, 0x4f), (0, 1e-3, 0xbf)]
    for i in range(nlib):
        g = genlib.Gen(vfw.seed() * 100003 + i, dict(max_cells=3, oas_props=(i % 2 == 0)))
        lib = g.library()
        # make sure there is at least one reference and one cell with content
        c = Case('mk%d' % i)
        lh, chs = genlib.emit_library(c, lib)
        c.op('write_gds', lh, 'f.gds', rnd.choice([0, 0, 199, 8190]), '2020 2 29 13 14 15')
        c.op('filehex', 'f.gds')
        k = 2 if tier == 'quick' else 3
        for j in range(k):
            level, tol, flags = oas_sets[(i + j * 3) % len(oas_sets)]
            if tier == 'thorough' and j == 2:
                flags = rnd.choice([0x40, 0x80]) | rnd.randrange(0, 0x40)
                level = rnd.randrange(0, 10)
            c.op('write_oas', lh, 'f%d.oas' % j, vfw_fl(tol), level, flags)
            c.op('filehex', 'f%d.oas' % j)
            c.meta.setdefault('oas', []).append((level, tol, flags))
        c.meta['spec'] = lib
        specs[c.id] = c
        cases.append(c)
    ev = script.run_cases(chk, b, cases, wd=wd)
    files = []
    for cid, c in specs.items():
        evs = ev.get(cid, [])
        if not script.check_exit(chk, c, evs):
            continue
        hexes = [e for e in evs if e['op'] == 'filehex']
        for e in hexes:
            if e['hex'] is None:
                chk.harness_error('stage 1: %s missing in %s' % (e['path'], cid))
                continue
            data = bytes.fromhex(e['hex'])
            if e['path'].endswith('.gds'):
                files.append({'name': cid + '.gds', 'data': data, 'kind': 'gds', 'origin': 'gdstk'})
                try:
                    model = gds_codec.decode(data)
                except gds_codec.GdsError as ex:
                    chk.harness_error('stage 1: independent decoder rejects gdstk file of %s: %s (C03 territory)' % (cid, ex))
                    continue
                for v in range(1 if tier == 'quick' else 2):
                    ch = gds_codec.Choices(random.Random(vfw.seed() * 31 + len(files)), hostile=True)
                    files.append({'name': '%s.ind%d.gds' % (cid, v), 'data': gds_codec.encode(model, ch), 'kind': 'gds',
                                  'origin': 'independent encoder'})
            else:
                j = int(e['path'][1:-4])
                level, tol, flags = c.meta['oas'][j]
                files.append({'name': '%s.%d.oas' % (cid, j), 'data': data, 'kind': 'oas', 'origin': 'gdstk',
                              'signed': 1 if flags & 0x40 else (2 if flags & 0x80 else 0), 'opts': (level, tol, flags)})
    return files


def vfw_fl(x):
    return script.fl(x)


def cuts_for(data, boundaries, tier, rnd):
    n = len(data)
    if n <= 4096:
        return list(range(0, n + 1)), True
    s = {0, n}
    for bnd in boundaries:
        for d in (-1, 0, 1):
            if 0 <= bnd + d <= n:
                s.add(bnd + d)
    for _ in range(500):
        s.add(rnd.randrange(0, n))
    return sorted(s), False


def run(tier):
    chk = vfw.Check('C18', tier, level='fault_enumeration')
    b = vfw.build()
    wd = vfw.workdir('C18')
    files = make_files(chk, b, tier, wd)
    rnd = random.Random(vfw.seed())
    cases = []
    index = {}
    exhaustive_files = 0
    for fi, f in enumerate(files):
        path = os.path.join(wd, 'full%d.bin' % fi)
        with open(path, 'wb') as fh:
            fh.write(f['data'])
        f['path'] = path
        data = f['data']
        if f['kind'] == 'gds':
            recs = gds_codec.split_records(data)
            f['boundaries'] = [r[0] for r in recs]
            endlib = [r for r in recs if r[1] == gds_codec.ENDLIB][0]
            f['complete_from'] = endlib[0] + 4
            f['elements_from'] = next((r[0] for r in recs if r[1] == gds_codec.BGNSTR), len(data))
            f['has_ref'] = any(r[1] in (gds_codec.SREF, gds_codec.AREF) for r in recs)
            readers = GDS_READERS
        else:
            f['boundaries'] = []
            f['complete_from'] = len(data)
            readers = OAS_READERS
        cuts, complete = cuts_for(data, f['boundaries'], tier, rnd)
        f['all_prefixes'] = complete
        exhaustive_files += complete
        for n in cuts:
            cid = 'f%d@%d' % (fi, n)
            c = cut_case(cid, path, n, readers)
            index[cid] = (f, n, readers, 0)
            cases.append(c)
            if n % 16 == 3 or n in (0, 14, 15, 16, 17, len(data)):
                cid2 = cid + 'x50'
                c2 = cut_case(cid2, path, n, readers, repeat=50)
                index[cid2] = (f, n, readers, 50)
                cases.append(c2)
    by_id = {c.id: c for c in cases}
    ev = script.run_cases(chk, b, cases, wd=wd)
    # second pass: attribute abnormal ends reader by reader
    died = [cid for cid in by_id if not (ev.get(cid) and ev[cid][-1].get('op') == 'exit' and ev[cid][-1]['how'] == 'ok')]
    extra = []
    for cid in died[:400]:
        f, n, readers, rep = index[cid]
        for r in readers:
            c = cut_case('%s!%s' % (cid, r), f['path'], n, [r], repeat=rep)
            index[c.id] = (f, n, [r], rep)
            by_id[c.id] = c
            extra.append(c)
    if extra:
        ev.update(script.run_cases(chk, b, extra, wd=wd))
    full_results = {}
    for fi, f in enumerate(files):
        cid = 'f%d@%d' % (fi, len(f['data']))
        full_results[fi] = parse_results(ev.get(cid, []))
    nontrivial = 0
    for cid, c in by_id.items():
        f, n, readers, rep = index[cid]
        evs = ev.get(cid, [])
        chk.evaluations += 1
        c.meta = {'file': f['name'], 'origin': f['origin'], 'cut': n, 'size': len(f['data']), 'readers': readers, 'repeat': rep,
                  'file_hex': f['data'].hex() if len(f['data']) <= 20000 else '(large)'}
        if cid in died and '!' not in cid:
            chk.cov('children_ended_abnormally')
            continue   # judged through the per-reader re-runs
        if not script.check_exit(chk, c, evs):
            continue
        fi = files.index(f)
        judge(chk, c, f, n, rep, evs, full_results[fi])
        if f['kind'] == 'gds' and f.get('has_ref') and f['elements_from'] < n < f['complete_from']:
            nontrivial += 1
            chk.fp(cid)
        elif f['kind'] == 'oas' and 14 < n < len(f['data']) and f.get('signed'):
            nontrivial += 1
            chk.fp(cid)
    for f in files[:3]:
        chk.sample({'file': f['name'], 'origin': f['origin'], 'bytes': len(f['data']), 'all_prefixes_enumerated': f['all_prefixes'],
                    'first_bytes': f['data'][:24].hex()})
    chk.coverage['files'] = len(files)
    chk.coverage['files_gds_gdstk'] = sum(1 for f in files if f['kind'] == 'gds' and f['origin'] == 'gdstk')
    chk.coverage['files_gds_independent'] = sum(1 for f in files if f['kind'] == 'gds' and f['origin'] != 'gdstk')
    chk.coverage['files_oas'] = sum(1 for f in files if f['kind'] == 'oas')
    chk.coverage['files_with_every_prefix_enumerated'] = exhaustive_files
    chk.coverage['exhaustive'] = exhaustive_files == len(files)
    chk.coverage['total_file_bytes'] = sum(len(f['data']) for f in files)
    chk.rule = ('crash point = prefix length; every prefix 0..n of every file <= 4 KiB (larger files: every record boundary +-1 and '
                '500 random cuts); per cut one forked child runs read_gds, read_rawcells, gds_info, gds_units, gds_timestamp (read and '
                'rewrite on a copy) or oas_precision, oas_validate and records error codes, emptiness, values and the open-descriptor '
                'count after each call; a subset of cuts repeats each reader 50 times under RLIMIT_NOFILE=32. Non-trivial = cut strictly '
                'inside the structure section of a GDSII file that contains references, or strictly inside a signed OASIS file. '
                'exhaustive=true means every file of this run had all its prefixes enumerated (complete per file, not over files).')
    chk.assumptions = ['a killed writer leaves a prefix (buffered stdio, no backward seeks before fclose) - DESIGN.md 6.1',
                       'heap leaks on error paths are not part of the property (detect_leaks=0)',
                       'the full OASIS loader is outside the property (DESIGN.md 6.3)']
    chk.floor('files', len(files), 30 if tier == 'quick' else 400)
    chk.floor('nontrivial cuts', nontrivial, 5000)
    import shutil
    shutil.rmtree(wd, ignore_errors=True)
    chk.finish()


def parse_results(evs):
    res = {}
    fds = []
    for e in evs:
        op = e.get('op')
        if e.get('k') == 'call':
            continue
        if op == 'fdcount':
            fds.append(e['n'])
        elif op == 'gds_timestamp':
            res.setdefault('gds_timestamp_set' if e['set'] else 'gds_timestamp', []).append(e)
        elif op in ('read_gds', 'read_rawcells', 'gds_info', 'gds_units', 'oas_precision', 'oas_validate'):
            res.setdefault(op, []).append(e)
    res['fds'] = fds
    return res


def judge(chk, c, f, n, rep, evs, full):
    res = parse_results(evs)
    rp = {'case': c.text(), 'meta': c.meta}
    fds = res['fds']
    if len(set(fds)) > 1:
        # find the first reader after which the count changed
        chk.violation('C18/fd-leak/' + leak_reader(evs), 'open descriptors %s around the readers (file %s cut %d/%d, %d calls each)' % (
            fds, f['name'], n, len(f['data']), max(rep, 1)), rp)
    strict = n < f['complete_from']
    if f['kind'] == 'gds':
        for op in ('read_gds', 'read_rawcells', 'gds_info'):
            for e in res.get(op, []):
                chk.cov('reader_calls_' + op)
                if strict:
                    empty = e.get('empty', True) if op == 'read_gds' else (e.get('count', 0) == 0 if op == 'read_rawcells' else True)
                    if e['err'] < ERR_FIRST:
                        chk.violation('C18/%s/truncated-read-as-success' % op,
                                      '%s returned code %d (not an error) on %s cut at %d of %d' % (op, e['err'], f['name'], n, len(f['data'])), rp)
                    elif not empty:
                        chk.violation('C18/%s/partial-result' % op, '%s returned an error but a non-empty result (cut %d of %s)' % (op, n, f['name']), rp)
                else:
                    fe = (full.get(op) or [None])[0]
                    if fe is not None and (e['err'] != fe['err'] or e.get('ncells') != fe.get('ncells') or e.get('count') != fe.get('count')):
                        chk.violation('C18/%s/complete-stream-differs' % op, 'cut %d lies after ENDLIB yet %s differs from the full file' % (n, op), rp)
        for op, keys in (('gds_units', ('unit', 'precision')), ('gds_timestamp', ('tm',)), ('gds_timestamp_set', ('tm',))):
            for e in res.get(op, []):
                chk.cov('reader_calls_' + op)
                fe = (full.get(op) or [None])[0]
                if fe is None:
                    continue
                if e['err'] >= ERR_FIRST:
                    chk.cov(op + '_reported_error')
                    continue
                if any(e[k] != fe[k] for k in keys) or (e['err'] != 0 and e['err'] != fe['err']):
                    chk.violation('C18/%s/wrong-values' % op, '%s on cut %d of %s returned %s (code %d); the complete file gives %s' % (
                        op, n, f['name'], [e[k] for k in keys], e['err'], [fe[k] for k in keys]), rp)
                else:
                    chk.cov(op + '_returned_exact_values')
    else:
        for e in res.get('oas_validate', []):
            chk.cov('reader_calls_oas_validate')
            if strict and f.get('signed') and e['ok'] and e['err'] == 0:
                chk.violation('C18/oas_validate/truncated-signature-accepted',
                              'oas_validate accepts cut %d of %d of signed file %s' % (n, len(f['data']), f['name']), rp)
            if not strict and f.get('signed'):
                data = f['data']
                expect = zlib.crc32(data[:-4]) if f['signed'] == 1 else sum(data[:-4]) & 0xffffffff
                stored = int.from_bytes(data[-4:], 'little')
                if not (e['ok'] and e['err'] == 0 and e['signature'] == expect == stored):
                    chk.violation('C18/oas_validate/complete-file', 'complete signed file %s: ok=%s err=%d signature=%08x expected %08x stored %08x' % (
                        f['name'], e['ok'], e['err'], e['signature'], expect, stored), rp)
        for e in res.get('oas_precision', []):
            chk.cov('reader_calls_oas_precision')


def leak_reader(evs):
    last = None
    prev_fd = None
    for e in evs:
        if e.get('op') == 'fdcount':
            if prev_fd is not None and e['n'] != prev_fd:
                return last or 'unknown'
            prev_fd = e['n']
        elif e.get('k') != 'call' and e.get('op') not in ('exit',):
            last = e['op']
    return last or 'unknown'


def replay(path):
    import json
    o = json.load(open(path))
    r = o['replay']
    print('replaying', o['key'])
    print(o['detail'])
    b = vfw.build()
    wd = vfw.workdir('C18replay')
    meta = r.get('meta', {})
    text = r['case']
    if meta.get('file_hex') and meta['file_hex'] != '(large)':
        full = os.path.join(wd, 'full.bin')
        open(full, 'wb').write(bytes.fromhex(meta['file_hex']))
        lines = text.split('\n')
        lines = [('truncate %s t.bin %s' % (full, l.split()[-1])) if l.startswith('truncate /') else l for l in lines]
        text = '\n'.join(lines)
    sp = os.path.join(wd, 'replay.txt')
    open(sp, 'w').write(text)
    import subprocess
    out = os.path.join(wd, 'out.jsonl')
    subprocess.run([os.path.join(b, 'gdsmon'), sp, out, wd], env=vfw.env())
    print(open(out).read()[-6000:])
    return 0
