#!/usr/bin/python3
# Single entry point:  check.py <Cxx> [--tier quick|thorough] [--replay <file>]
import importlib
import os
import sys

sys.path.insert(0, os.path.join(os.path.dirname(os.path.abspath(__file__)), 'py'))


def main():
    if len(sys.argv) < 2:
        print('usage: check.py <property id> [--tier quick|thorough] [--replay file]')
        sys.exit(2)
    prop = sys.argv[1].upper()
    tier = os.environ.get('VERIF_TIER', 'quick')
    replay = None
    a = sys.argv[2:]
    while a:
        if a[0] == '--tier':
            tier = a[1]
            a = a[2:]
        elif a[0] == '--replay':
            replay = a[1]
            a = a[2:]
        else:
            a = a[1:]
    if tier not in ('quick', 'thorough'):
        tier = 'quick'
    try:
        mod = importlib.import_module(prop.lower())
    except ImportError as e:
        print('HARNESS-FAILURE: no check module for %s (%s)' % (prop, e))
        sys.exit(2)
    if replay:
        sys.exit(mod.replay(replay) or 0)
    mod.run(tier)


if __name__ == '__main__':
    main()
