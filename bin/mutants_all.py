#!/usr/bin/python3
"""Run every patch under mutants/ and seeded*/ against the check of its property; write mutants/RESULTS.tsv.
   /repo is patched and restored by bin/mutant.sh - nothing else may use /repo while this runs."""
import glob, json, os, re, subprocess, sys
os.chdir('/verif')
kf = json.load(open('known_findings.json'))
commit_prop = {}
for e in kf:
    if e.get('commit'):
        commit_prop.setdefault(e['commit'][:7], e['property'])
jobs = []
for p in sorted(glob.glob('mutants/*.diff')):
    b = os.path.basename(p)
    m = re.match(r'm_(c\d\d)_', b)
    if m:
        jobs.append((p, m.group(1).upper()))
        continue
    m = re.match(r'revert_([0-9a-f]{7})_', b)
    if m and m.group(1) in commit_prop:
        jobs.append((p, commit_prop[m.group(1)]))
    else:
        print('no property for', b)
for d in sorted(glob.glob('seeded/C??')) + sorted(glob.glob('seeded2/C??')) + sorted(glob.glob('seeded3/C??')) + sorted(glob.glob('seeded4/C??')):
    jobs.append((d + '/patch.diff', os.path.basename(d)))
only = [a for a in sys.argv[1:] if not a.startswith('-')]
NW = 4
# scratch copies of the repository (outside /repo and /verif, removed at the end); /repo itself is not touched
import concurrent.futures as cf
import queue
scratch = queue.Queue()
made = []
for k in range(NW):
    d = '/tmp/verif_mut_%d_%d' % (os.getpid(), k)
    subprocess.run(['git', '-C', '/repo', 'worktree', 'add', '-q', '--detach', d, 'HEAD'], check=True)
    made.append(d)
    scratch.put(d)
todo = [(p, prop) for p, prop in jobs if not only or prop in only]


def one(job):
    p, prop = job
    d = scratch.get()
    try:
        env = dict(os.environ, VERIF_SCRATCH=d)
        out = subprocess.run(['bin/mutant.sh', p, prop], stdout=subprocess.PIPE, stderr=subprocess.STDOUT, env=env).stdout.decode('latin-1')
    finally:
        scratch.put(d)
    line = [l for l in out.splitlines() if l.startswith(prop + ' ')]
    verdict = 'BROKEN'
    key = ''
    if line:
        for v in ('DETECTED', 'MISSED', 'BROKEN', 'does not apply'):
            if v in line[-1]:
                verdict = v
                break
        mk = re.search(r'key=(\S+)', line[-1])
        key = mk.group(1) if mk else ''
    print(prop, p, verdict, key, flush=True)
    return (prop, p, verdict, key)


try:
    with cf.ThreadPoolExecutor(NW) as ex:
        rows = list(ex.map(one, todo))
finally:
    for d in made:
        subprocess.run(['git', '-C', '/repo', 'worktree', 'remove', '--force', d])
    subprocess.run(['git', '-C', '/repo', 'worktree', 'prune'])
rows.sort()
with open('mutants/RESULTS.tsv' if not only else 'mutants/RESULTS.partial.tsv', 'w') as f:
    f.write('property\tpatch\tverdict\tfirst violation key\n')
    for r in rows:
        f.write('\t'.join(r) + '\n')
print('detected %d / %d' % (sum(1 for r in rows if r[2] == 'DETECTED'), len(rows)))
