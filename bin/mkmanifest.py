#!/usr/bin/python3
# Regenerates MANIFEST.json from the table below (kept as code so it is always schema-valid).
import json, os, subprocess
V = os.path.dirname(os.path.dirname(os.path.abspath(__file__)))
props = [json.loads(l) for l in open(os.path.join(V, 'properties.jsonl'))]
ids = [p['id'] for p in props]

CHECKS = {
 # id: (level, technique, level text, level note, design_ref)
 'C20': ('exploration', 'online reference-model monitor (std::map/std::set/list models) under ASan+UBSan',
         'every return value of the real containers/property lists/sort routines is compared op-by-op with an executable '
         'abstract model over seeded collision-heavy histories; held on the histories explored, nothing more',
         'trusts std::map/std::set/std::sort and the monitor code; histories are sampled, not enumerated', '7/C20'),
}
NOT_YET = {}
for i in ids:
    if i not in CHECKS:
        NOT_YET[i] = 'check not built yet (work in progress; design in DESIGN.md section 7)'

hook_commits = subprocess.run(['git', '-C', '/repo', 'log', '--format=%H', '--grep=^verif:'], stdout=subprocess.PIPE,
                              text=True).stdout.split()
m = {
 'version': 1,
 'setup_cmd': 'bin/build.sh asan >/dev/null',
 'hooks': {
   'guard': 'GDSTK_VERIF',
   'enable': 'bin/build.sh compiles /repo/src/*.cpp and external/clipper directly with -DGDSTK_VERIF -fsanitize=address,undefined (no CMake)',
   'baseline_off_cmd': 'cmake --build /repo/_build --target examples && ctest --test-dir /repo/_build -j8 --timeout 900',
   'source_commits': hook_commits,
   'add_only': True,
 },
 'engines': [
   {'name': 'gdsmon', 'path': 'driver/gdsmon.cpp', 'kind_free_text': 'fork-per-case operation server linked to sanitized gdstk; JSON-lines event log checked offline by py/oracle code', 'serves_properties': []},
   {'name': 'online monitors', 'path': 'driver/mon_*.cpp', 'kind_free_text': 'in-process reference-model monitors', 'serves_properties': ['C20']},
 ],
 'checks': [],
 'not_applicable': [{'property_id': i, 'reason': r} for i, r in sorted(NOT_YET.items())],
 'notes': 'All checks: ./check.py <id> --tier quick|thorough; replay with ./check.py <id> --replay <file>. Known findings in known_findings.json.',
}
for i in ids:
    if i in CHECKS:
        lvl, tech, text, note, ref = CHECKS[i]
        m['checks'].append({
          'property_id': i, 'quick_cmd': './check.py %s --tier quick' % i, 'thorough_cmd': './check.py %s --tier thorough' % i,
          'evidence_file': 'evidence/%s.json' % i, 'replay_cmd_template': './check.py %s --replay {path}' % i,
          'engine': 'gdsmon' if i not in ('C14', 'C19', 'C20') else 'online monitors',
          'level_claimed': {'category': lvl, 'text': text, 'design_ref': 'DESIGN.md ' + ref},
          'level_note': note, 'technique': tech})
json.dump(m, open(os.path.join(V, 'MANIFEST.json'), 'w'), indent=1)
print('MANIFEST.json: %d checks, %d not_applicable' % (len(m['checks']), len(m['not_applicable'])))
