#!/usr/bin/python3
# Regenerates MANIFEST.json from the table below (kept as code so it is always schema-valid).
import json, os, subprocess
V = os.path.dirname(os.path.dirname(os.path.abspath(__file__)))
props = [json.loads(l) for l in open(os.path.join(V, 'properties.jsonl'))]
ids = [p['id'] for p in props]

CHECKS = {
 # id: (level, technique, level text, level note, design_ref)
 'C01': ('exploration', 'differential round-trip monitor: gdstk write_gds/read_gds vs canonical model computed from the spec with exact rational rounding, under ASan+UBSan',
         'the library re-loaded from the file is compared item by item (polygons, paths, labels, references, arrays, properties, units) with a '
         'model derived from the generating spec only; regions for elements GDSII cannot hold; 2nd and 3rd cycles must be fixpoints',
         'spec-derived oracle in py/model.py; outlines of non-simple paths are observed from gdstk (C07/C08 decide them); sampled libraries', '7/C01'),
 'C02': ('exploration', 'round-trip monitor with an exact-rational reference model: library specification vs re-loaded library after write_oas/read_oas under random option sets, fixpoint over 2-3 cycles, signature recomputed from the bytes, independent strict OASIS decoder on the file; under ASan+UBSan',
         'cells, polygons (orientation-independent vertex cycles on the grid), simple paths (half width, extensions, centre line), labels, references (also to cells outside the library), repetitions as displacement multisets, 32-bit tags, '
         'properties (names, value order and kinds) equal between specification and first load; cycles 2 and 3 equal the first; CRC32/CHECKSUM32 stored = recomputed = oas_validate; '
         'shapes aimed at the rectangle/trapezoid/compact-trapezoid/circle detectors; detected circles paired within tolerance + 3 grid units',
         'oracle in py/oasmodel.py + py/oas_codec.py; circle tolerance drawn of the order of the grid; cases with a coordinate exactly half way between grid points are skipped (counted); labels compare text, position, tag, repetition, properties', '7/C02'),
 'C03': ('exploration', 'differential monitor against an independent GDSII codec (spec-derived encoder with random legal choices + strict decoder)',
         'reader: every stream the independent encoder emits must load to the layout it encodes; writer: every file gdstk writes must pass '
         'the strict decoder and decode to the model of the spec',
         'trusts py/gds_codec.py (DESIGN.md appendix A); sampled layouts and serialisation choices', '7/C03'),
 'C04': ('exploration', 'differential monitor against an independent specification-derived codec: encoder with randomised serialisation choices -> read_oas -> model equality; write_oas -> strict decoder -> model equality and truth of END record, table offsets, signature and standard properties; under ASan+UBSan',
         'reader: every record kind in the property, modal reuse of every modal variable, relative mode, repetition types 0-11, point-list types 0-5, real forms 0-7, 26 compact trapezoids, names inline / by reference / tables anywhere / strict flags, CBLOCKs, PADs, validation schemes; '
         'writer: strict decode (END = 256 bytes, offsets point at the right record kind, signature), decoded layout = saved library, S_TOP_CELL / S_CELL_OFFSET / S_BOUNDING_BOX / S_*_MAX_* against the decoded file',
         'the reading of SEMI P39 in DESIGN.md appendix B; the encoder never reuses a modal variable across CELL or name records; encoder and decoder are cross-checked on every case before gdstk is judged (disagreement = harness error); '
         'modal-trace hook H2 of the design was not built: the reader is judged on end results only', '7/C04'),
 'C05': ('exploration', 'region monitor: exact integer winding numbers of the rounded operands at guarded sample points + exact area identities, under ASan+UBSan',
         'every boolean result is evaluated at <= 260 sample points per operation with exact arithmetic: membership = op(membership of operands), no point '
         'covered twice, |winding| <= 1; area identities among or/and/xor/not; chained operations feed results with slits back in; 4 % of the pairs come from a corpus of '
         'touching configurations (pieces touching at a vertex or along an edge, holes poking out of their owner by rounding) under random lattice symmetries; a failed '
         'area identity is attributed to the open finding contour-with-reversed-lobe only when the exact covered-area identities hold and the lobe is present in the raw output '
         'of the bundled Clipper for the same operands (driver op clipper_raw)',
         'points within 2 grid units of an operand edge are not judged; operands sampled from lattice polygon families', '7/C05'),
 'C06': ('exploration', 'reference-model monitor: the spec flattened by hand (composed 2x3 matrices and repetition vectors) vs every hierarchy query, under ASan+UBSan',
         'up to 15 queries per library on cells and references (repetitions applied or attached, depth limits, tag filters on polygons, labels and paths, paths, labels), deep copy + mutate + free, '
         'then flatten and re-query; polygon sets matched vertex by vertex, path results as guarded regions',
         'leaf path outlines observed from to_polygons of the untransformed leaf; all paths scale their width; at most 300 flattened instances per library', '7/C06'),
 'C08': ('exploration', 'reference-semantics monitor: analytic sections (segment, arc, Bezier, parametric families) and width/offset laws rebuilt from the call arguments; queries, spine, element centres and winding-number probes of the outline compared with them; under ASan+UBSan',
         'per call: section count, one width and one offset law per section per element, end point; position/gradient/width/offset at integer (both sides), interior and out-of-range parameters; '
         'spine() and element_center(): returned points on the analytic curve, analytic curve within 3 tolerances of the polyline; outline: points inside the band inside, points beyond every section, joint and cap outside, '
         'joints covered, end planes for all four end styles; transforms at the end or in the middle of the history',
         'oracle in py/c08.py; Hobby control points are observed then verified (pass-through, tangent continuity); laws kept continuous; cusps, curvature radius below 2.5 x (half width + offset), '
         'self-approach and joints sharper than 100 degrees are outside the domain and counted; continuation of a section beyond its end at a kinked joint is only judged where two natural continuations agree; '
         'error codes from the intersection search are advisory and only counted', '7/C08'),
 'C09': ('exploration', 'reference-model monitor: extrema and hull predicates over the hand-flattened geometry vs bounding_box/convex_hull with fresh, shared and repeated caches',
         'boxes must equal the extrema of all flattened geometry points, hulls must contain every point and have only geometry points as corners, cached == uncached',
         'leaf path outlines observed from to_polygons; libraries sampled with degenerate leaves, explicit offset lists and rotated references forced in', '7/C09'),
 'C10': ('exploration', 'reference-model monitor: hand-composed 2x3 matrices vs element fields and outlines after transform sequences, under ASan+UBSan',
         'vertices/spines equal the matrix image; width/offset/extension scaling rules; label/reference fields must reproduce the composed placement; repetitions transformed on their own (every kind, sequences) map each vector by the linear part; '
         'outline(T(path)) vs T(outline(path)) by guarded region sampling',
         'sampled transform sequences; outline commutation only where widths follow the scaling', '7/C10'),
 'C11': ('exploration', 'reference-model monitor: the checker\'s own enumeration of the vector set vs get_count/get_offsets/get_extrema/apply_repetition/transform, under ASan+UBSan',
         'all five repetition kinds on all five element kinds, with boundary counts 0/1, negative spacings, duplicates; copies compared field by field and '
         'mutated to show independence from the original',
         'empty lattices only checked for mutual consistency (ambiguity recorded in DESIGN.md); sampled repetitions', '7/C11'),
 'C12': ('exploration', 'region monitor (exact winding/area on the precision grid) + in-code progress hook H1 deciding termination in logical steps',
         'fracture pieces and slice bins are checked for vertex limit, copied attributes, exact area and exact membership (exactly one piece covers '
         'each interior sample point); the re-slicing loop is bounded by the hook; write_gds(max_points in {0..6, 8, 17, 199, 8190}) of the polygon and of a path outline: '
         'the boundaries read back with the independent decoder are the shape itself (limits 0..4) or a partition of it',
         'polygons simple by construction; points within 2 grid units of an original edge are not judged', '7/C12, 4/H1'),
 'C13': ('exploration', 'region monitor: exact membership + float distance to the rounded input boundary at sample points outside a guard band around d',
         'points nearer than |d|-g must be gained/lost, points farther than reach*|d|+g must not, for all three joins, both signs, both union settings, '
         'split regions and keyholes',
         'guard g = 2 + reach + arc sagitta grid units (integer offsetting artefacts); corner angles >= 20 degrees (known finding for needle tips)', '7/C13'),
 'C14': ('exploration', 'online monitor with exact __int128 winding-number / shoelace oracle; exhaustive on small grids',
         'every answer of contain/contain_all/contain_any/inside/all_inside/any_inside/area/signed_area/perimeter is compared with '
         'exact integer predicates; complete for all vertex lists of length 0..4 on a 4x4 grid x 81 query points (thorough: +5-vertex '
         'and 5x5), sampled beyond that',
         'trusts the 60-line integer oracle (oracle_geom.cpp, no gdstk headers); coordinates restricted to exactly representable dyadic values', '7/C14'),
 'C07': ('exploration', 'reference-geometry monitor: element centre line rebuilt from the observed spine and per-point width/offset entries; winding-number probes of the outline against distance to that centre line; per-call bookkeeping assertions; under ASan+UBSan',
         'after every construction call: one width/offset entry per spine point per element, taper ends exactly at the requested value and runs monotonically; '
         'outline: points within 0.6 half widths of the centre line inside, points beyond join reach + 3 tolerances of the cap-extended centre line outside, every outline vertex within that reach '
         '(not for miter joins), two probes 0.85 half widths to the outer side of every real corner (turns up to 140 degrees on plain polylines), '
         'end planes for flush/round/half-width/extended ends, circular bends (arc mid point in, sharp corner out, consecutive bends sharing a short segment), duplicate removal keeps elements aligned; '
         'simple paths: the GDSII and OASIS PATH records read back from the bytes with the independent decoders (centre line within tolerance + 2 grid units of the oracle centre line, width, end style, extensions)',
         'oracle in py/c07.py; elements whose centre line folds (offset or half width eats a whole segment at a corner) or approaches itself are outside the stated domain and skipped, counted in evidence; '
         'PATH-record equivalence of simple paths is decided by C01/C03', '7/C07'),
 'C15': ('exploration', 'reference-semantics monitor: analytic curve evaluation with tracked curve state (end point, last control, end tangent) vs the vertices appended by every call, under ASan+UBSan',
         'per section: finite vertices, requested end point, every vertex located on the exact section with non-decreasing parameter, deviation <= 5 tolerances for arcs and '
         'non-doubling-back polynomial sections, fitted circle/tangent for turns, pass-through for interpolations; primitives against their exact outlines (rings: outer and inner boundary, inner ellipse with its own aspect ratio)',
         'analytic oracle in py/c15.py; smooth/turn only generated after sections that define the needed state; interpolation constraints never exactly opposite to a chord', '7/C15'),
 'C16': ('exploration', 'history + executable model: abstract cell graph updated per documented operation semantics, compared with the real graph after every step, under ASan+UBSan',
         'after each of 5-24 edit operations the type and target identity of every reference, library membership, top-level set, dependency sets and tags in use '
         'must equal the model (tag maps of 1-20 entries, so that the table grows while it is filled; references to and replacement of cells outside the library); content compared between start and end',
         'model in py/c16.py; histories sampled; graphs kept acyclic; names kept unique', '7/C16'),
 'C17': ('exploration', 'differential monitor: partial readers vs full reader vs independent decoder; byte-level comparison of re-emitted raw cells and timestamp rewrites',
         'gds_info/gds_units/gds_timestamp, filtered and rescaled loads, raw-cell copies and timestamp rewrites are compared with the full load '
         'and with the independent decoder on files from both writers (5 % of the gdstk-written ones with layer/type numbers above 32767); summary tags also against the tags the full load finds; '
         'paths loaded with a target unit keep the same physical tolerance',
         'trusts py/gds_codec.py; filter sets, units and cell subsets are sampled', '7/C17'),
 'C18': ('fault_enumeration', 'crash-point (prefix) enumeration in forked children under ASan+UBSan with descriptor-count and result monitors',
         'every prefix length of every generated file (complete per file for files <= 4 KiB) x every reader named by the property; '
         'the monitor decides on how the child ended, the returned codes/values and /proc/self/fd counts, also after 50 repeated calls '
         'under RLIMIT_NOFILE=32',
         'crash points are modelled as prefixes (justified in DESIGN.md 6.1); files are sampled (gdstk-written and independently '
         'encoded GDSII, gdstk-written OASIS under several option sets)', '6, 7/C18'),
 'C19': ('exploration', 'online differential monitor against an independent number codec (both stream modes) under ASan+UBSan',
         'encode/decode round trips, independent decoding of gdstk bytes and gdstk decoding of alternative legal encodings for GDSII '
         'reals, OASIS integers, deltas, reals and point lists; systematic on all 7-bit and power-of-16 boundaries, sampled elsewhere',
         'trusts oracle_oasnum.cpp (written from DESIGN.md appendix A/B) and long double / __int128 arithmetic', '7/C19'),
 'C20': ('exploration', 'online reference-model monitor (std::map/std::set/list models) under ASan+UBSan',
         'every return value of the real containers/property lists/sort routines is compared op-by-op with an executable '
         'abstract model over seeded collision-heavy histories; held on the histories explored, nothing more',
         'trusts std::map/std::set/std::sort and the monitor code; histories are sampled, not enumerated', '7/C20'),
}
NOT_YET = {}
for i in ids:
    if i not in CHECKS:
        NOT_YET[i] = 'check not built yet (work in progress; design in DESIGN.md section 7)'

hook_commits = subprocess.run(['git', '-C', '/repo', 'log', '--format=%H', '--grep=^verif:'], stdout=subprocess.PIPE,
                              text=True).stdout.split()
m = {
 'version': 1,
 'setup_cmd': 'bin/build.sh asan >/dev/null',
 'hooks': {
   'guard': 'GDSTK_VERIF',
   'enable': 'bin/build.sh compiles /repo/src/*.cpp and external/clipper directly with -DGDSTK_VERIF -fsanitize=address,undefined (no CMake)',
   'baseline_off_cmd': 'cmake --build /repo/_build --target examples && ctest --test-dir /repo/_build -j8 --timeout 900',
   'source_commits': hook_commits,
   'add_only': True,
 },
 'engines': [
   {'name': 'gdsmon', 'path': 'driver/gdsmon.cpp', 'kind_free_text': 'fork-per-case operation server linked to sanitized gdstk; JSON-lines event log checked offline by py/oracle code', 'serves_properties': []},
   {'name': 'online monitors', 'path': 'driver/mon_*.cpp', 'kind_free_text': 'in-process reference-model monitors', 'serves_properties': ['C14', 'C19', 'C20']},
 ],
 'checks': [],
 'not_applicable': [{'property_id': i, 'reason': r} for i, r in sorted(NOT_YET.items())],
 'notes': 'All checks: ./check.py <id> --tier quick|thorough; replay with ./check.py <id> --replay <file>. Known findings in known_findings.json.',
}
for i in ids:
    if i in CHECKS:
        lvl, tech, text, note, ref = CHECKS[i]
        m['checks'].append({
          'property_id': i, 'quick_cmd': './check.py %s --tier quick' % i, 'thorough_cmd': './check.py %s --tier thorough' % i,
          'evidence_file': 'evidence/%s.json' % i, 'replay_cmd_template': './check.py %s --replay {path}' % i,
          'engine': 'gdsmon' if i not in ('C14', 'C19', 'C20') else 'online monitors',
          'level_claimed': {'category': lvl, 'text': text, 'design_ref': 'DESIGN.md ' + ref},
          'level_note': note, 'technique': tech})
json.dump(m, open(os.path.join(V, 'MANIFEST.json'), 'w'), indent=1)
print('MANIFEST.json: %d checks, %d not_applicable' % (len(m['checks']), len(m['not_applicable'])))
