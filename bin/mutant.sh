#!/bin/bash
# bin/mutant.sh <patch> <property> [tier]: apply a patch to /repo, run the property's check, undo the patch.
# Prints DETECTED if the check exits 1 with a VIOLATION line, MISSED if it exits 0, BROKEN otherwise.
set -u
P="$(readlink -f "$1")"; PROP="$2"; TIER="${3:-quick}"
cd /verif
if ! git -C /repo apply --check "$P" 2>/dev/null; then echo "$PROP $(basename $P): patch does not apply"; exit 3; fi
git -C /repo apply "$P"
OUT=$(./check.py "$PROP" --tier "$TIER" 2>&1); RC=$?
git -C /repo checkout -- . 
if [ $RC -eq 1 ] && echo "$OUT" | grep -q "^VIOLATION property=$PROP"; then
  echo "$PROP $(basename $P): DETECTED ($(echo "$OUT" | grep -c '^VIOLATION') keys; first: $(echo "$OUT" | grep '^VIOLATION' | head -1 | cut -c1-200))"
elif [ $RC -eq 0 ]; then echo "$PROP $(basename $P): MISSED"; 
else echo "$PROP $(basename $P): BROKEN rc=$RC: $(echo "$OUT" | tail -3 | cut -c1-300)"; fi
