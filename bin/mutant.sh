#!/bin/bash
# bin/mutant.sh <patch> <property> [tier]
#   default: apply the patch to /repo, run the property's check, undo the patch (git -C /repo checkout -- .).
#   with VERIF_SCRATCH=<dir>: apply it to a scratch copy <dir> of the repository instead (created with `git worktree add`), leave /repo
#   alone, keep evidence in <dir>/.evidence - several of these can run side by side (bin/mutants_all.py does).
# Prints DETECTED if the check exits 1 with a VIOLATION line, MISSED if it exits 0, BROKEN otherwise.
set -u
P="$(readlink -f "$1")"; PROP="$2"; TIER="${3:-quick}"
cd /verif
TREE="${VERIF_SCRATCH:-/repo}"
if ! git -C "$TREE" apply --check "$P" 2>/dev/null; then echo "$PROP $(basename $P): patch does not apply"; exit 3; fi
git -C "$TREE" apply "$P"
if [ "$TREE" = /repo ]; then
  OUT=$(./check.py "$PROP" --tier "$TIER" 2>&1); RC=$?
else
  OUT=$(VERIF_REPO="$TREE" VERIF_EVIDENCE_DIR="$TREE/.evidence" VERIF_KEEP_BUILDS=40 ./check.py "$PROP" --tier "$TIER" 2>&1); RC=$?
fi
git -C "$TREE" checkout -- .
if [ $RC -eq 1 ] && echo "$OUT" | grep -q "^VIOLATION property=$PROP"; then
  echo "$PROP $(basename $P): DETECTED ($(echo "$OUT" | grep -c '^VIOLATION') keys; first: $(echo "$OUT" | grep '^VIOLATION' | head -1 | cut -c1-200))"
elif [ $RC -eq 0 ]; then echo "$PROP $(basename $P): MISSED";
else echo "$PROP $(basename $P): BROKEN rc=$RC: $(echo "$OUT" | tail -3 | cut -c1-300)"; fi
