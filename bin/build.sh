#!/bin/bash
# Build gdstk from /repo's *current working tree* (contents hashed, so an edited tree gets a
# fresh build) with hooks enabled and ASan+UBSan, plus the /verif drivers.  Prints the build dir.
#   build.sh [asan|plain]
set -euo pipefail
VARIANT="${1:-asan}"
REPO="${VERIF_REPO:-/repo}"
VERIF="$(cd "$(dirname "$0")/.." && pwd)"
case "$VARIANT" in
  asan)  SAN="-O1 -g -fno-omit-frame-pointer -fsanitize=address,undefined -fno-sanitize=alignment,nonnull-attribute -fno-sanitize-recover=all" ;;
  plain) SAN="-O1 -g -fno-omit-frame-pointer" ;;
  *) echo "unknown variant $VARIANT" >&2; exit 2 ;;
esac
LIBFLAGS="-std=c++11 -DGDSTK_VERIF $SAN -I$REPO/include -I$REPO/external"
DRVFLAGS="-std=c++17 -DGDSTK_VERIF $SAN -I$REPO/include -I$REPO/external -I$VERIF/driver"
HASH=$( { echo "$LIBFLAGS"; echo "$DRVFLAGS"; g++ --version | head -1;
          find "$REPO/src" "$REPO/include" "$REPO/external/clipper" "$VERIF/driver" -type f \( -name '*.cpp' -o -name '*.hpp' -o -name '*.h' -o -name '*.inc' \) -print0 \
            | sort -z | xargs -0 sha1sum; } | sha1sum | cut -c1-16 )
ROOT="$VERIF/.build"
OUT="$ROOT/$VARIANT-$HASH"
mkdir -p "$ROOT"
exec 9>"$ROOT/.lock"
flock 9
if [ -f "$OUT/.done" ]; then touch "$OUT/.done"; echo "$OUT"; exit 0; fi
rm -rf "$OUT"; mkdir -p "$OUT/obj"
# prune old builds (keep the 3 most recent; parallel mutant runs raise VERIF_KEEP_BUILDS)
# (a build is "used" by touching its .done; builds used in the last 3 hours are never pruned, so parallel runs on scratch trees are safe)
for d in $(ls -1dt "$ROOT"/*-* 2>/dev/null | tail -n +"${VERIF_KEEP_BUILDS:-4}"); do
  if [ ! -f "$d/.done" ] || [ -n "$(find "$d/.done" -mmin +180 2>/dev/null)" ]; then rm -rf "$d"; fi
done
{
  for f in "$REPO"/src/*.cpp "$REPO"/external/clipper/clipper.cpp; do
    o="$OUT/obj/lib_$(basename "${f%.cpp}").o"
    printf '%s\0' "g++ $LIBFLAGS -w -c '$f' -o '$o'"
  done
  for f in "$VERIF"/driver/*.cpp; do
    o="$OUT/obj/drv_$(basename "${f%.cpp}").o"
    printf '%s\0' "g++ $DRVFLAGS -Wall -Wno-unused-function -c '$f' -o '$o'"
  done
} | xargs -0 -P 16 -I{} sh -c '{}' >"$OUT/build.log" 2>&1 || { cat "$OUT/build.log" >&2; echo "BUILD FAILED" >&2; exit 2; }
ar rcs "$OUT/libgdstk.a" "$OUT"/obj/lib_*.o
# each driver/<name>.cpp that defines main() becomes an executable; others (oracle_*.cpp, *_util.cpp) are linked into all
MAINS=(); COMMON=()
for f in "$VERIF"/driver/*.cpp; do
  b=$(basename "${f%.cpp}")
  if grep -q '^int main' "$f"; then MAINS+=("$b"); else COMMON+=("$OUT/obj/drv_$b.o"); fi
done
for b in "${MAINS[@]}"; do
  g++ $SAN -o "$OUT/$b" "$OUT/obj/drv_$b.o" "${COMMON[@]}" "$OUT/libgdstk.a" -lz -lqhull_r >>"$OUT/build.log" 2>&1 \
    || { cat "$OUT/build.log" >&2; echo "LINK FAILED" >&2; exit 2; }
done
rm -rf "$OUT/obj"
touch "$OUT/.done"
echo "$OUT"
