#!/bin/bash
# bin/soak.sh <first seed> <last seed> [tier] [checks...]: run the checks over a range of VERIF_SEED values; one line per run.
# Used to look for rare alarms on the unchanged tree (a single one voids a check) before registering changes.
A="$1"; B="$2"; TIER="${3:-quick}"; shift 3 2>/dev/null || shift $#
CHECKS="${*:-C01 C02 C03 C04 C05 C06 C07 C08 C09 C10 C11 C12 C13 C14 C15 C16 C17 C18 C19 C20}"
cd "$(dirname "$0")/.."
export VERIF_EVIDENCE_DIR="${VERIF_EVIDENCE_DIR:-$PWD/.work/soak-evidence}"
for s in $(seq "$A" "$B"); do
  for c in $CHECKS; do
    OUT=$(VERIF_SEED=$s ./check.py "$c" --tier "$TIER" 2>&1); RC=$?
    echo "seed=$s $c rc=$RC $(echo "$OUT" | grep "^$c " | tail -1)"
    if [ $RC -ne 0 ]; then echo "$OUT" | grep "^VIOLATION\|HARNESS\|floor" | head -5 | cut -c1-600; fi
  done
done
