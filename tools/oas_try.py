#!/usr/bin/python3
"""quick harness: generate libraries, write_oas with option sets, decode the bytes with oas_codec"""
import sys, os, json, random
sys.path.insert(0, '/verif/py')
import vfw, genlib, script, oas_codec
from script import Case, fl
b = vfw.build()
wd = vfw.workdir('oastry')
class R:
    evaluations = 0
    def __getattr__(self, k): return lambda *a, **k2: None
cases = []
n = int(sys.argv[1]) if len(sys.argv) > 1 else 20
for i in range(n):
    g = genlib.Gen(1000 + i, dict())
    lib = g.library()
    c = Case('T%d' % i, timeout=60)
    genlib.emit_library(c, lib)
    rnd = random.Random(i)
    flags = rnd.choice([0, 0xff, rnd.randrange(256)])
    level = rnd.choice([0, 0, 6, 9])
    tol = rnd.choice([0.0, 1e-3])
    c.op('write_oas', 'l0', 'f.oas', fl(tol), level, flags)
    c.op('filehex', 'f.oas')
    c.meta = {'flags': flags, 'level': level, 'i': i}
    cases.append(c)
import vfw as _v
chk = vfw.Check('C02', 'quick')
ev = script.run_cases(chk, b, cases, shards=1, wd=wd)
ok = bad = 0
for c in cases:
    evs = ev.get(c.id, [])
    w = [e for e in evs if e['op'] == 'write_oas' and e.get('k') != 'call']
    fh = [e for e in evs if e['op'] == 'filehex']
    if not fh or fh[0]['hex'] is None:
        print(c.id, 'no file', [e for e in evs if e['op'] == 'exit'])
        continue
    data = bytes.fromhex(fh[0]['hex'])
    try:
        m = oas_codec.decode(data)
        ok += 1
        if len(sys.argv) > 2:
            print(c.id, c.meta, len(data), 'cells', len(m['cells']), 'els', sum(len(x['elements']) for x in m['cells']), {k: v for k, v in m['stats'].items() if k.startswith('rec_')})
    except oas_codec.OasError as e:
        bad += 1
        print(c.id, c.meta, 'DECODE ERROR', e, 'write err', w and w[0].get('err'))
print('ok', ok, 'bad', bad)
