#!/usr/bin/python3
"""debug helper: tools/c06dbg.py <seed> <index> [label]: regenerate a C06 case, run it, list the polygons of a get_polygons result that have no
partner in the hand flattening (and vice versa)"""
import sys, os, json, subprocess
sys.path.insert(0, os.path.join(os.path.dirname(os.path.abspath(__file__)), '..', 'py'))
os.environ['VERIF_SEED'] = sys.argv[1]
import vfw, c06, flat, geom
c = c06.make_case(int(sys.argv[2]))
lab = sys.argv[3] if len(sys.argv) > 3 else 'full'
b = vfw.build(); wd = vfw.workdir('C06dbg')
sp = os.path.join(wd, 'r.txt'); open(sp, 'w').write(c.text())
out = os.path.join(wd, 'out.jsonl')
subprocess.run([os.path.join(b, 'gdsmon'), sp, out, wd], env=vfw.env())
evs = [json.loads(l) for l in open(out)]
m = c.meta
lib, top = m['spec'], m['top']
tp = {e['h']: e for e in evs if e['op'] == 'to_polygons' and e.get('k') != 'call'}
outl = {}
for ci, kind, pi, h in m['want']:
    e = tp[h]
    outl[(ci, kind, pi)] = [((p['layer'], p['type']), [(p['pts'][k], p['pts'][k + 1]) for k in range(0, len(p['pts']), 2)]) for p in e['polys']]
res = {e['label']: e for e in evs if e.get('k') != 'call' and 'label' in e and e['op'].startswith('get_')}
q = [x for x in m['queries'] if x[5] == lab][0]
op, ap, d, tg, inc, _ = q
exp = flat.flatten_polys(lib, top, d, outl, include_paths=bool(inc))
got = flat.polys_from_dump(res[lab]['polys'])
print(lab, q, 'exp', len(exp), 'got', len(got))
def key(p):
    t, pts = p
    cx = sum(x for x, y in pts) / len(pts); cy = sum(y for x, y in pts) / len(pts)
    return (tuple(t), len(pts), round(cx, 4), round(cy, 4))
E = sorted(key(p) for p in exp); G = sorted(key(p) for p in got)
se, sg = set(E), set(G)
print('only in hand flattening:'); [print('  ', k) for k in E if k not in sg][:20]
print('only in gdstk:'); [print('  ', k) for k in G if k not in se][:20]
if len(sys.argv) > 5:
    px, py = float(sys.argv[4]), float(sys.argv[5])
    print('hand-flattened polygons covering the point:')
    for t, pts in exp:
        if geom.fwinding(pts, px, py) != 0: print('  ', t, len(pts), pts[:3])
    print('gdstk polygons covering the point:')
    for t, pts in got:
        if geom.fwinding(pts, px, py) != 0: print('  ', t, len(pts), pts[:3])
    for lb in ('cp_rpaths', 'rpaths'):
        e = res.get(lb)
        if not e: continue
        for pth in e['paths']:
            rep = flat.rep_from_dump(pth.get('rep'))
            import genlib
            for v in genlib.rep_offsets(rep):
                for p in pth['polys']:
                    pts = [(p['pts'][k] + v[0], p['pts'][k + 1] + v[1]) for k in range(0, len(p['pts']), 2)]
                    if geom.fwinding(pts, px, py) != 0:
                        print(lb, 'path covering the point: offset', v, 'rep', json.dumps(pth.get('rep'))[:300], 'npts', len(pts), pts[:2])
if len(sys.argv) > 6:
    def bb(pts): return tuple(round(v, 3) for v in (min(x for x, y in pts), min(y for x, y in pts), max(x for x, y in pts), max(y for x, y in pts)))
    tag = (2, 5)
    def only_paths(kind_key, kind):
        def f(cell, ci):
            out = []
            for pi, path in enumerate(cell[kind_key]):
                for (tg_, pts) in outl.get((ci, kind, pi), []):
                    for v in genlib.rep_offsets(path.get('rep')):
                        out.append((tuple(tg_), [(x + v[0], y + v[1]) for x, y in pts]))
            return out
        return f
    expp = flat.flatten_polys(lib, top, -1, outl, paths_only=only_paths('rpaths', 'r'))
    E = sorted(bb(pts) for t, pts in expp if tuple(t) == tag)
    e = res['rpaths']
    G = []
    for pth in e['paths']:
        rep = flat.rep_from_dump(pth.get('rep'))
        for v in genlib.rep_offsets(rep):
            for p in pth['polys']:
                if (p['layer'], p['type']) != tag: continue
                pts = [(p['pts'][k] + v[0], p['pts'][k + 1] + v[1]) for k in range(0, len(p['pts']), 2)]
                G.append(bb(pts))
    G.sort()
    print(len(E), len(G))
    def close(a, b_): return max(abs(x - y) for x, y in zip(a, b_)) <= 0.02 * max(1e-3, abs(a[2] - a[0]))
    G2 = list(G)
    for a in E:
        m_ = [g_ for g_ in G2 if close(a, g_)]
        if m_: G2.remove(m_[0])
        else: print('expected without partner', a)
    for g_ in G2: print('gdstk without partner', g_)
    px, py = float(sys.argv[4]), float(sys.argv[5])
    if (px, py) != (0.0, 0.0):
        for t, pts in expp:
            b_ = bb(pts)
            if tuple(t) == tag and b_[0] <= px <= b_[2] and b_[1] <= py <= b_[3] and b_[2] - b_[0] > 100:
                print('expected instance bbox', b_, 'n', len(pts), 'covers', geom.fwinding(pts, px, py)); print('   ', [(round(x, 2), round(y, 2)) for x, y in pts[::6]])
        for pth in res['rpaths']['paths']:
            rep = flat.rep_from_dump(pth.get('rep'))
            for v in genlib.rep_offsets(rep):
                for p in pth['polys']:
                    pts = [(p['pts'][k] + v[0], p['pts'][k + 1] + v[1]) for k in range(0, len(p['pts']), 2)]
                    b_ = bb(pts)
                    if (p['layer'], p['type']) == tag and b_[0] <= px <= b_[2] and b_[1] <= py <= b_[3] and b_[2] - b_[0] > 100:
                        print('gdstk instance bbox', b_, 'n', len(pts), 'covers', geom.fwinding(pts, px, py)); print('   ', [(round(x, 2), round(y, 2)) for x, y in pts[::300]])
                        print('   spine/dump:', json.dumps({k: v_ for k, v_ in pth.items() if k not in ('polys',)})[:1500])
