#!/usr/bin/python3
"""debug helper: replay a C08 case; print sections, joints, outline vertices near a point"""
import sys, os, json, subprocess, math, re
sys.path.insert(0, '/verif/py')
import vfw, c08, geom
o = json.load(open(sys.argv[1]))
print(o['detail'])
m_ = re.search(r'point \(([-0-9.e]+),([-0-9.e]+)\)', o['detail'])
P = (float(m_.group(1)), float(m_.group(2))) if m_ else None
m2 = re.search(r'element(?:_center\[| )(\d+)', o['detail'])
ei = int(m2.group(1)) if m2 else 0
b = vfw.build(); wd = vfw.workdir('C08dbg')
sp = os.path.join(wd, 'r.txt'); open(sp, 'w').write(o['replay']['case'])
out = os.path.join(wd, 'out.jsonl')
p = subprocess.run([os.path.join(b, 'gdsmon'), sp, out, wd], env=vfw.env(), stderr=subprocess.PIPE)
print(p.stderr.decode()[-600:])
evs = [json.loads(l) for l in open(out)]
print(o['replay']['case'].split('dump_el')[0])
for e in evs:
    if e['op'] in ('to_polygons', 'element_center', 'rp_spine') and e.get('k') != 'call':
        print(e['op'], 'err', e.get('err'), 'n', len(e.get('pts', e.get('polys', []))))
el = [e for e in evs if e['op'] == 'dump_el'][0]['el']
for i, s in enumerate(el['subpaths']):
    print('sub', i, s)
tp = [e for e in evs if e['op'] == 'to_polygons' and e.get('k') != 'call'][0]
poly = c08.pairs(tp['polys'][ei]['pts'])
R = float(sys.argv[2]) if len(sys.argv) > 2 else 0.3
if P:
    print('outline near P:')
    for i, q in enumerate(poly):
        if math.hypot(q[0] - P[0], q[1] - P[1]) < R:
            print('  v[%d]=(%.6f,%.6f)' % (i, q[0], q[1]))
    print('winding at P', geom.fwinding(poly, P[0], P[1]))
# model
fp = None
import random
cid = re.search(r'CASE R(\d+)', o['replay']['case']).group(1)
sd = o['replay']['meta']['seed']
fp = c08.gen_path(random.Random(sd), sd)
m = c08.Model(fp)
for cl in fp['calls']:
    if cl[0] == 'xform': m.xform(cl[1])
    else: m.call(cl)
subs = el['subpaths']
for si, s in enumerate(m.secs):
    if s.kind == 'hobby':
        sub = subs[si]
        m.secs[si] = c08.Sec('bez', ctrl=[tuple(sub[1]), tuple(sub[2]), tuple(sub[3]), tuple(sub[4])])
for si in range(1, len(m.secs)):
    p, q = m.C(ei, si, 0.0), m.C(ei, si - 1, 1.0)
    g0, g1 = m.dC(ei, si - 1, 1.0), m.dC(ei, si, 0.0)
    print('joint', si, 'q(end prev)=(%.5f,%.5f) p(start next)=(%.5f,%.5f) g0=(%.4f,%.4f) g1=(%.4f,%.4f) off=%.4f/%.4f hw=%.4f' % (q + p + g0 + g1 + (m.off(ei, si - 1, 1.0), m.off(ei, si, 0.0), 0.5 * m.wid(ei, si, 0.0))))
    print('   spine joint', m.S(si, 0.0))
mm = re.search(r'returned point \(([-0-9.e]+),([-0-9.e]+)\)', o['detail'])
if mm:
    Q = (float(mm.group(1)), float(mm.group(2)))
    for si in range(len(m.secs)):
        best = min((math.hypot(m.C(ei, si, k / 2000)[0] - Q[0], m.C(ei, si, k / 2000)[1] - Q[1]), k / 2000) for k in range(2001))
        print('section', si, m.secs[si].kind, 'nearest dist %.3g at u=%.4f' % best, 'off', m.off(ei, si, best[1]))
    ecs = [e for e in evs if e['op'] == 'element_center' and e.get('k') != 'call'][ei]
    pts = c08.pairs(ecs['pts']) if not isinstance(ecs['pts'][0], list) else ecs['pts']
    for i, q in enumerate(pts):
        if math.hypot(q[0] - Q[0], q[1] - Q[1]) < 0.1:
            print('  ec[%d]=(%.7f,%.7f)' % (i, q[0], q[1]))
if mm:
    for si in range(len(m.secs)):
        f = lambda u, si=si: m.C(ei, si, u)
        for q in pts[24:31]:
            pass
    si = 2
    for q in pts[25:31]:
        best = min((math.hypot(m.C(ei, si, k / 20000)[0] - q[0], m.C(ei, si, k / 20000)[1] - q[1]), k / 20000) for k in range(0, 3000))
        c = m.C(ei, si, best[1]); g = m.dS(si, best[1]); gl = math.hypot(*g)
        n = (-g[1] / gl, g[0] / gl)
        r = (q[0] - c[0], q[1] - c[1])
        print('pt (%.7f,%.7f): arc dist %.3g at u=%.5f  normal comp %.3g tangent comp %.3g' % (q[0], q[1], best[0], best[1], r[0] * n[0] + r[1] * n[1], (r[0] * g[0] + r[1] * g[1]) / gl))
