#!/usr/bin/python3
"""debug helper: replay a C07 case, print centre line and outline vertices near a point"""
import sys, os, json, subprocess, math, re
sys.path.insert(0, '/verif/py')
import vfw, c07, geom
o = json.load(open(sys.argv[1]))
print(o['detail'])
m = re.search(r'point \(([-0-9.e]+),([-0-9.e]+)\)', o['detail'])
P = (float(m.group(1)), float(m.group(2))) if m else None
ei = int(re.search(r'element (\d+)', o['detail']).group(1))
b = vfw.build(); wd = vfw.workdir('C07dbg')
sp = os.path.join(wd, 'r.txt'); open(sp, 'w').write(o['replay']['case'])
out = os.path.join(wd, 'out.jsonl')
subprocess.run([os.path.join(b, 'gdsmon'), sp, out, wd], env=vfw.env())
evs = [json.loads(l) for l in open(out)]
el = [e for e in evs if e['op'] == 'dump_el'][0]['el']
tp = [e for e in evs if e['op'] == 'to_polygons' and e.get('k') != 'call'][0]
spine = c07.pairs(el['spine'])
hwo = c07.pairs(el['elements'][ei]['hwo'])
cl = c07.centre_line(spine, hwo)
poly = c07.pairs(tp['polys'][ei]['pts'])
R = float(sys.argv[2]) if len(sys.argv) > 2 else 0.3
print('spine n=%d  poly n=%d' % (len(spine), len(poly)))
for i, (s, h, c) in enumerate(zip(spine, hwo, cl)):
    if P is None or math.hypot(c[0] - P[0], c[1] - P[1]) < R:
        print('  sp[%d]=(%.6f,%.6f) hw=%.4f off=%.4f  cl=(%.6f,%.6f)' % (i, s[0], s[1], h[0], h[1], c[0], c[1]))
print('outline near P:')
for i, q in enumerate(poly):
    if P is None or math.hypot(q[0] - P[0], q[1] - P[1]) < R:
        print('  v[%d]=(%.6f,%.6f)' % (i, q[0], q[1]))
if P: print('winding at P', geom.fwinding(poly, P[0], P[1]))
