#!/usr/bin/python3
"""debug helper: tools/rejudge.py <Cxx> <seed> <case index>... - regenerate the given cases of a sharded check at a seed and judge them
against the current /repo tree (prints the violations found)."""
import importlib
import os
import sys
sys.path.insert(0, os.path.join(os.path.dirname(os.path.abspath(__file__)), '..', 'py'))
prop, seed = sys.argv[1], sys.argv[2]
os.environ['VERIF_SEED'] = seed
os.environ.setdefault('VERIF_EVIDENCE_DIR', '/tmp/rejudge-evidence')
import vfw
mod = importlib.import_module(prop.lower())
rec = vfw.Rec(prop, 'quick')
b = vfw.build()
mod.work(rec, b, [int(x) for x in sys.argv[3:]])
vs = [c for c in rec.calls if c[0] == 'violation']
print('evaluations', rec.evaluations, 'violations', len(vs))
for v in vs:
    print(' ', v[1], '::', str(v[2])[:300])
