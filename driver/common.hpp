// Shared plumbing for the /verif drivers: JSON-lines event output, token input, and the
// fork-per-case runner (one sanitizer report costs one case and is attributed to it).
// This header deliberately includes no gdstk header.
#ifndef VERIF_COMMON_HPP
#define VERIF_COMMON_HPP

#include <errno.h>
#include <fcntl.h>
#include <math.h>
#include <signal.h>
#include <stdarg.h>
#include <stdint.h>
#include <stdio.h>
#include <stdlib.h>
#include <string.h>
#include <sys/resource.h>
#include <sys/stat.h>
#include <sys/time.h>
#include <sys/wait.h>
#include <unistd.h>

#include <functional>
#include <string>
#include <vector>

namespace vf {

// ---------------------------------------------------------------- JSON writer
struct Json {
    std::string s;
    bool need_comma = false;
    void raw(const char* t) { s += t; }
    void comma() {
        if (need_comma) s += ',';
        need_comma = true;
    }
    void key(const char* k) {
        comma();
        s += '"';
        s += k;
        s += "\":";
        need_comma = false;
    }
    void begin_obj() {
        comma();
        s += '{';
        need_comma = false;
    }
    void end_obj() {
        s += '}';
        need_comma = true;
    }
    void begin_arr() {
        comma();
        s += '[';
        need_comma = false;
    }
    void end_arr() {
        s += ']';
        need_comma = true;
    }
    void num(double v) {
        comma();
        char b[40];
        if (v != v)
            s += "NaN";
        else if (v > 1.7976931348623157e308)
            s += "Infinity";
        else if (v < -1.7976931348623157e308)
            s += "-Infinity";
        else {
            snprintf(b, sizeof b, "%.17g", v);
            s += b;
        }
    }
    void i64(int64_t v) {
        comma();
        char b[32];
        snprintf(b, sizeof b, "%lld", (long long)v);
        s += b;
    }
    void u64(uint64_t v) {
        comma();
        char b[32];
        snprintf(b, sizeof b, "%llu", (unsigned long long)v);
        s += b;
    }
    void boolean(bool v) {
        comma();
        s += v ? "true" : "false";
    }
    void null() {
        comma();
        s += "null";
    }
    // bytes -> JSON string, each byte one code point (latin-1), so Python can .encode('latin-1')
    void str(const char* p, size_t n) {
        comma();
        s += '"';
        for (size_t i = 0; i < n; i++) {
            unsigned char c = (unsigned char)p[i];
            if (c == '"' || c == '\\') {
                s += '\\';
                s += (char)c;
            } else if (c < 0x20 || c >= 0x7f) {
                char b[8];
                snprintf(b, sizeof b, "\\u%04x", c);
                s += b;
            } else
                s += (char)c;
        }
        s += '"';
    }
    void str(const char* p) {
        if (!p)
            null();
        else
            str(p, strlen(p));
    }
    void kstr(const char* k, const char* v) {
        key(k);
        str(v);
    }
    void knum(const char* k, double v) {
        key(k);
        num(v);
    }
    void ki64(const char* k, int64_t v) {
        key(k);
        i64(v);
    }
    void ku64(const char* k, uint64_t v) {
        key(k);
        u64(v);
    }
    void kbool(const char* k, bool v) {
        key(k);
        boolean(v);
    }
};

extern int g_out_fd;          // event log (O_APPEND)
extern std::string g_case;    // current case id

inline void emit(Json& j) {
    j.s += '\n';
    const char* p = j.s.data();
    size_t n = j.s.size();
    while (n) {
        ssize_t w = write(g_out_fd, p, n);
        if (w < 0) {
            if (errno == EINTR) continue;
            _exit(97);
        }
        p += w;
        n -= (size_t)w;
    }
}

// start an event object: {"c":case,"op":op, ...   (caller closes with end_obj + emit)
inline Json ev(const char* op) {
    Json j;
    j.begin_obj();
    j.kstr("c", g_case.c_str());
    j.kstr("op", op);
    return j;
}
inline void fin(Json& j) {
    j.end_obj();
    emit(j);
}
// "call" marker, flushed before the API call: a case that dies inside leaves it open.
inline void mark_call(const char* op) {
    Json j = ev(op);
    j.kstr("k", "call");
    fin(j);
}

// ---------------------------------------------------------------- token reader
struct Toks {
    std::vector<std::string> t;
    size_t i = 0;
    bool more() const { return i < t.size(); }
    const std::string& next() {
        if (i >= t.size()) {
            fprintf(stderr, "verif-driver: script error: missing token (case %s)\n", g_case.c_str());
            _exit(98);
        }
        return t[i++];
    }
    const std::string& peek() const { return t[i]; }
    double d() {
        const std::string& s = next();
        if (s == "nan") return NAN;
        if (s == "inf") return INFINITY;
        if (s == "-inf") return -INFINITY;
        return strtod(s.c_str(), NULL);
    }
    int64_t i64() { return strtoll(next().c_str(), NULL, 0); }
    uint64_t u64() { return strtoull(next().c_str(), NULL, 0); }
    bool b() { return i64() != 0; }
    // strings travel hex-encoded ("-" = empty string, "~" = NULL)
    std::string hex() {
        const std::string& s = next();
        std::string r;
        if (s == "-" || s == "~") return r;
        for (size_t k = 0; k + 1 < s.size(); k += 2) {
            auto h = [](char c) { return c <= '9' ? c - '0' : (c | 32) - 'a' + 10; };
            r += (char)(h(s[k]) * 16 + h(s[k + 1]));
        }
        return r;
    }
};

inline Toks split(const std::string& line) {
    Toks r;
    size_t p = 0, n = line.size();
    while (p < n) {
        while (p < n && (line[p] == ' ' || line[p] == '\t' || line[p] == '\r')) p++;
        size_t q = p;
        while (q < n && line[q] != ' ' && line[q] != '\t' && line[q] != '\r') q++;
        if (q > p) r.t.emplace_back(line, p, q - p);
        p = q;
    }
    return r;
}

// ---------------------------------------------------------------- case runner
// Script: lines "CASE <id> [timeout_s]" ... "END".  For each case the lines in between are handed
// to run_case() in a forked child.  The parent appends one "exit" event per case.
typedef std::function<void(const std::vector<std::string>& lines)> CaseFn;

int run_script(const char* script_path, const char* out_path, const char* work_dir, CaseFn fn,
               bool nofork);

int count_open_fds();

}  // namespace vf
#endif
