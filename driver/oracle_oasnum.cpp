// Independent OASIS / GDSII number codecs.  No gdstk header in this translation unit.
#include "oracle_oasnum.hpp"

#include <math.h>
#include <string.h>

namespace vo {

// ------------------------------------------------------------------ integers
static void enc_groups(Bytes& o, u128 v, int pad_to) {
    int n = 0;
    do {
        uint8_t g = (uint8_t)(v & 0x7f);
        v >>= 7;
        n++;
        bool more = v != 0 || n < pad_to;
        o.push_back(g | (more ? 0x80 : 0));
        if (!more) break;
    } while (true);
}
void enc_uint(Bytes& o, uint64_t v, int pad_to) { enc_groups(o, v, pad_to); }

u128 dec_uint_wide(Cur& c) {
    u128 v = 0;
    int shift = 0;
    while (true) {
        int b = c.get();
        if (c.fail) return v;
        if (shift < 126) v |= (u128)(b & 0x7f) << shift;
        shift += 7;
        if (!(b & 0x80)) break;
        if (shift > 126) {
            c.overflow = true;
        }
    }
    return v;
}
uint64_t dec_uint(Cur& c) {
    u128 v = dec_uint_wide(c);
    if (v >> 64) c.overflow = true;
    return (uint64_t)v;
}
void enc_sint(Bytes& o, int64_t v, int pad_to) {
    u128 mag = v < 0 ? (u128)(-(__int128)v) : (u128)v;
    enc_groups(o, (mag << 1) | (v < 0 ? 1 : 0), pad_to);
}
int64_t dec_sint(Cur& c) {
    u128 v = dec_uint_wide(c);
    u128 mag = v >> 1;
    if (mag >> 63) c.overflow = true;
    int64_t m = (int64_t)(uint64_t)mag;
    return (v & 1) ? -m : m;
}

// ------------------------------------------------------------------ deltas
static u128 mag_of(int64_t v) { return v < 0 ? (u128)(-(__int128)v) : (u128)v; }
void enc_2delta(Bytes& o, int64_t x, int64_t y, int pad_to) {
    int dir;
    u128 m;
    if (y == 0) {
        dir = x >= 0 ? 0 : 2;
        m = mag_of(x);
    } else {
        dir = y >= 0 ? 1 : 3;
        m = mag_of(y);
    }
    enc_groups(o, (m << 2) | (u128)dir, pad_to);
}
static int octdir(int64_t x, int64_t y, u128& m) {
    if (y == 0) {
        m = mag_of(x);
        return x >= 0 ? 0 : 2;
    }
    if (x == 0) {
        m = mag_of(y);
        return y >= 0 ? 1 : 3;
    }
    m = mag_of(x);
    if (x > 0 && y > 0) return 4;
    if (x < 0 && y > 0) return 5;
    if (x < 0 && y < 0) return 6;
    return 7;
}
void enc_3delta(Bytes& o, int64_t x, int64_t y, int pad_to) {
    u128 m;
    int dir = octdir(x, y, m);
    enc_groups(o, (m << 3) | (u128)dir, pad_to);
}
void enc_gdelta(Bytes& o, int64_t x, int64_t y, bool force_general, int pad_to) {
    bool oct = x == 0 || y == 0 || x == y || x == -y;
    if (oct && !force_general) {
        u128 m;
        int dir = octdir(x, y, m);
        enc_groups(o, (m << 4) | (u128)(dir << 1), pad_to);
    } else {
        enc_groups(o, (mag_of(x) << 2) | (u128)(x < 0 ? 2 : 0) | 1, pad_to);
        enc_sint(o, y, pad_to);
    }
}
static void apply_dir(int dir, int64_t m, int64_t& x, int64_t& y) {
    static const int dx[8] = {1, 0, -1, 0, 1, -1, -1, 1};
    static const int dy[8] = {0, 1, 0, -1, 1, 1, -1, -1};
    x = dx[dir] * m;
    y = dy[dir] * m;
}
void dec_2delta(Cur& c, int64_t& x, int64_t& y) {
    u128 v = dec_uint_wide(c);
    u128 m = v >> 2;
    if (m >> 63) c.overflow = true;
    apply_dir((int)(v & 3), (int64_t)(uint64_t)m, x, y);
}
void dec_3delta(Cur& c, int64_t& x, int64_t& y) {
    u128 v = dec_uint_wide(c);
    u128 m = v >> 3;
    if (m >> 63) c.overflow = true;
    apply_dir((int)(v & 7), (int64_t)(uint64_t)m, x, y);
}
void dec_gdelta(Cur& c, int64_t& x, int64_t& y) {
    u128 v = dec_uint_wide(c);
    if ((v & 1) == 0) {
        u128 m = v >> 4;
        if (m >> 63) c.overflow = true;
        apply_dir((int)((v >> 1) & 7), (int64_t)(uint64_t)m, x, y);
    } else {
        u128 m = v >> 2;
        if (m >> 63) c.overflow = true;
        x = (int64_t)(uint64_t)m;
        if (v & 2) x = -x;
        y = dec_sint(c);
    }
}

// ------------------------------------------------------------------ reals
Real dec_real(Cur& c) {
    Real r;
    r.type = c.get();
    r.num = 0;
    r.den = 1;
    switch (r.type) {
        case 0: r.num = (long double)dec_uint(c); break;
        case 1: r.num = -(long double)dec_uint(c); break;
        case 2: r.num = 1; r.den = (long double)dec_uint(c); break;
        case 3: r.num = -1; r.den = (long double)dec_uint(c); break;
        case 4: r.num = (long double)dec_uint(c); r.den = (long double)dec_uint(c); break;
        case 5: r.num = -(long double)dec_uint(c); r.den = (long double)dec_uint(c); break;
        case 6: {
            uint32_t u = 0;
            for (int i = 0; i < 4; i++) u |= (uint32_t)c.get() << (8 * i);
            float f;
            memcpy(&f, &u, 4);
            r.num = f;
        } break;
        case 7: {
            uint64_t u = 0;
            for (int i = 0; i < 8; i++) u |= (uint64_t)c.get() << (8 * i);
            double d;
            memcpy(&d, &u, 8);
            r.num = d;
        } break;
        default: c.fail = true;
    }
    return r;
}
void enc_real_double(Bytes& o, double v) {
    o.push_back(7);
    uint64_t u;
    memcpy(&u, &v, 8);
    for (int i = 0; i < 8; i++) o.push_back((uint8_t)(u >> (8 * i)));
}
void enc_real_float(Bytes& o, float v) {
    o.push_back(6);
    uint32_t u;
    memcpy(&u, &v, 4);
    for (int i = 0; i < 4; i++) o.push_back((uint8_t)(u >> (8 * i)));
}
void enc_real_int(Bytes& o, uint64_t n, bool neg) {
    o.push_back(neg ? 1 : 0);
    enc_uint(o, n);
}
void enc_real_recip(Bytes& o, uint64_t n, bool neg) {
    o.push_back(neg ? 3 : 2);
    enc_uint(o, n);
}
void enc_real_ratio(Bytes& o, uint64_t a, uint64_t b, bool neg) {
    o.push_back(neg ? 5 : 4);
    enc_uint(o, a);
    enc_uint(o, b);
}

// ------------------------------------------------------------------ point lists
static void deltas_of(const Pts& pts, bool closed, Pts& d) {
    d.clear();
    for (size_t i = 1; i < pts.size(); i++) d.push_back({pts[i].first - pts[i - 1].first, pts[i].second - pts[i - 1].second});
    (void)closed;
}
static bool is_h(const std::pair<int64_t, int64_t>& v) { return v.second == 0; }
static bool is_v(const std::pair<int64_t, int64_t>& v) { return v.first == 0; }
static bool is_oct(const std::pair<int64_t, int64_t>& v) {
    return v.first == 0 || v.second == 0 || v.first == v.second || v.first == -v.second;
}
bool can_encode_pointlist(const Pts& pts, bool closed, int type) {
    if (pts.size() < 2) return false;
    Pts d;
    deltas_of(pts, closed, d);
    switch (type) {
        case 0:
        case 1: {
            // strictly alternating h/v deltas (zero-length deltas are allowed by the arithmetic: a
            // 1-delta of 0), starting horizontal (0) or vertical (1).  For polygons the last two
            // edges are implied: the stored list has n-2 deltas where n = vertex count, the
            // implied vertex must equal the real last vertex and the closing edge must be
            // perpendicular to the last edge.
            bool horiz = type == 0;
            size_t stored = closed ? d.size() - 1 : d.size();
            if (closed && d.size() < 3) return false;
            if (closed && stored % 2 != 0) return false;  // total vertex count must be even
            for (size_t i = 0; i < d.size(); i++) {
                if (horiz ? !is_h(d[i]) : !is_v(d[i])) return false;
                horiz = !horiz;
            }
            if (closed) {
                // closing edge from last vertex to first must continue the alternation
                std::pair<int64_t, int64_t> cl = {pts[0].first - pts.back().first, pts[0].second - pts.back().second};
                if (horiz ? !is_h(cl) : !is_v(cl)) return false;
            }
            return true;
        }
        case 2:
            for (auto& v : d)
                if (!(is_h(v) || is_v(v))) return false;
            return true;
        case 3:
            for (auto& v : d)
                if (!is_oct(v)) return false;
            return true;
        case 4:
        case 5: return true;
    }
    return false;
}
void enc_pointlist(Bytes& o, const Pts& pts, bool closed, int type) {
    Pts d;
    deltas_of(pts, closed, d);
    o.push_back((uint8_t)type);
    switch (type) {
        case 0:
        case 1: {
            size_t stored = closed ? d.size() - 1 : d.size();
            enc_uint(o, stored);
            bool horiz = type == 0;
            for (size_t i = 0; i < stored; i++) {
                enc_sint(o, horiz ? d[i].first : d[i].second);
                horiz = !horiz;
            }
        } break;
        case 2:
            enc_uint(o, d.size());
            for (auto& v : d) enc_2delta(o, v.first, v.second);
            break;
        case 3:
            enc_uint(o, d.size());
            for (auto& v : d) enc_3delta(o, v.first, v.second);
            break;
        case 4:
            enc_uint(o, d.size());
            for (size_t i = 0; i < d.size(); i++) enc_gdelta(o, d[i].first, d[i].second, (i % 3) == 1);
            break;
        case 5: {
            enc_uint(o, d.size());
            int64_t px = 0, py = 0;
            for (auto& v : d) {
                enc_gdelta(o, v.first - px, v.second - py);
                px = v.first;
                py = v.second;
            }
        } break;
    }
}
bool dec_pointlist(Cur& c, bool closed, Pts& out) {
    int type = c.get();
    uint64_t n = dec_uint(c);
    if (c.fail || n > 10000000) return false;
    int64_t x = out.back().first, y = out.back().second;
    int64_t x0 = x, y0 = y;
    switch (type) {
        case 0:
        case 1: {
            bool horiz = type == 0;
            for (uint64_t i = 0; i < n; i++) {
                int64_t d = dec_sint(c);
                if (horiz) x += d; else y += d;
                horiz = !horiz;
                out.push_back({x, y});
            }
            if (closed) {
                if (horiz) x = x0; else y = y0;
                out.push_back({x, y});
            }
        } break;
        case 2:
        case 3:
        case 4: {
            for (uint64_t i = 0; i < n; i++) {
                int64_t dx, dy;
                if (type == 2) dec_2delta(c, dx, dy);
                else if (type == 3) dec_3delta(c, dx, dy);
                else dec_gdelta(c, dx, dy);
                x += dx;
                y += dy;
                out.push_back({x, y});
            }
        } break;
        case 5: {
            int64_t ax = 0, ay = 0;
            for (uint64_t i = 0; i < n; i++) {
                int64_t dx, dy;
                dec_gdelta(c, dx, dy);
                ax += dx;
                ay += dy;
                x += ax;
                y += ay;
                out.push_back({x, y});
            }
        } break;
        default: return false;
    }
    return !c.fail;
}

// ------------------------------------------------------------------ GDSII real
long double gds_real_value(uint64_t r) {
    int e = (int)((r >> 56) & 0x7f);
    uint64_t m = r & 0x00FFFFFFFFFFFFFFull;
    long double v = ldexpl((long double)m, 4 * (e - 64) - 56);
    return (r >> 63) ? -v : v;
}
uint64_t gds_real_encode(long double v) {
    if (v == 0) return 0;
    uint64_t s = 0;
    if (v < 0) {
        s = 1ull << 63;
        v = -v;
    }
    int e2;
    long double f = frexpl(v, &e2);  // v = f * 2^e2, 0.5 <= f < 1
    // want v = m * 16^(E-64) with 1/16 <= m < 1:  16^(E-64) = 2^(4(E-64)) >= v > 2^(4(E-64)-4)
    int k = (e2 + 3) / 4;  // ceil(e2/4) for e2 > 0; adjust below
    if (e2 <= 0) k = -((-e2) / 4);
    while (ldexpl(1.0L, 4 * k) <= v) k++;
    while (ldexpl(1.0L, 4 * (k - 1)) > v) k--;
    (void)f;
    long double m = ldexpl(v, -4 * k);  // in [1/16, 1)
    uint64_t mant = (uint64_t)floorl(ldexpl(m, 56));
    return s | ((uint64_t)(k + 64) << 56) | mant;
}

}  // namespace vo
