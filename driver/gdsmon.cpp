// gdsmon: operation server.  Reads a script of cases, runs each case in a forked child against
// the sanitized gdstk build and prints one JSON event per operation (see DESIGN.md 3.2).
// It contains no oracle: every verdict is taken offline by py/*.py from the event log.
#include <map>
#include <string>
#include <vector>

#include <gdstk/gdstk.hpp>
#include <clipper/clipper.hpp>

#include "common.hpp"

using namespace gdstk;
using vf::Json;
using vf::Toks;

// ------------------------------------------------------------------------------- registries
struct State {
    std::vector<Library*> libs;
    std::vector<Cell*> cells;
    std::vector<Polygon*> polys;
    std::vector<FlexPath*> fpaths;
    std::vector<RobustPath*> rpaths;
    std::vector<Label*> labels;
    std::vector<Reference*> refs;
    std::vector<Array<Polygon*>*> arrs;
    std::vector<RawCell*> raws;
    std::vector<Curve*> curves;
    std::vector<Repetition*> reps;
    std::vector<Map<GeometryInfo>*> caches;
    // "current" property list / repetition targets (last created element)
    Property** cur_props = NULL;
    Repetition* cur_rep = NULL;
    std::vector<std::vector<double>*> pdata;  // parameter blocks for numbered parametric functions
};
static State S;
static std::string g_scratch;

template <class T>
static T* zalloc() {
    return (T*)allocate_clear(sizeof(T));
}

static size_t idx_of(const std::string& h) { return (size_t)strtoull(h.c_str() + 1, NULL, 10); }
#define GETH(vec, tok, what)                                                              \
    ([&]() {                                                                              \
        size_t i_ = idx_of(tok);                                                          \
        if (i_ >= (vec).size()) {                                                         \
            fprintf(stderr, "verif-driver: bad handle %s for %s\n", (tok).c_str(), what); \
            _exit(98);                                                                    \
        }                                                                                 \
        return (vec)[i_];                                                                 \
    }())

// ------------------------------------------------------------------------------- dump helpers
static void j_vec2(Json& j, const Vec2& v) {
    j.begin_arr();
    j.num(v.x);
    j.num(v.y);
    j.end_arr();
}
static void j_pts(Json& j, const Array<Vec2>& a) {
    j.begin_arr();
    for (uint64_t i = 0; i < a.count; i++) {
        j.num(a[i].x);
        j.num(a[i].y);
    }
    j.end_arr();
}
static void j_tag(Json& j, Tag t) {
    j.ku64("layer", get_layer(t));
    j.ku64("type", get_type(t));
}
static void j_rep(Json& j, const Repetition& r) {
    j.key("rep");
    if (r.type == RepetitionType::None) {
        j.null();
        return;
    }
    j.begin_obj();
    switch (r.type) {
        case RepetitionType::Rectangular:
            j.kstr("kind", "rect");
            j.ku64("cols", r.columns);
            j.ku64("rows", r.rows);
            j.key("spacing");
            j_vec2(j, r.spacing);
            break;
        case RepetitionType::Regular:
            j.kstr("kind", "regular");
            j.ku64("cols", r.columns);
            j.ku64("rows", r.rows);
            j.key("v1");
            j_vec2(j, r.v1);
            j.key("v2");
            j_vec2(j, r.v2);
            break;
        case RepetitionType::Explicit:
            j.kstr("kind", "explicit");
            j.key("offsets");
            j_pts(j, r.offsets);
            break;
        case RepetitionType::ExplicitX:
        case RepetitionType::ExplicitY:
            j.kstr("kind", r.type == RepetitionType::ExplicitX ? "ex" : "ey");
            j.key("coords");
            j.begin_arr();
            for (uint64_t i = 0; i < r.coords.count; i++) j.num(r.coords[i]);
            j.end_arr();
            break;
        default: break;
    }
    j.end_obj();
}
static void j_props(Json& j, const Property* p) {
    j.key("props");
    j.begin_arr();
    for (; p; p = p->next) {
        j.begin_obj();
        j.kstr("name", p->name);
        j.key("values");
        j.begin_arr();
        for (PropertyValue* v = p->value; v; v = v->next) {
            j.begin_arr();
            switch (v->type) {
                case PropertyType::UnsignedInteger:
                    j.str("u");
                    j.u64(v->unsigned_integer);
                    break;
                case PropertyType::Integer:
                    j.str("i");
                    j.i64(v->integer);
                    break;
                case PropertyType::Real:
                    j.str("r");
                    j.num(v->real);
                    break;
                case PropertyType::String:
                    j.str("s");
                    j.str((const char*)v->bytes, v->count);
                    break;
            }
            j.end_arr();
        }
        j.end_arr();
        j.end_obj();
    }
    j.end_arr();
}
static void j_polygon(Json& j, const Polygon& p) {
    j.begin_obj();
    j_tag(j, p.tag);
    j.key("pts");
    j_pts(j, p.point_array);
    j_rep(j, p.repetition);
    j_props(j, p.properties);
    j.end_obj();
}
static void j_label(Json& j, const Label& l) {
    j.begin_obj();
    j_tag(j, l.tag);
    j.kstr("text", l.text);
    j.key("origin");
    j_vec2(j, l.origin);
    j.ki64("anchor", (int64_t)l.anchor);
    j.knum("rotation", l.rotation);
    j.knum("mag", l.magnification);
    j.kbool("xrefl", l.x_reflection);
    j_rep(j, l.repetition);
    j_props(j, l.properties);
    j.end_obj();
}
static int cell_index(const Cell* c) {
    for (size_t i = 0; i < S.cells.size(); i++)
        if (S.cells[i] == c) return (int)i;
    return -1;
}
static int raw_index(const RawCell* c) {
    for (size_t i = 0; i < S.raws.size(); i++)
        if (S.raws[i] == c) return (int)i;
    return -1;
}
static void j_reference(Json& j, const Reference& r) {
    j.begin_obj();
    switch (r.type) {
        case ReferenceType::Cell:
            j.kstr("rtype", "cell");
            j.kstr("target", r.cell ? r.cell->name : NULL);
            j.ki64("target_id", cell_index(r.cell));
            break;
        case ReferenceType::RawCell:
            j.kstr("rtype", "raw");
            j.kstr("target", r.rawcell ? r.rawcell->name : NULL);
            j.ki64("target_id", raw_index(r.rawcell));
            break;
        case ReferenceType::Name:
            j.kstr("rtype", "name");
            j.kstr("target", r.name);
            break;
    }
    j.key("origin");
    j_vec2(j, r.origin);
    j.knum("rotation", r.rotation);
    j.knum("mag", r.magnification);
    j.kbool("xrefl", r.x_reflection);
    j_rep(j, r.repetition);
    j_props(j, r.properties);
    j.end_obj();
}
static void j_flexpath(Json& j, const FlexPath& f) {
    j.begin_obj();
    j.key("spine");
    j_pts(j, f.spine.point_array);
    j.knum("tolerance", f.spine.tolerance);
    j.key("last_ctrl");
    j_vec2(j, f.spine.last_ctrl);
    j.kbool("simple", f.simple_path);
    j.kbool("scale_width", f.scale_width);
    j.key("elements");
    j.begin_arr();
    for (uint64_t i = 0; i < f.num_elements; i++) {
        const FlexPathElement& e = f.elements[i];
        j.begin_obj();
        j_tag(j, e.tag);
        j.key("hwo");
        j_pts(j, e.half_width_and_offset);
        j.ki64("join", (int64_t)e.join_type);
        j.ki64("end", (int64_t)e.end_type);
        j.key("ext");
        j_vec2(j, e.end_extensions);
        j.ki64("bend", (int64_t)e.bend_type);
        j.knum("bend_radius", e.bend_radius);
        j.end_obj();
    }
    j.end_arr();
    j_rep(j, f.repetition);
    j_props(j, f.properties);
    j.end_obj();
}
static void j_interp(Json& j, const Interpolation& in) {
    j.begin_arr();
    j.i64((int64_t)in.type);
    switch (in.type) {
        case InterpolationType::Constant: j.num(in.value); break;
        case InterpolationType::Linear:
        case InterpolationType::Smooth:
            j.num(in.initial_value);
            j.num(in.final_value);
            break;
        default: break;
    }
    j.end_arr();
}
static void j_robustpath(Json& j, const RobustPath& r) {
    j.begin_obj();
    j.key("end_point");
    j_vec2(j, r.end_point);
    j.knum("tolerance", r.tolerance);
    j.ku64("max_evals", r.max_evals);
    j.knum("width_scale", r.width_scale);
    j.knum("offset_scale", r.offset_scale);
    j.key("trafo");
    j.begin_arr();
    for (int i = 0; i < 6; i++) j.num(r.trafo[i]);
    j.end_arr();
    j.kbool("simple", r.simple_path);
    j.kbool("scale_width", r.scale_width);
    j.key("subpaths");
    j.begin_arr();
    for (uint64_t i = 0; i < r.subpath_array.count; i++) {
        const SubPath& s = r.subpath_array[i];
        j.begin_arr();
        j.i64((int64_t)s.type);
        switch (s.type) {
            case SubPathType::Segment:
                j_vec2(j, s.begin);
                j_vec2(j, s.end);
                break;
            case SubPathType::Arc:
                j_vec2(j, s.center);
                j.num(s.radius_x);
                j.num(s.radius_y);
                j.num(s.angle_i);
                j.num(s.angle_f);
                j.num(s.cos_rot);
                j.num(s.sin_rot);
                break;
            case SubPathType::Bezier2:
                j_vec2(j, s.p0);
                j_vec2(j, s.p1);
                j_vec2(j, s.p2);
                break;
            case SubPathType::Bezier3:
                j_vec2(j, s.p0);
                j_vec2(j, s.p1);
                j_vec2(j, s.p2);
                j_vec2(j, s.p3);
                break;
            case SubPathType::Bezier: j_pts(j, s.ctrl); break;
            case SubPathType::Parametric: j_vec2(j, s.reference); break;
        }
        j.end_arr();
    }
    j.end_arr();
    j.key("elements");
    j.begin_arr();
    for (uint64_t i = 0; i < r.num_elements; i++) {
        const RobustPathElement& e = r.elements[i];
        j.begin_obj();
        j_tag(j, e.tag);
        j.knum("end_width", e.end_width);
        j.knum("end_offset", e.end_offset);
        j.ki64("end", (int64_t)e.end_type);
        j.key("ext");
        j_vec2(j, e.end_extensions);
        j.key("widths");
        j.begin_arr();
        for (uint64_t k = 0; k < e.width_array.count; k++) j_interp(j, e.width_array[k]);
        j.end_arr();
        j.key("offsets");
        j.begin_arr();
        for (uint64_t k = 0; k < e.offset_array.count; k++) j_interp(j, e.offset_array[k]);
        j.end_arr();
        j.end_obj();
    }
    j.end_arr();
    j_rep(j, r.repetition);
    j_props(j, r.properties);
    j.end_obj();
}
static void j_cell(Json& j, const Cell& c) {
    j.begin_obj();
    j.kstr("name", c.name);
    j.ki64("id", cell_index(&c));
    j_props(j, c.properties);
    j.key("polys");
    j.begin_arr();
    for (uint64_t i = 0; i < c.polygon_array.count; i++) j_polygon(j, *c.polygon_array[i]);
    j.end_arr();
    j.key("fpaths");
    j.begin_arr();
    for (uint64_t i = 0; i < c.flexpath_array.count; i++) j_flexpath(j, *c.flexpath_array[i]);
    j.end_arr();
    j.key("rpaths");
    j.begin_arr();
    for (uint64_t i = 0; i < c.robustpath_array.count; i++) j_robustpath(j, *c.robustpath_array[i]);
    j.end_arr();
    j.key("labels");
    j.begin_arr();
    for (uint64_t i = 0; i < c.label_array.count; i++) j_label(j, *c.label_array[i]);
    j.end_arr();
    j.key("refs");
    j.begin_arr();
    for (uint64_t i = 0; i < c.reference_array.count; i++) j_reference(j, *c.reference_array[i]);
    j.end_arr();
    j.end_obj();
}
static void j_library(Json& j, const Library& l) {
    j.kstr("name", l.name);
    j.knum("unit", l.unit);
    j.knum("precision", l.precision);
    j_props(j, l.properties);
    j.key("cells");
    j.begin_arr();
    for (uint64_t i = 0; i < l.cell_array.count; i++) j_cell(j, *l.cell_array[i]);
    j.end_arr();
    j.key("rawcells");
    j.begin_arr();
    for (uint64_t i = 0; i < l.rawcell_array.count; i++) {
        j.begin_obj();
        j.kstr("name", l.rawcell_array[i]->name);
        j.ki64("id", raw_index(l.rawcell_array[i]));
        j.ku64("size", l.rawcell_array[i]->size);
        j.end_obj();
    }
    j.end_arr();
}
static void j_polyarr(Json& j, const Array<Polygon*>& a) {
    j.begin_arr();
    for (uint64_t i = 0; i < a.count; i++) j_polygon(j, *a[i]);
    j.end_arr();
}

// register every cell of a freshly read library so that references can be dumped by id
static void adopt_library(Library* lib) {
    for (uint64_t i = 0; i < lib->cell_array.count; i++) S.cells.push_back(lib->cell_array[i]);
    for (uint64_t i = 0; i < lib->rawcell_array.count; i++) S.raws.push_back(lib->rawcell_array[i]);
}

// ------------------------------------------------------------------------------- parsing helpers
static Vec2 t_vec(Toks& t) {
    double x = t.d();
    double y = t.d();
    return Vec2{x, y};
}
static void t_rep(Toks& t, Repetition& r) {
    r.clear();
    std::string k = t.next();
    if (k == "none") return;
    if (k == "rect") {
        r.type = RepetitionType::Rectangular;
        r.columns = t.u64();
        r.rows = t.u64();
        r.spacing = t_vec(t);
    } else if (k == "regular") {
        r.type = RepetitionType::Regular;
        r.columns = t.u64();
        r.rows = t.u64();
        r.v1 = t_vec(t);
        r.v2 = t_vec(t);
    } else if (k == "explicit") {
        r.type = RepetitionType::Explicit;
        uint64_t n = t.u64();
        for (uint64_t i = 0; i < n; i++) r.offsets.append(t_vec(t));
    } else if (k == "ex" || k == "ey") {
        r.type = k == "ex" ? RepetitionType::ExplicitX : RepetitionType::ExplicitY;
        uint64_t n = t.u64();
        for (uint64_t i = 0; i < n; i++) r.coords.append(t.d());
    }
}
static tm t_tm(Toks& t) {
    tm r = {};
    r.tm_year = (int)t.i64() - 1900;
    r.tm_mon = (int)t.i64() - 1;
    r.tm_mday = (int)t.i64();
    r.tm_hour = (int)t.i64();
    r.tm_min = (int)t.i64();
    r.tm_sec = (int)t.i64();
    return r;
}
static void j_tm(Json& j, const tm& v) {
    j.begin_arr();
    j.i64(v.tm_year + 1900);
    j.i64(v.tm_mon + 1);
    j.i64(v.tm_mday);
    j.i64(v.tm_hour);
    j.i64(v.tm_min);
    j.i64(v.tm_sec);
    j.end_arr();
}
static std::string hex_of(const uint8_t* p, size_t n) {
    static const char* d = "0123456789abcdef";
    std::string s;
    s.reserve(2 * n);
    for (size_t i = 0; i < n; i++) {
        s += d[p[i] >> 4];
        s += d[p[i] & 15];
    }
    return s;
}

// numbered parametric functions (path sections): data = parameter block
//   0: circle arc   R, a0, a1           (R cos(a), R sin(a)) - (R cos a0, R sin a0)
//   1: parabola     L, H                (L u, H u^2)
//   2: sine         L, A, k             (L u, A sin(2 pi k u))
//   3: cubic poly   ax bx cx ay by cy   (ax u + bx u^2 + cx u^3, ...)
static Vec2 param_fn(double u, void* data) {
    const std::vector<double>& p = *(std::vector<double>*)data;
    switch ((int)p[0]) {
        case 0: {
            double a = p[2] + u * (p[3] - p[2]);
            return Vec2{p[1] * (cos(a) - cos(p[2])), p[1] * (sin(a) - sin(p[2]))};
        }
        case 1: return Vec2{p[1] * u, p[2] * u * u};
        case 2: return Vec2{p[1] * u, p[2] * sin(2 * M_PI * p[3] * u)};
        default: return Vec2{p[1] * u + p[2] * u * u + p[3] * u * u * u, p[4] * u + p[5] * u * u + p[6] * u * u * u};
    }
}
static Vec2 param_grad(double u, void* data) {
    const std::vector<double>& p = *(std::vector<double>*)data;
    switch ((int)p[0]) {
        case 0: {
            double a = p[2] + u * (p[3] - p[2]);
            double da = p[3] - p[2];
            return Vec2{-p[1] * sin(a) * da, p[1] * cos(a) * da};
        }
        case 1: return Vec2{p[1], 2 * p[2] * u};
        case 2: return Vec2{p[1], p[2] * 2 * M_PI * p[3] * cos(2 * M_PI * p[3] * u)};
        default: return Vec2{p[1] + 2 * p[2] * u + 3 * p[3] * u * u, p[4] + 2 * p[5] * u + 3 * p[6] * u * u};
    }
}
// numbered width/offset interpolation functions:  0: a + b u^2   1: a + b sin(pi u)
static double interp_fn(double u, void* data) {
    const std::vector<double>& p = *(std::vector<double>*)data;
    if ((int)p[0] == 0) return p[1] + p[2] * u * u;
    return p[1] + p[2] * sin(M_PI * u);
}
static std::vector<double>* t_block(Toks& t) {
    uint64_t n = t.u64();
    std::vector<double>* v = new std::vector<double>();
    for (uint64_t i = 0; i < n; i++) v->push_back(t.d());
    S.pdata.push_back(v);
    return v;
}

#include "gdsmon_geom.inc"
#include "gdsmon_ops.inc"

int main(int argc, char** argv) {
    if (argc < 4) {
        fprintf(stderr, "usage: gdsmon <script> <out.jsonl> <workdir> [--nofork]\n");
        return 2;
    }
    FILE* devnull = fopen("/dev/null", "w");
    set_error_logger(devnull);
    bool nofork = argc > 4 && strcmp(argv[4], "--nofork") == 0;
    char sc[4096];
    snprintf(sc, sizeof sc, "%s/scratch.%d", argv[3], (int)getpid());
    mkdir(sc, 0755);
    g_scratch = sc;
    int rc = vf::run_script(argv[1], argv[2], argv[3], run_case, nofork);
    std::string cmd = "rm -rf '" + g_scratch + "'";
    if (system(cmd.c_str()) != 0) {
    }
    return rc;
}
