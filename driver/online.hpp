// Helpers for the online monitors (mon_c14 / mon_c19 / mon_c20): seeded PRNG, a violation
// reporter that prints JSON lines on stdout, and argument parsing.  No gdstk headers.
#ifndef VERIF_ONLINE_HPP
#define VERIF_ONLINE_HPP
#include <stdint.h>
#include <stdio.h>
#include <stdlib.h>
#include <string.h>

#include <map>
#include <string>

namespace vf {

struct Rng {  // splitmix64 / xorshift: deterministic across platforms
    uint64_t s;
    explicit Rng(uint64_t seed) : s(seed * 0x9E3779B97F4A7C15ull + 0x1234567) { next(); }
    uint64_t next() {
        uint64_t z = (s += 0x9E3779B97F4A7C15ull);
        z = (z ^ (z >> 30)) * 0xBF58476D1CE4E5B9ull;
        z = (z ^ (z >> 27)) * 0x94D049BB133111EBull;
        return z ^ (z >> 31);
    }
    uint64_t below(uint64_t n) { return n ? next() % n : 0; }
    int64_t range(int64_t lo, int64_t hi) { return lo + (int64_t)below((uint64_t)(hi - lo + 1)); }
    bool chance(double p) { return (next() >> 11) * (1.0 / 9007199254740992.0) < p; }
    double unit() { return (next() >> 11) * (1.0 / 9007199254740992.0); }
};

struct Args {
    uint64_t seed = 1;
    uint64_t batch = 0;
    uint64_t nbatches = 1;
    bool thorough = false;
    std::string only;  // restrict to one workload (replay)
    uint64_t only_index = (uint64_t)-1;
    void parse(int argc, char** argv) {
        for (int i = 1; i < argc; i++) {
            std::string a = argv[i];
            auto val = [&]() -> const char* { return i + 1 < argc ? argv[++i] : "0"; };
            if (a == "--seed") seed = strtoull(val(), 0, 0);
            else if (a == "--batch") batch = strtoull(val(), 0, 0);
            else if (a == "--nbatches") nbatches = strtoull(val(), 0, 0);
            else if (a == "--tier") thorough = strcmp(val(), "thorough") == 0;
            else if (a == "--only") only = val();
            else if (a == "--index") only_index = strtoull(val(), 0, 0);
        }
    }
};

// counters printed at the end as one JSON object
struct Stats {
    std::map<std::string, uint64_t> c;
    void add(const char* k, uint64_t n = 1) { c[k] += n; }
    void max(const char* k, uint64_t n) {
        if (c[k] < n) c[k] = n;
    }
    void print() const {
        printf("{\"stats\":{");
        bool first = true;
        for (auto& kv : c) {
            printf("%s\"%s\":%llu", first ? "" : ",", kv.first.c_str(), (unsigned long long)kv.second);
            first = false;
        }
        printf("}}\n");
        fflush(stdout);
    }
};

extern uint64_t g_violations;
// key: stable identifier of *what* failed (used for known-findings matching);
// where: workload name + index to replay;  detail: free text.
void violation(const char* key, const char* workload, uint64_t index, const char* fmt, ...)
    __attribute__((format(printf, 4, 5)));
// progress marker so that a crash can be attributed: printed (and flushed) before each history
void progress(const char* workload, uint64_t index);
void sample(const char* workload, uint64_t index, const char* fmt, ...) __attribute__((format(printf, 3, 4)));

}  // namespace vf
#endif
