// C14 online monitor: point-in-polygon queries and polygon measures against exact integer
// predicates (oracle_geom.cpp, which includes no gdstk header).
#include <string>
#include <vector>

#include <gdstk/gdstk.hpp>

#include "online.hpp"
#include "oracle_geom.hpp"

using namespace gdstk;
using vf::Rng;

static vf::Stats st;
static vf::Args args;
static uint64_t g_distinct_nontrivial = 0;

static std::string poly_str(const std::vector<int64_t>& xy, int64_t scale) {
    std::string s = "[";
    char b[64];
    for (size_t i = 0; i + 1 < xy.size(); i += 2) {
        snprintf(b, sizeof b, "%s(%g,%g)", i ? "," : "", (double)xy[i] / scale, (double)xy[i + 1] / scale);
        s += b;
    }
    return s + "]";
}

static void make_poly(Polygon& p, const std::vector<int64_t>& xy, int64_t scale) {
    p.point_array.count = 0;
    for (size_t i = 0; i + 1 < xy.size(); i += 2)
        p.point_array.append(Vec2{(double)xy[i] / (double)scale, (double)xy[i + 1] / (double)scale});
}

static void check_measures(const Polygon& p, const std::vector<int64_t>& xy, int64_t scale, uint64_t repcount,
                           const char* wl, uint64_t idx) {
    size_t n = xy.size() / 2;
    __int128 a2 = vo::twice_signed_area(xy.data(), n);
    double expect_signed = (double)a2 / (2.0 * (double)scale * (double)scale);  // exact: power-of-two scale, small ints
    double sa = p.signed_area();
    double mult = p.repetition.type == RepetitionType::None ? 1.0 : (double)repcount;
    double a = p.area();
    if (sa != expect_signed)
        vf::violation("C14/signed_area", wl, idx, "polygon %s: signed_area %.17g, exact %.17g", poly_str(xy, scale).c_str(), sa,
                      expect_signed);
    if (a != fabs(expect_signed) * mult)
        vf::violation("C14/area", wl, idx, "polygon %s x%g copies: area %.17g, exact %.17g", poly_str(xy, scale).c_str(), mult, a,
                      fabs(expect_signed) * mult);
    long double per = vo::perimeter(xy.data(), n) / (long double)scale * (long double)mult;
    double pg = p.perimeter();
    double slack = (double)per * 2.3e-16 * (double)(4 * n + 8);
    if (fabs(pg - (double)per) > slack)
        vf::violation("C14/perimeter", wl, idx, "polygon %s x%g copies: perimeter %.17g, exact %.17Lg", poly_str(xy, scale).c_str(),
                      mult, pg, per);
    st.add("measure_checks", 3);
}

// ------------------------------------------------------------ exhaustive small grids
static void exhaustive(const char* wl, int G, int L) {
    // polygon index = base-G*G digits; query grid = half-integers from -0.5 to G-0.5 (scale 2)
    uint64_t cells = (uint64_t)G * G, total = 1;
    for (int i = 0; i < L; i++) total *= cells;
    Polygon p = {};
    std::vector<int64_t> xy(2 * L);
    int Q = 2 * G + 1;
    for (uint64_t idx = args.batch; idx < total; idx += args.nbatches) {
        if (args.only_index != (uint64_t)-1 && idx != args.only_index) continue;
        if ((idx & 1023) == (args.batch & 1023)) vf::progress(wl, idx);
        uint64_t t = idx;
        for (int i = 0; i < L; i++) {
            uint64_t c = t % cells;
            t /= cells;
            xy[2 * i] = 2 * (int64_t)(c % G);
            xy[2 * i + 1] = 2 * (int64_t)(c / G);
        }
        make_poly(p, xy, 2);
        for (int qy = 0; qy < Q; qy++)
            for (int qx = 0; qx < Q; qx++) {
                int64_t px = qx - 1, py = qy - 1;
                int e = vo::point_in_polygon(xy.data(), (size_t)L, px, py);
                bool got = p.contain(Vec2{(double)px / 2, (double)py / 2});
                if (got != (e != 0)) {
                    vf::progress(wl, idx);
                    vf::violation("C14/contain", wl, idx, "polygon %s point (%g,%g): contain=%d exact=%d (2=boundary)",
                                  poly_str(xy, 2).c_str(), (double)px / 2, (double)py / 2, got, e);
                }
                if (e == 2) st.add("contain_on_boundary");
                bool level = false;
                for (int i = 0; i < L; i++) level |= xy[2 * i + 1] == py;
                if (e == 2 || level) g_distinct_nontrivial++;
            }
        st.add("contain_checks", (uint64_t)Q * Q);
        st.add("exhaustive_polygons");
        check_measures(p, xy, 2, 1, wl, idx);
        if (idx == 4242 % total) vf::sample(wl, idx, "G=%d L=%d polygon %s, %d query points", G, L, poly_str(xy, 2).c_str(), Q * Q);
    }
    p.clear();
}

// ------------------------------------------------------------ random polygons
static void gen_poly(Rng& r, std::vector<int64_t>& xy, int64_t range) {
    size_t n = (size_t)r.below(31);
    if (r.chance(0.1)) n = r.below(3);
    xy.resize(2 * n);
    int style = (int)r.below(4);
    for (size_t i = 0; i < n; i++) {
        int64_t x, y;
        if (style == 0) {  // Manhattan-ish staircase with many level vertices
            x = r.range(-range / 4, range / 4) * 4;
            y = r.range(-3, 3) * (range / 4);
        } else if (style == 1 && i) {  // repeat or nearly repeat the previous vertex
            x = xy[2 * i - 2] / 2 + (r.chance(0.3) ? 0 : r.range(-2, 2));
            y = xy[2 * i - 1] / 2 + (r.chance(0.3) ? 0 : r.range(-2, 2));
        } else {
            x = r.range(-range, range);
            y = r.range(-range, range);
        }
        xy[2 * i] = x * 2;  // keep coordinates even so that edge mid-points are on the integer grid
        xy[2 * i + 1] = y * 2;
    }
}

static void rand_case(Rng& r, uint64_t idx) {
    const char* wl = "rand";
    vf::progress(wl, idx);
    const int64_t scale = 16;  // coordinates are k/16, vertices on k/8
    std::vector<int64_t> xy;
    gen_poly(r, xy, 32);
    size_t n = xy.size() / 2;
    Polygon p = {};
    make_poly(p, xy, scale);
    std::vector<int64_t> q;
    for (size_t i = 0; i < n; i++) {
        size_t j = i + 1 == n ? 0 : i + 1;
        q.push_back(xy[2 * i]);
        q.push_back(xy[2 * i + 1]);
        q.push_back((xy[2 * i] + xy[2 * j]) / 2);  // edge mid point (exact: even coordinates)
        q.push_back((xy[2 * i + 1] + xy[2 * j + 1]) / 2);
        q.push_back(r.range(-70, 70));  // level with a vertex
        q.push_back(xy[2 * i + 1]);
    }
    for (int k = 0; k < 40; k++) {
        q.push_back(r.range(-70, 70));
        q.push_back(r.range(-70, 70));
    }
    bool nontrivial = false;
    for (size_t k = 0; k + 1 < q.size(); k += 2) {
        int e = vo::point_in_polygon(xy.data(), n, q[k], q[k + 1]);
        bool got = p.contain(Vec2{(double)q[k] / scale, (double)q[k + 1] / scale});
        if (got != (e != 0))
            vf::violation("C14/contain", wl, idx, "polygon %s point (%g,%g): contain=%d exact=%d", poly_str(xy, scale).c_str(),
                          (double)q[k] / scale, (double)q[k + 1] / scale, got, e);
        if (e == 2) {
            st.add("contain_on_boundary");
            nontrivial = true;
        }
    }
    st.add("contain_checks", q.size() / 2);
    st.add("random_polygons");
    if (nontrivial) g_distinct_nontrivial++;
    check_measures(p, xy, scale, 1, wl, idx);
    p.clear();
}

// ------------------------------------------------------------ groups and repetitions
static uint64_t set_random_repetition(Rng& r, Repetition& rep) {
    memset(&rep, 0, sizeof rep);
    switch (r.below(6)) {
        case 0: return 1;  // None
        case 1:
            rep.type = RepetitionType::Rectangular;
            rep.columns = 1 + r.below(4);
            rep.rows = 1 + r.below(4);
            rep.spacing = Vec2{(double)r.range(-8, 8), (double)r.range(-8, 8)};
            return rep.columns * rep.rows;
        case 2:
            rep.type = RepetitionType::Regular;
            rep.columns = 1 + r.below(4);
            rep.rows = 1 + r.below(4);
            rep.v1 = Vec2{(double)r.range(-8, 8), (double)r.range(-8, 8)};
            rep.v2 = Vec2{(double)r.range(-8, 8), (double)r.range(-8, 8)};
            return rep.columns * rep.rows;
        case 3: {
            rep.type = RepetitionType::Explicit;
            uint64_t n = r.below(5);
            for (uint64_t i = 0; i < n; i++) rep.offsets.append(Vec2{(double)r.range(-8, 8), (double)r.range(-8, 8)});
            return n + 1;
        }
        case 4:
        default: {
            rep.type = r.chance(0.5) ? RepetitionType::ExplicitX : RepetitionType::ExplicitY;
            uint64_t n = r.below(5);
            for (uint64_t i = 0; i < n; i++) rep.coords.append((double)r.range(-8, 8));
            return n + 1;
        }
    }
}

static void group_case(Rng& r, uint64_t idx) {
    const char* wl = "group";
    vf::progress(wl, idx);
    const int64_t scale = 16;
    size_t np = (size_t)r.below(6);
    std::vector<std::vector<int64_t>> xys(np);
    std::vector<Polygon> polys(np);
    Array<Polygon*> group = {};
    for (size_t i = 0; i < np; i++) {
        gen_poly(r, xys[i], r.chance(0.5) ? 12 : 32);
        if (r.chance(0.3)) {  // shift so that groups have disjoint and overlapping members
            int64_t dx = r.range(-40, 40) * 2, dy = r.range(-40, 40) * 2;
            for (size_t k = 0; k + 1 < xys[i].size(); k += 2) {
                xys[i][k] += dx;
                xys[i][k + 1] += dy;
            }
        }
        memset(&polys[i], 0, sizeof(Polygon));
        make_poly(polys[i], xys[i], scale);
        uint64_t cnt = set_random_repetition(r, polys[i].repetition);
        check_measures(polys[i], xys[i], scale, cnt, wl, idx);
        st.add("measure_with_repetition_kind", polys[i].repetition.type != RepetitionType::None);
        group.append(&polys[i]);
    }
    size_t nq = (size_t)r.below(r.chance(0.2) ? 1 : 24);
    Array<Vec2> pts = {};
    std::vector<int> expect(nq);
    std::vector<std::vector<int>> per(np, std::vector<int>(nq));
    bool all = true, any = false;
    for (size_t k = 0; k < nq; k++) {
        int64_t px, py;
        if (np && r.chance(0.5)) {  // a vertex or edge mid-point of some member
            const std::vector<int64_t>& v = xys[r.below(np)];
            if (v.size() >= 2) {
                size_t i = r.below(v.size() / 2), j = (i + 1) % (v.size() / 2);
                if (r.chance(0.5)) {
                    px = v[2 * i];
                    py = v[2 * i + 1];
                } else {
                    px = (v[2 * i] + v[2 * j]) / 2;
                    py = (v[2 * i + 1] + v[2 * j + 1]) / 2;
                }
            } else {
                px = r.range(-100, 100);
                py = r.range(-100, 100);
            }
        } else {
            px = r.range(-100, 100);
            py = r.range(-100, 100);
        }
        pts.append(Vec2{(double)px / scale, (double)py / scale});
        int e = 0;
        for (size_t i = 0; i < np; i++) {
            per[i][k] = vo::point_in_polygon(xys[i].data(), xys[i].size() / 2, px, py) != 0;
            e |= per[i][k];
        }
        expect[k] = e;
        all = all && e;
        any = any || e;
    }
    std::vector<char> res(nq + 1, 2);
    inside(pts, group, (bool*)res.data());
    for (size_t k = 0; k < nq; k++)
        if ((res[k] != 0) != (expect[k] != 0))
            vf::violation("C14/inside", wl, idx, "group of %zu polygons, point %zu (%g,%g): inside=%d exact=%d", np, k, pts[k].x,
                          pts[k].y, res[k], expect[k]);
    bool ga = all_inside(pts, group), gy = any_inside(pts, group);
    if (ga != all)
        vf::violation("C14/all_inside", wl, idx, "group of %zu polygons, %zu points: all_inside=%d exact=%d", np, nq, ga, all);
    if (gy != any)
        vf::violation("C14/any_inside", wl, idx, "group of %zu polygons, %zu points: any_inside=%d exact=%d", np, nq, gy, any);
    for (size_t i = 0; i < np; i++) {
        bool ca = true, cy = false;
        for (size_t k = 0; k < nq; k++) {
            ca = ca && per[i][k];
            cy = cy || per[i][k];
        }
        bool g1 = polys[i].contain_all(pts), g2 = polys[i].contain_any(pts);
        if (g1 != ca)
            vf::violation("C14/contain_all", wl, idx, "polygon %s, %zu points: contain_all=%d exact=%d", poly_str(xys[i], scale).c_str(),
                          nq, g1, ca);
        if (g2 != cy)
            vf::violation("C14/contain_any", wl, idx, "polygon %s, %zu points: contain_any=%d exact=%d", poly_str(xys[i], scale).c_str(),
                          nq, g2, cy);
    }
    st.add("group_checks", 3 + 2 * np);
    st.add("group_points", nq);
    if (nq == 0) st.add("group_empty_point_list");
    if (np == 0) st.add("group_empty_polygon_list");
    g_distinct_nontrivial++;
    if (idx < 2) vf::sample(wl, idx, "group of %zu polygons (first %s), %zu query points", np, np ? poly_str(xys[0], scale).c_str() : "-", nq);
    for (size_t i = 0; i < np; i++) polys[i].clear();
    group.clear();
    pts.clear();
}

int main(int argc, char** argv) {
    args.parse(argc, argv);
    FILE* devnull = fopen("/dev/null", "w");
    set_error_logger(devnull);
    struct E {
        const char* name;
        int G, L;
        bool thorough_only;
    } ex[] = {{"exh_4x4_L0", 4, 0, false}, {"exh_4x4_L1", 4, 1, false}, {"exh_4x4_L2", 4, 2, false},
              {"exh_4x4_L3", 4, 3, false}, {"exh_4x4_L4", 4, 4, false}, {"exh_4x4_L5", 4, 5, true},
              {"exh_5x5_L4", 5, 4, true}};
    for (auto& e : ex) {
        if (!args.only.empty() && args.only != e.name) continue;
        if (e.thorough_only && !args.thorough) continue;
        exhaustive(e.name, e.G, e.L);
    }
    struct W {
        const char* name;
        void (*fn)(Rng&, uint64_t);
        uint64_t quick, thorough;
    } ws[] = {{"rand", rand_case, 40000, 1500000}, {"group", group_case, 20000, 600000}};
    for (auto& w : ws) {
        if (!args.only.empty() && args.only != w.name) continue;
        uint64_t total = args.thorough ? w.thorough : w.quick;
        for (uint64_t i = args.batch; i < total; i += args.nbatches) {
            if (args.only_index != (uint64_t)-1 && i != args.only_index) continue;
            Rng r(args.seed * 1000003ull + (w.name[0] == 'r' ? 17 : 29) + i * 7919ull);
            w.fn(r, i);
        }
    }
    printf("{\"distinct_nontrivial\":%llu}\n", (unsigned long long)g_distinct_nontrivial);
    st.add("violations", vf::g_violations);
    st.print();
    return 0;
}
