// Violation / progress reporting for the online monitors.  No gdstk headers.
#include "online.hpp"

#include <signal.h>
#include <stdarg.h>
#include <unistd.h>

extern "C" void __sanitizer_set_death_callback(void (*)(void)) __attribute__((weak));

namespace vf {

uint64_t g_violations = 0;
static char g_progress[256] = "{\"crash_at\":null}\n";
static volatile sig_atomic_t g_progress_printed = 0;
static volatile sig_atomic_t g_progress_set = 0;

static void print_progress_raw() {
    if (g_progress_printed || !g_progress_set) return;
    g_progress_printed = 1;
    fflush(stdout);
    ssize_t r = write(1, g_progress, strlen(g_progress));
    (void)r;
}
static void on_abort(int) {
    print_progress_raw();
    signal(SIGABRT, SIG_DFL);
}
static struct Init {
    Init() {
        if (__sanitizer_set_death_callback) __sanitizer_set_death_callback(print_progress_raw);
        signal(SIGABRT, on_abort);
    }
} g_init;

void progress(const char* workload, uint64_t index) {
    g_progress_set = 1;
    snprintf(g_progress, sizeof g_progress, "{\"crash_at\":{\"workload\":\"%s\",\"index\":%llu}}\n", workload,
             (unsigned long long)index);
}

static void json_escape(const char* s, std::string& out) {
    for (; *s; s++) {
        unsigned char c = (unsigned char)*s;
        if (c == '"' || c == '\\') {
            out += '\\';
            out += (char)c;
        } else if (c < 0x20 || c >= 0x7f) {
            char b[8];
            snprintf(b, sizeof b, "\\u%04x", c);
            out += b;
        } else
            out += (char)c;
    }
}

void violation(const char* key, const char* workload, uint64_t index, const char* fmt, ...) {
    g_violations++;
    if (g_violations > 50) return;  // enough witnesses
    char buf[4096];
    va_list ap;
    va_start(ap, fmt);
    vsnprintf(buf, sizeof buf, fmt, ap);
    va_end(ap);
    std::string d;
    json_escape(buf, d);
    printf("{\"violation\":{\"key\":\"%s\",\"workload\":\"%s\",\"index\":%llu,\"detail\":\"%s\"}}\n", key, workload,
           (unsigned long long)index, d.c_str());
    fflush(stdout);
}

void sample(const char* workload, uint64_t index, const char* fmt, ...) {
    char buf[2048];
    va_list ap;
    va_start(ap, fmt);
    vsnprintf(buf, sizeof buf, fmt, ap);
    va_end(ap);
    std::string d;
    json_escape(buf, d);
    printf("{\"sample\":{\"workload\":\"%s\",\"index\":%llu,\"text\":\"%s\"}}\n", workload, (unsigned long long)index,
           d.c_str());
}

}  // namespace vf
