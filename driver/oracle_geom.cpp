// Exact integer geometry (reference model).  No gdstk header is included in this translation unit.
#include "oracle_geom.hpp"

#include <math.h>

namespace vo {

typedef __int128 i128;

static inline i128 cross(int64_t ax, int64_t ay, int64_t bx, int64_t by, int64_t px, int64_t py) {
    return (i128)(bx - ax) * (i128)(py - ay) - (i128)(by - ay) * (i128)(px - ax);
}

static inline bool on_segment(int64_t ax, int64_t ay, int64_t bx, int64_t by, int64_t px, int64_t py) {
    if (cross(ax, ay, bx, by, px, py) != 0) return false;
    int64_t lox = ax < bx ? ax : bx, hix = ax < bx ? bx : ax;
    int64_t loy = ay < by ? ay : by, hiy = ay < by ? by : ay;
    return px >= lox && px <= hix && py >= loy && py <= hiy;
}

int point_in_polygon(const int64_t* xy, size_t n, int64_t px, int64_t py) {
    if (n == 0) return 0;
    int64_t wn = 0;
    for (size_t i = 0; i < n; i++) {
        size_t j = i + 1 == n ? 0 : i + 1;
        int64_t ax = xy[2 * i], ay = xy[2 * i + 1], bx = xy[2 * j], by = xy[2 * j + 1];
        if (on_segment(ax, ay, bx, by, px, py)) return 2;
        if (ay <= py) {
            if (by > py && cross(ax, ay, bx, by, px, py) > 0) wn++;
        } else {
            if (by <= py && cross(ax, ay, bx, by, px, py) < 0) wn--;
        }
    }
    return wn != 0 ? 1 : 0;
}

__int128 twice_signed_area(const int64_t* xy, size_t n) {
    if (n < 3) return 0;
    i128 s = 0;
    for (size_t i = 0; i < n; i++) {
        size_t j = i + 1 == n ? 0 : i + 1;
        s += (i128)xy[2 * i] * (i128)xy[2 * j + 1] - (i128)xy[2 * j] * (i128)xy[2 * i + 1];
    }
    return s;
}

long double perimeter(const int64_t* xy, size_t n) {
    if (n < 3) return 0;
    long double s = 0;
    for (size_t i = 0; i < n; i++) {
        size_t j = i + 1 == n ? 0 : i + 1;
        long double dx = (long double)(xy[2 * j] - xy[2 * i]), dy = (long double)(xy[2 * j + 1] - xy[2 * i + 1]);
        s += sqrtl(dx * dx + dy * dy);
    }
    return s;
}

}  // namespace vo
