// C20 online monitor: gdstk containers, property lists and sorting next to abstract models.
// Every gdstk call's return value is compared with std::map / std::set / a vector model, and the
// container is re-read completely through its own API (get/has_key/next/to_array) at check points.
#include <algorithm>
#include <map>
#include <set>
#include <string>
#include <vector>

#include <gdstk/gdstk.hpp>

#include "online.hpp"

using namespace gdstk;
using vf::Rng;

static vf::Stats st;
static vf::Args args;

// ------------------------------------------------------------------ key mining
// FNV-1a is re-implemented here only to *mine* colliding keys (workload quality); no verdict
// depends on it.  Coverage counters below measure collisions by looking at the table.
static uint64_t fnv_str(const char* s) {
    uint64_t h = 0xcbf29ce484222325ull;
    for (; *s; s++) {
        h ^= (uint64_t)(unsigned char)*s;
        h *= 0x100000001b3ull;
    }
    return h;
}
static uint64_t fnv_u64(uint64_t v) {
    uint64_t h = 0xcbf29ce484222325ull;
    for (int i = 0; i < 8; i++) {
        h ^= (v >> (8 * i)) & 0xff;
        h *= 0x100000001b3ull;
    }
    return h;
}

struct KeyPool {
    std::vector<std::string> skeys;
    std::vector<uint64_t> tkeys;
};

// Build a pool of n keys: a share collides modulo `mask+1` on slot `slot` (and its neighbours),
// the rest is arbitrary.
static KeyPool mine(Rng& r, size_t n, uint64_t mask, double collide_share) {
    KeyPool p;
    uint64_t slot = r.chance(0.5) ? mask : r.below(mask + 1);  // last slot => wrap-around
    uint64_t near = r.below(3);
    uint64_t cand = r.below(1000000);
    size_t guard = 0;
    while (p.skeys.size() < n && guard++ < 50000000) {
        char b[32];
        snprintf(b, sizeof b, "%c%llu", "kcN_"[cand & 3], (unsigned long long)cand);
        cand++;
        bool want_collide = p.skeys.size() < (size_t)(n * collide_share);
        uint64_t h = fnv_str(b) & mask;
        if (!want_collide || ((slot - h) & mask) <= near) p.skeys.push_back(b);
    }
    guard = 0;
    cand = r.below(1000);
    while (p.tkeys.size() < n && guard++ < 50000000) {
        uint64_t layer = cand & 0x3ff, type = (cand >> 10) & 0xfff;
        uint64_t tag = (type << 32) | layer;
        cand++;
        bool want_collide = p.tkeys.size() < (size_t)(n * collide_share);
        uint64_t h = fnv_u64(tag) & mask;
        if (!want_collide || ((slot - h) & mask) <= near) p.tkeys.push_back(tag);
    }
    return p;
}

// ------------------------------------------------------------------ Map<uint64_t>
template <class M>
static uint64_t occupied_run_after(const M& m, uint64_t idx, bool (*occ)(const M&, uint64_t)) {
    // length of the occupied run that follows slot idx (cyclic) - coverage statistic only
    uint64_t n = 0;
    if (m.capacity == 0) return 0;
    for (uint64_t j = (idx + 1) % m.capacity; n < m.capacity && occ(m, j); j = (j + 1) % m.capacity) n++;
    return n;
}
static bool occ_map(const Map<uint64_t>& m, uint64_t i) { return m.items[i].key != NULL; }
static bool occ_set(const Set<uint64_t>& m, uint64_t i) { return m.items[i].valid; }
static bool occ_tag(const TagMap& m, uint64_t i) { return m.items[i].key != m.items[i].value; }
static bool occ_style(const StyleMap& m, uint64_t i) { return m.items[i].value != NULL; }

static bool check_map(const Map<uint64_t>& m, const std::map<std::string, uint64_t>& model, const char* wl,
                      uint64_t idx, uint64_t step) {
    if (m.count != model.size()) {
        vf::violation("C20/map/count", wl, idx, "step %llu: count %llu, model %zu", (unsigned long long)step,
                      (unsigned long long)m.count, model.size());
        return false;
    }
    // iteration yields exactly the model's entries
    std::map<std::string, uint64_t> seen;
    uint64_t n = 0;
    for (MapItem<uint64_t>* it = m.next(NULL); it; it = m.next(it)) {
        if (++n > m.capacity + 1) break;
        if (seen.count(it->key)) {
            vf::violation("C20/map/duplicate-key", wl, idx, "step %llu: key %s iterated twice",
                          (unsigned long long)step, it->key);
            return false;
        }
        seen[it->key] = it->value;
    }
    if (seen != model) {
        vf::violation("C20/map/iteration", wl, idx, "step %llu: iteration yields %zu entries, model %zu (or values differ)",
                      (unsigned long long)step, seen.size(), model.size());
        return false;
    }
    // every key is found through the look-up path
    for (auto& kv : model) {
        if (!m.has_key(kv.first.c_str()) || m.get(kv.first.c_str()) != kv.second) {
            vf::violation("C20/map/lookup", wl, idx, "step %llu: key %s not found or wrong value",
                          (unsigned long long)step, kv.first.c_str());
            return false;
        }
    }
    Array<uint64_t> arr = {};
    m.to_array(arr);
    std::multiset<uint64_t> a(arr.items, arr.items + arr.count), b;
    for (auto& kv : model) b.insert(kv.second);
    arr.clear();
    if (a != b) {
        vf::violation("C20/map/to_array", wl, idx, "step %llu: to_array differs from model", (unsigned long long)step);
        return false;
    }
    st.add("map_full_checks");
    return true;
}

static void map_history(Rng& r, uint64_t idx) {
    const char* wl = "map";
    vf::progress(wl, idx);
    uint64_t mask = (8ull << r.below(10)) - 1;  // 8 .. 4096
    size_t nkeys = 4 + r.below(r.chance(0.2) ? 1500 : 60);
    KeyPool pool = mine(r, nkeys, mask, r.chance(0.7) ? 0.6 : 0.0);
    uint64_t nops = 50 + r.below(r.chance(0.15) ? 2000 : 300);
    double del_share = r.chance(0.5) ? 0.4 : 0.15;
    Map<uint64_t> m = {};
    std::map<std::string, uint64_t> model;
    bool moved = false, resized = false;
    uint64_t val = 1;
    uint64_t h = 1469598103934665603ull;
    for (uint64_t step = 0; step < nops; step++) {
        const std::string& k = pool.skeys[r.below(pool.skeys.size())];
        double x = r.unit();
        uint64_t cap0 = m.capacity;
        int opcode;
        if (x < del_share) {
            opcode = 1;
            bool expect = model.erase(k) > 0;
            uint64_t run = 0;
            if (expect && m.capacity) {
                MapItem<uint64_t>* slot = m.get_slot(k.c_str());
                run = occupied_run_after(m, (uint64_t)(slot - m.items), occ_map);
                if (run) {
                    moved = true;
                    st.add("map_del_with_following_run");
                    if ((uint64_t)(slot - m.items) + run >= m.capacity) st.add("map_del_run_wraps_table_end");
                }
            }
            bool got = m.del(k.c_str());
            if (got != expect) {
                vf::violation("C20/map/del-return", wl, idx, "step %llu: del(%s) returned %d, model %d",
                              (unsigned long long)step, k.c_str(), got, expect);
                break;
            }
            st.add("map_del");
        } else if (x < del_share + 0.35) {
            opcode = 2;
            uint64_t v = val++;
            if (model.count(k)) st.add("map_overwrite");
            model[k] = v;
            m.set(k.c_str(), v);
            st.add("map_set");
        } else if (x < del_share + 0.55) {
            opcode = 3;
            auto it = model.find(k);
            uint64_t expect = it == model.end() ? 0 : it->second;
            uint64_t got = m.get(k.c_str());
            bool hk = m.has_key(k.c_str());
            if (got != expect || hk != (it != model.end())) {
                vf::violation("C20/map/get", wl, idx, "step %llu: get(%s)=%llu has_key=%d, model %llu/%d",
                              (unsigned long long)step, k.c_str(), (unsigned long long)got, hk,
                              (unsigned long long)expect, it != model.end());
                break;
            }
            st.add("map_get");
        } else if (x < del_share + 0.57) {
            opcode = 4;
            // copy, compare, mutate the copy independently, then drop it
            Map<uint64_t> c = {};
            c.copy_from(m);
            if (!check_map(c, model, wl, idx, step)) break;
            std::map<std::string, uint64_t> cm = model;
            for (int j = 0; j < 5; j++) {
                const std::string& k2 = pool.skeys[r.below(pool.skeys.size())];
                if (r.chance(0.5)) {
                    c.set(k2.c_str(), 777000 + j);
                    cm[k2] = 777000 + j;
                } else {
                    bool e = cm.erase(k2) > 0;
                    if (c.del(k2.c_str()) != e) {
                        vf::violation("C20/map/copy-del", wl, idx, "step %llu: del on copy", (unsigned long long)step);
                    }
                }
            }
            if (!check_map(c, cm, wl, idx, step)) break;
            c.clear();
            if (!check_map(m, model, wl, idx, step)) break;  // source untouched
            st.add("map_copy");
        } else if (x < del_share + 0.575) {
            opcode = 5;
            m.clear();
            model.clear();
            if (m.count != 0 || m.capacity != 0 || m.items != NULL) {
                vf::violation("C20/map/clear", wl, idx, "step %llu: clear leaves state", (unsigned long long)step);
                break;
            }
            st.add("map_clear");
        } else {
            opcode = 6;
            // look up a key that was never inserted but collides
            char b[48];
            snprintf(b, sizeof b, "%s#absent", k.c_str());
            if (m.has_key(b) || m.get(b) != 0 || m.del(b)) {
                vf::violation("C20/map/absent", wl, idx, "step %llu: absent key %s reported present",
                              (unsigned long long)step, b);
                break;
            }
            st.add("map_absent_lookup");
        }
        h = (h ^ (uint64_t)opcode ^ fnv_str(k.c_str())) * 1099511628211ull;
        if (m.capacity != cap0 && cap0 != 0 && m.capacity > cap0) {
            resized = true;
            st.add("map_growth_steps");
            st.max("map_max_capacity", m.capacity);
        }
        if (m.capacity && m.count >= m.capacity) {
            vf::violation("C20/map/full-table", wl, idx, "step %llu: count %llu >= capacity %llu",
                          (unsigned long long)step, (unsigned long long)m.count, (unsigned long long)m.capacity);
            break;
        }
        bool full = nops <= 400 || step % 16 == 0 || step + 1 == nops || m.capacity != cap0;
        if (full && !check_map(m, model, wl, idx, step)) break;
    }
    m.clear();
    st.add("map_histories");
    if (moved || resized) {
        st.add("nontrivial_histories");
        printf("{\"fp\":\"map:%016llx\"}\n", (unsigned long long)h);
    }
    if (idx < 2)
        vf::sample(wl, idx, "map history: %llu ops over %zu keys (capacity mask %llu), moving-deletion=%d growth=%d",
                   (unsigned long long)nops, nkeys, (unsigned long long)mask, moved, resized);
}

// ------------------------------------------------------------------ Set<uint64_t>
static bool check_set(const Set<uint64_t>& s, const std::set<uint64_t>& model, const char* wl, uint64_t idx,
                      uint64_t step) {
    if (s.count != model.size()) {
        vf::violation("C20/set/count", wl, idx, "step %llu: count %llu model %zu", (unsigned long long)step,
                      (unsigned long long)s.count, model.size());
        return false;
    }
    std::multiset<uint64_t> seen;
    uint64_t n = 0;
    for (SetItem<uint64_t>* it = s.next(NULL); it; it = s.next(it)) {
        if (++n > s.capacity + 1) break;
        seen.insert(it->value);
    }
    if (seen.size() != model.size() || !std::equal(seen.begin(), seen.end(), model.begin())) {
        vf::violation("C20/set/iteration", wl, idx, "step %llu: iteration differs from model", (unsigned long long)step);
        return false;
    }
    for (uint64_t v : model)
        if (!s.has_value(v)) {
            vf::violation("C20/set/lookup", wl, idx, "step %llu: value %llx lost", (unsigned long long)step,
                          (unsigned long long)v);
            return false;
        }
    Array<uint64_t> arr = {};
    s.to_array(arr);
    std::multiset<uint64_t> a(arr.items, arr.items + arr.count);
    arr.clear();
    if (a != seen) {
        vf::violation("C20/set/to_array", wl, idx, "step %llu: to_array differs", (unsigned long long)step);
        return false;
    }
    st.add("set_full_checks");
    return true;
}

static void set_history(Rng& r, uint64_t idx) {
    const char* wl = "set";
    vf::progress(wl, idx);
    uint64_t mask = (8ull << r.below(10)) - 1;
    size_t nkeys = 4 + r.below(r.chance(0.2) ? 1500 : 60);
    KeyPool pool = mine(r, nkeys, mask, r.chance(0.7) ? 0.6 : 0.0);
    uint64_t nops = 50 + r.below(r.chance(0.15) ? 2000 : 300);
    double del_share = r.chance(0.5) ? 0.4 : 0.15;
    Set<uint64_t> s = {};
    std::set<uint64_t> model;
    bool moved = false, resized = false;
    uint64_t h = 7;
    for (uint64_t step = 0; step < nops; step++) {
        uint64_t k = pool.tkeys[r.below(pool.tkeys.size())];
        double x = r.unit();
        uint64_t cap0 = s.capacity;
        int opcode;
        if (x < del_share) {
            opcode = 1;
            bool expect = model.erase(k) > 0;
            if (expect && s.capacity) {
                SetItem<uint64_t>* slot = s.get_slot(k);
                uint64_t run = occupied_run_after(s, (uint64_t)(slot - s.items), occ_set);
                if (run) {
                    moved = true;
                    st.add("set_del_with_following_run");
                    if ((uint64_t)(slot - s.items) + run >= s.capacity) st.add("set_del_run_wraps_table_end");
                }
            }
            bool got = s.del(k);
            if (got != expect) {
                vf::violation("C20/set/del-return", wl, idx, "step %llu: del returned %d, model %d",
                              (unsigned long long)step, got, expect);
                break;
            }
            st.add("set_del");
        } else if (x < del_share + 0.4) {
            opcode = 2;
            model.insert(k);
            s.add(k);
            st.add("set_add");
        } else if (x < del_share + 0.58) {
            opcode = 3;
            if (s.has_value(k) != (model.count(k) > 0)) {
                vf::violation("C20/set/has_value", wl, idx, "step %llu: has_value(%llx) wrong", (unsigned long long)step,
                              (unsigned long long)k);
                break;
            }
            if (s.has_value(k ^ (1ull << 50))) {
                vf::violation("C20/set/absent", wl, idx, "step %llu: absent value reported present",
                              (unsigned long long)step);
                break;
            }
            st.add("set_lookup");
        } else if (x < del_share + 0.595) {
            opcode = 4;
            Set<uint64_t> c = {};
            c.copy_from(s);
            if (!check_set(c, model, wl, idx, step)) break;
            std::set<uint64_t> cm = model;
            for (int j = 0; j < 5; j++) {
                uint64_t k2 = pool.tkeys[r.below(pool.tkeys.size())];
                if (r.chance(0.5)) {
                    c.add(k2);
                    cm.insert(k2);
                } else {
                    bool e = cm.erase(k2) > 0;
                    if (c.del(k2) != e) vf::violation("C20/set/copy-del", wl, idx, "step %llu", (unsigned long long)step);
                }
            }
            if (!check_set(c, cm, wl, idx, step)) break;
            c.clear();
            if (!check_set(s, model, wl, idx, step)) break;
            st.add("set_copy");
        } else {
            opcode = 5;
            if (r.chance(0.1)) {
                s.clear();
                model.clear();
                st.add("set_clear");
            }
        }
        h = (h ^ (uint64_t)opcode ^ k) * 1099511628211ull;
        if (cap0 && s.capacity > cap0) {
            resized = true;
            st.add("set_growth_steps");
        }
        bool full = nops <= 400 || step % 16 == 0 || step + 1 == nops || s.capacity != cap0;
        if (full && !check_set(s, model, wl, idx, step)) break;
    }
    s.clear();
    st.add("set_histories");
    if (moved || resized) {
        st.add("nontrivial_histories");
        printf("{\"fp\":\"set:%016llx\"}\n", (unsigned long long)h);
    }
}

// ------------------------------------------------------------------ TagMap
static bool check_tagmap(const TagMap& m, const std::map<uint64_t, uint64_t>& model, const char* wl, uint64_t idx,
                         uint64_t step) {
    if (m.count != model.size()) {
        vf::violation("C20/tagmap/count", wl, idx, "step %llu: count %llu model %zu", (unsigned long long)step,
                      (unsigned long long)m.count, model.size());
        return false;
    }
    std::map<uint64_t, uint64_t> seen;
    uint64_t n = 0, dup = 0;
    for (TagMapItem* it = m.next(NULL); it; it = m.next(it)) {
        if (++n > m.capacity + 1) break;
        if (seen.count(it->key)) dup++;
        seen[it->key] = it->value;
    }
    if (dup || seen != model) {
        vf::violation("C20/tagmap/iteration", wl, idx, "step %llu: iteration differs from model (dup %llu)",
                      (unsigned long long)step, (unsigned long long)dup);
        return false;
    }
    for (auto& kv : model)
        if (!m.has_key(kv.first) || m.get(kv.first) != kv.second) {
            vf::violation("C20/tagmap/lookup", wl, idx, "step %llu: key %llx lost", (unsigned long long)step,
                          (unsigned long long)kv.first);
            return false;
        }
    st.add("tagmap_full_checks");
    return true;
}

static void tagmap_history(Rng& r, uint64_t idx) {
    const char* wl = "tagmap";
    vf::progress(wl, idx);
    uint64_t mask = (8ull << r.below(10)) - 1;
    size_t nkeys = 4 + r.below(r.chance(0.2) ? 1500 : 60);
    KeyPool pool = mine(r, nkeys, mask, r.chance(0.7) ? 0.6 : 0.0);
    if (r.chance(0.5)) pool.tkeys.push_back(0);  // tag (0,0) is a legal key
    uint64_t nops = 50 + r.below(r.chance(0.15) ? 2000 : 300);
    double del_share = r.chance(0.5) ? 0.35 : 0.15;
    TagMap m = {};
    std::map<uint64_t, uint64_t> model;
    bool moved = false, resized = false;
    uint64_t h = 11;
    for (uint64_t step = 0; step < nops; step++) {
        uint64_t k = pool.tkeys[r.below(pool.tkeys.size())];
        double x = r.unit();
        uint64_t cap0 = m.capacity;
        int opcode;
        if (x < del_share) {
            opcode = 1;
            bool expect = model.erase(k) > 0;
            if (expect && m.capacity) {
                TagMapItem* slot = m.get_slot(k);
                uint64_t run = occupied_run_after(m, (uint64_t)(slot - m.items), occ_tag);
                if (run) {
                    moved = true;
                    st.add("tagmap_del_with_following_run");
                    if ((uint64_t)(slot - m.items) + run >= m.capacity) st.add("tagmap_del_run_wraps_table_end");
                }
            }
            bool got = m.del(k);
            if (got != expect) {
                vf::violation("C20/tagmap/del-return", wl, idx, "step %llu: del returned %d, model %d",
                              (unsigned long long)step, got, expect);
                break;
            }
            st.add("tagmap_del");
        } else if (x < del_share + 0.4) {
            opcode = 2;
            uint64_t v = r.chance(0.1) ? k : pool.tkeys[r.below(pool.tkeys.size())];
            // documented: items with the value equal to the key are ignored (set(k,k) removes k)
            if (v == k)
                model.erase(k);
            else
                model[k] = v;
            m.set(k, v);
            st.add(v == k ? "tagmap_set_identity" : "tagmap_set");
        } else if (x < del_share + 0.58) {
            opcode = 3;
            auto it = model.find(k);
            uint64_t expect = it == model.end() ? k : it->second;
            if (m.get(k) != expect || m.has_key(k) != (it != model.end())) {
                vf::violation("C20/tagmap/get", wl, idx, "step %llu: get(%llx) wrong", (unsigned long long)step,
                              (unsigned long long)k);
                break;
            }
            st.add("tagmap_get");
        } else if (x < del_share + 0.595) {
            opcode = 4;
            TagMap c = {};
            c.copy_from(m);
            if (!check_tagmap(c, model, wl, idx, step)) break;
            std::map<uint64_t, uint64_t> cm = model;
            for (int j = 0; j < 5; j++) {
                uint64_t k2 = pool.tkeys[r.below(pool.tkeys.size())];
                if (r.chance(0.5)) {
                    c.set(k2, k2 + 1);
                    cm[k2] = k2 + 1;
                } else {
                    bool e = cm.erase(k2) > 0;
                    if (c.del(k2) != e) vf::violation("C20/tagmap/copy-del", wl, idx, "step %llu", (unsigned long long)step);
                }
            }
            if (!check_tagmap(c, cm, wl, idx, step)) break;
            c.clear();
            if (!check_tagmap(m, model, wl, idx, step)) break;
            st.add("tagmap_copy");
        } else {
            opcode = 5;
            if (r.chance(0.1)) {
                m.clear();
                model.clear();
                st.add("tagmap_clear");
            }
        }
        h = (h ^ (uint64_t)opcode ^ k) * 1099511628211ull;
        if (cap0 && m.capacity > cap0) {
            resized = true;
            st.add("tagmap_growth_steps");
        }
        bool full = nops <= 400 || step % 16 == 0 || step + 1 == nops || m.capacity != cap0;
        if (full && !check_tagmap(m, model, wl, idx, step)) break;
    }
    m.clear();
    st.add("tagmap_histories");
    if (moved || resized) {
        st.add("nontrivial_histories");
        printf("{\"fp\":\"tagmap:%016llx\"}\n", (unsigned long long)h);
    }
}

// ------------------------------------------------------------------ StyleMap
static bool check_style(const StyleMap& m, const std::map<uint64_t, std::string>& model, const char* wl,
                        uint64_t idx, uint64_t step) {
    if (m.count != model.size()) {
        vf::violation("C20/stylemap/count", wl, idx, "step %llu: count %llu model %zu", (unsigned long long)step,
                      (unsigned long long)m.count, model.size());
        return false;
    }
    std::map<uint64_t, std::string> seen;
    uint64_t n = 0, dup = 0;
    for (Style* it = m.next(NULL); it; it = m.next(it)) {
        if (++n > m.capacity + 1) break;
        if (seen.count(it->tag)) dup++;
        seen[it->tag] = it->value;
    }
    if (dup || seen != model) {
        vf::violation("C20/stylemap/iteration", wl, idx, "step %llu: iteration differs from model",
                      (unsigned long long)step);
        return false;
    }
    for (auto& kv : model) {
        const char* g = m.get(kv.first);
        if (!g || kv.second != g) {
            vf::violation("C20/stylemap/lookup", wl, idx, "step %llu: tag %llx lost", (unsigned long long)step,
                          (unsigned long long)kv.first);
            return false;
        }
    }
    st.add("stylemap_full_checks");
    return true;
}

static void style_history(Rng& r, uint64_t idx) {
    const char* wl = "stylemap";
    vf::progress(wl, idx);
    uint64_t mask = (8ull << r.below(8)) - 1;
    size_t nkeys = 4 + r.below(r.chance(0.2) ? 600 : 60);
    KeyPool pool = mine(r, nkeys, mask, r.chance(0.7) ? 0.6 : 0.0);
    uint64_t nops = 50 + r.below(r.chance(0.15) ? 1200 : 300);
    double del_share = r.chance(0.5) ? 0.4 : 0.15;
    StyleMap m = {};
    std::map<uint64_t, std::string> model;
    bool moved = false, resized = false;
    uint64_t h = 13;
    for (uint64_t step = 0; step < nops; step++) {
        uint64_t k = pool.tkeys[r.below(pool.tkeys.size())];
        double x = r.unit();
        uint64_t cap0 = m.capacity;
        int opcode;
        if (x < del_share) {
            opcode = 1;
            bool expect = model.erase(k) > 0;
            if (expect && m.capacity) {
                Style* slot = m.get_slot(k);
                uint64_t run = occupied_run_after(m, (uint64_t)(slot - m.items), occ_style);
                if (run) {
                    moved = true;
                    st.add("stylemap_del_with_following_run");
                    if ((uint64_t)(slot - m.items) + run >= m.capacity) st.add("stylemap_del_run_wraps_table_end");
                }
            }
            bool got = m.del(k);
            if (got != expect) {
                vf::violation("C20/stylemap/del-return", wl, idx, "step %llu: del returned %d, model %d",
                              (unsigned long long)step, got, expect);
                break;
            }
            st.add("stylemap_del");
        } else if (x < del_share + 0.4) {
            opcode = 2;
            char b[64];
            snprintf(b, sizeof b, "stroke:#%06llx;fill:none", (unsigned long long)r.below(1 << 24));
            model[k] = b;
            m.set(k, b);
            st.add("stylemap_set");
        } else if (x < del_share + 0.58) {
            opcode = 3;
            auto it = model.find(k);
            const char* g = m.get(k);
            if ((g != NULL) != (it != model.end()) || (g && it->second != g)) {
                vf::violation("C20/stylemap/get", wl, idx, "step %llu: get wrong", (unsigned long long)step);
                break;
            }
            st.add("stylemap_get");
        } else if (x < del_share + 0.595) {
            opcode = 4;
            StyleMap c = {};
            c.copy_from(m);
            if (!check_style(c, model, wl, idx, step)) break;
            std::map<uint64_t, std::string> cm = model;
            for (int j = 0; j < 5; j++) {
                uint64_t k2 = pool.tkeys[r.below(pool.tkeys.size())];
                if (r.chance(0.5)) {
                    c.set(k2, "x");
                    cm[k2] = "x";
                } else {
                    bool e = cm.erase(k2) > 0;
                    if (c.del(k2) != e) vf::violation("C20/stylemap/copy-del", wl, idx, "step %llu", (unsigned long long)step);
                }
            }
            if (!check_style(c, cm, wl, idx, step)) break;
            c.clear();
            if (!check_style(m, model, wl, idx, step)) break;
            st.add("stylemap_copy");
        } else {
            opcode = 5;
            if (r.chance(0.1)) {
                m.clear();
                model.clear();
                st.add("stylemap_clear");
            }
        }
        h = (h ^ (uint64_t)opcode ^ k) * 1099511628211ull;
        if (cap0 && m.capacity > cap0) {
            resized = true;
            st.add("stylemap_growth_steps");
        }
        bool full = nops <= 400 || step % 16 == 0 || step + 1 == nops || m.capacity != cap0;
        if (full && !check_style(m, model, wl, idx, step)) break;
    }
    m.clear();
    st.add("stylemap_histories");
    if (moved || resized) {
        st.add("nontrivial_histories");
        printf("{\"fp\":\"stylemap:%016llx\"}\n", (unsigned long long)h);
    }
}

// ------------------------------------------------------------------ property lists
struct PVal {
    int type;  // 0 unsigned, 1 integer, 2 real, 3 bytes
    uint64_t u;
    int64_t i;
    double d;
    std::string b;
    bool operator==(const PVal& o) const {
        if (type != o.type) return false;
        switch (type) {
            case 0: return u == o.u;
            case 1: return i == o.i;
            case 2: return memcmp(&d, &o.d, 8) == 0;
            default: return b == o.b;
        }
    }
};
struct PEnt {
    std::string name;
    std::vector<PVal> vals;
};
typedef std::vector<PEnt> PModel;  // front = list head

static bool model_is_gds(const PEnt& e) {
    return e.name == "S_GDS_PROPERTY" && e.vals.size() >= 2 && e.vals[0].type == 0 && e.vals[1].type == 3;
}

static bool check_props(Property* p, const PModel& model, const char* wl, uint64_t idx, uint64_t step) {
    size_t i = 0;
    for (; p; p = p->next, i++) {
        if (i >= model.size()) {
            vf::violation("C20/props/extra-entry", wl, idx, "step %llu: list longer than model (%zu)",
                          (unsigned long long)step, model.size());
            return false;
        }
        const PEnt& e = model[i];
        if (e.name != p->name) {
            vf::violation("C20/props/name", wl, idx, "step %llu: entry %zu name %s, model %s", (unsigned long long)step,
                          i, p->name, e.name.c_str());
            return false;
        }
        size_t j = 0;
        for (PropertyValue* v = p->value; v; v = v->next, j++) {
            if (j >= e.vals.size()) break;
            PVal got;
            got.type = (int)v->type;
            got.u = 0;
            got.i = 0;
            got.d = 0;
            switch (v->type) {
                case PropertyType::UnsignedInteger: got.u = v->unsigned_integer; break;
                case PropertyType::Integer: got.i = v->integer; break;
                case PropertyType::Real: got.d = v->real; break;
                case PropertyType::String: got.b.assign((const char*)v->bytes, v->count); break;
            }
            if (!(got == e.vals[j])) {
                vf::violation("C20/props/value", wl, idx, "step %llu: entry %zu (%s) value %zu differs",
                              (unsigned long long)step, i, p->name, j);
                return false;
            }
        }
        size_t n = 0;
        for (PropertyValue* v = p->value; v; v = v->next) n++;
        if (n != e.vals.size()) {
            vf::violation("C20/props/value-count", wl, idx, "step %llu: entry %zu (%s) has %zu values, model %zu",
                          (unsigned long long)step, i, p->name, n, e.vals.size());
            return false;
        }
    }
    if (i != model.size()) {
        vf::violation("C20/props/missing-entry", wl, idx, "step %llu: list has %zu entries, model %zu",
                      (unsigned long long)step, i, model.size());
        return false;
    }
    st.add("props_full_checks");
    return true;
}

static void props_history(Rng& r, uint64_t idx) {
    const char* wl = "props";
    vf::progress(wl, idx);
    static const char* names[] = {"a", "b", "name", "S_TOP_CELL", "x y", "", "a"};  // few names: repeats are the point
    size_t nnames = 2 + r.below(5);
    uint64_t nops = 5 + r.below(60);
    Property* props = NULL;
    PModel model;
    bool edge_removal = false;
    uint64_t h = 17;
    for (uint64_t step = 0; step < nops; step++) {
        const char* name = names[r.below(nnames)];
        double x = r.unit();
        int opcode = 0;
        if (x < 0.40) {
            opcode = 1;
            bool create_new = r.chance(0.5);
            PVal v;
            v.type = (int)r.below(4);
            v.u = 0;
            v.i = 0;
            v.d = 0;
            switch (v.type) {
                case 0:
                    v.u = r.next() >> r.below(64);
                    set_property(props, name, v.u, create_new);
                    break;
                case 1:
                    v.i = (int64_t)(r.next() >> r.below(64)) * (r.chance(0.5) ? -1 : 1);
                    set_property(props, name, v.i, create_new);
                    break;
                case 2:
                    v.d = (r.unit() - 0.5) * pow(10.0, (double)r.range(-5, 5));
                    set_property(props, name, v.d, create_new);
                    break;
                default: {
                    size_t len = r.below(12);
                    bool binary = r.chance(0.5);
                    for (size_t k = 0; k < len; k++) v.b += (char)(binary ? r.below(256) : 'a' + r.below(26));
                    if (binary)
                        set_property(props, name, (const uint8_t*)v.b.data(), v.b.size(), create_new);
                    else
                        set_property(props, name, v.b.c_str(), create_new);
                }
            }
            // model: without create_new the value is added in front of the first entry of that
            // name; otherwise (or when the name is absent) a new entry becomes the list head
            auto it = model.begin();
            if (!create_new)
                for (; it != model.end() && it->name != name; ++it) {
                }
            if (!create_new && it != model.end())
                it->vals.insert(it->vals.begin(), v);
            else
                model.insert(model.begin(), PEnt{name, {v}});
            st.add("props_set");
        } else if (x < 0.55) {
            opcode = 2;
            uint16_t attr = (uint16_t)r.below(4);
            std::string val;
            for (size_t k = r.below(6); k > 0; k--) val += (char)('A' + r.below(26));
            set_gds_property(props, attr, val.c_str());
            PVal sv;
            sv.type = 3;
            sv.u = 0;
            sv.i = 0;
            sv.d = 0;
            sv.b = val + std::string(1, '\0');  // stored with its terminating NUL
            bool found = false;
            for (auto& e : model)
                if (model_is_gds(e) && e.vals[0].u == attr) {
                    e.vals[1] = sv;
                    found = true;
                    break;
                }
            if (!found) {
                PVal av;
                av.type = 0;
                av.u = attr;
                av.i = 0;
                av.d = 0;
                model.insert(model.begin(), PEnt{"S_GDS_PROPERTY", {av, sv}});
            }
            st.add("props_set_gds");
        } else if (x < 0.75) {
            opcode = 3;
            bool all = r.chance(0.5);
            size_t matches = 0, first = model.size(), last = 0;
            for (size_t k = 0; k < model.size(); k++)
                if (model[k].name == name) {
                    if (first == model.size()) first = k;
                    last = k;
                    matches++;
                }
            uint64_t expect = 0;
            if (matches) {
                if (first == 0 || last + 1 == model.size() || matches == model.size()) {
                    edge_removal = true;
                    st.add("props_remove_first_last_or_only");
                }
                if (all && matches == model.size()) st.add("props_remove_all_empties_list");
                if (all) {
                    expect = matches;
                    PModel nm;
                    for (auto& e : model)
                        if (e.name != name) nm.push_back(e);
                    model.swap(nm);
                } else {
                    expect = 1;
                    model.erase(model.begin() + first);
                }
            }
            uint64_t got = remove_property(props, name, all);
            if (got != expect) {
                vf::violation("C20/props/remove-return", wl, idx, "step %llu: remove(%s,all=%d) returned %llu, model %llu",
                              (unsigned long long)step, name, all, (unsigned long long)got, (unsigned long long)expect);
                break;
            }
            st.add("props_remove");
        } else if (x < 0.83) {
            opcode = 4;
            uint16_t attr = (uint16_t)r.below(4);
            bool expect = false;
            for (size_t k = 0; k < model.size(); k++)
                if (model_is_gds(model[k]) && model[k].vals[0].u == attr) {
                    if (k == 0 || k + 1 == model.size()) edge_removal = true;
                    model.erase(model.begin() + k);
                    expect = true;
                    break;
                }
            bool got = remove_gds_property(props, attr);
            if (got != expect) {
                vf::violation("C20/props/remove-gds-return", wl, idx, "step %llu: remove_gds(%u) returned %d, model %d",
                              (unsigned long long)step, attr, got, expect);
                break;
            }
            st.add("props_remove_gds");
        } else if (x < 0.93) {
            opcode = 5;
            PropertyValue* v = get_property(props, name);
            const PEnt* e = NULL;
            for (auto& m : model)
                if (m.name == name) {
                    e = &m;
                    break;
                }
            if ((v != NULL) != (e != NULL)) {
                vf::violation("C20/props/get", wl, idx, "step %llu: get(%s) presence differs", (unsigned long long)step, name);
                break;
            }
            uint16_t attr = (uint16_t)r.below(4);
            PropertyValue* g = get_gds_property(props, attr);
            const PEnt* ge = NULL;
            for (auto& m : model)
                if (model_is_gds(m) && m.vals[0].u == attr) {
                    ge = &m;
                    break;
                }
            if ((g != NULL) != (ge != NULL) ||
                (g && (g->type != PropertyType::String || ge->vals[1].b != std::string((const char*)g->bytes, g->count)))) {
                vf::violation("C20/props/get-gds", wl, idx, "step %llu: get_gds(%u) differs", (unsigned long long)step, attr);
                break;
            }
            st.add("props_get");
        } else if (x < 0.98) {
            opcode = 6;
            Property* c = properties_copy(props);
            if (!check_props(c, model, wl, idx, step)) break;
            // mutate the copy, the source must not move
            set_property(c, "mut", (uint64_t)1, true);
            if (c) remove_property(c, "a", true);
            properties_clear(c);
            if (c != NULL) vf::violation("C20/props/clear", wl, idx, "step %llu: clear leaves pointer", (unsigned long long)step);
            st.add("props_copy");
        } else {
            opcode = 7;
            properties_clear(props);
            model.clear();
            st.add("props_clear");
        }
        h = (h ^ (uint64_t)opcode ^ fnv_str(name)) * 1099511628211ull;
        if (!check_props(props, model, wl, idx, step)) break;
    }
    properties_clear(props);
    st.add("props_histories");
    if (edge_removal) {
        st.add("nontrivial_histories");
        printf("{\"fp\":\"props:%016llx\"}\n", (unsigned long long)h);
    }
}

// ------------------------------------------------------------------ sorting
struct Rec {
    int64_t key;
    uint64_t id;
};
static uint64_t g_cmp_count;
static bool rec_before(const Rec& a, const Rec& b) {
    g_cmp_count++;
    return a.key < b.key;
}
static bool rec_after(const Rec& a, const Rec& b) {
    g_cmp_count++;
    return a.key > b.key;
}
static bool dbl_before(const double& a, const double& b) {
    g_cmp_count++;
    return a < b;
}

// McIlroy's "A Killer Adversary for Quicksort": keys are decided lazily so that the pivot is
// always among the smallest remaining; drives intro_sort into its heap-sort fallback.
static std::vector<int64_t> adv_val;
static int64_t adv_gas, adv_nsolid, adv_candidate;
static bool adv_before(const Rec& a, const Rec& b) {
    g_cmp_count++;
    int64_t x = (int64_t)a.id, y = (int64_t)b.id;
    if (adv_val[x] == adv_gas && adv_val[y] == adv_gas) {
        if (x == adv_candidate)
            adv_val[x] = adv_nsolid++;
        else
            adv_val[y] = adv_nsolid++;
    }
    if (adv_val[x] == adv_gas)
        adv_candidate = x;
    else if (adv_val[y] == adv_gas)
        adv_candidate = y;
    return adv_val[x] < adv_val[y];
}

template <class T, class Less>
static bool is_sorted_perm(const std::vector<T>& in, const T* out, size_t n, Less less, const char* what,
                           uint64_t idx) {
    for (size_t i = 1; i < n; i++)
        if (less(out[i], out[i - 1])) {
            vf::violation("C20/sort/inversion", what, idx, "n=%zu: inversion at %zu", n, i);
            return false;
        }
    return true;
}

static void fill_keys(Rng& r, std::vector<int64_t>& k, size_t n, int pattern) {
    k.resize(n);
    for (size_t i = 0; i < n; i++) {
        switch (pattern) {
            case 0: k[i] = (int64_t)i; break;                                  // sorted
            case 1: k[i] = (int64_t)(n - i); break;                            // reversed
            case 2: k[i] = 7; break;                                           // constant
            case 3: k[i] = (int64_t)(i < n / 2 ? i : n - i); break;            // organ pipe
            case 4: k[i] = (int64_t)r.below(4); break;                         // few distinct
            case 5: k[i] = (int64_t)(r.next() >> 1) * (r.chance(0.5) ? 1 : -1); break;
            case 6: k[i] = (int64_t)((i * 7919) % (n ? n : 1)); break;         // permutation stride
            default: k[i] = (int64_t)r.below(n + 1); break;
        }
    }
}

static void sort_case(Rng& r, uint64_t idx) {
    const char* wl = "sort";
    vf::progress(wl, idx);
    size_t n;
    double x = r.unit();
    if (x < 0.3)
        n = r.below(18);  // insertion-sort regime and the 0/1/2 special cases
    else if (x < 0.8)
        n = 17 + r.below(200);
    else
        n = 200 + r.below(args.thorough ? 5000 : 1500);
    int pattern = (int)r.below(8);
    std::vector<int64_t> keys;
    fill_keys(r, keys, n, pattern);
    std::vector<Rec> in(n);
    for (size_t i = 0; i < n; i++) in[i] = Rec{keys[i], i};
    int algo = (int)r.below(7);
    std::vector<Rec> a = in;
    bool descending = false;
    g_cmp_count = 0;
    const char* an = "";
    switch (algo) {
        case 0: an = "sort"; sort(a.data(), (int64_t)n, rec_before); break;
        case 1: an = "sort_desc"; descending = true; sort(a.data(), (int64_t)n, rec_after); break;
        case 2: an = "heap_sort"; heap_sort(a.data(), (int64_t)n, rec_before); break;
        case 3: an = "insertion_sort"; if (n > 600) { n = 600; a.resize(n); in.resize(n); } insertion_sort(a.data(), (int64_t)n, rec_before); break;
        case 4: an = "intro_sort_depth0"; intro_sort(a.data(), (int64_t)n, 0, rec_before); break;
        case 5: an = "intro_sort_depth2"; intro_sort(a.data(), (int64_t)n, 2, rec_before); break;
        default: {
            an = "sort_array";
            Array<Rec> arr = {};
            for (auto& e : a) arr.append(e);
            sort(arr, rec_before);
            for (size_t i = 0; i < n; i++) a[i] = arr[i];
            arr.clear();
        }
    }
    st.add((std::string("sort_calls_") + an).c_str());
    st.add("sort_comparisons", g_cmp_count);
    // ordered
    bool ok = true;
    for (size_t i = 1; i < n && ok; i++)
        if (descending ? a[i].key > a[i - 1].key : a[i].key < a[i - 1].key) {
            vf::violation("C20/sort/inversion", wl, idx, "%s n=%zu pattern %d: inversion at %zu", an, n, pattern, i);
            ok = false;
        }
    // permutation: every id exactly once and key unchanged
    std::vector<char> seen(n, 0);
    for (size_t i = 0; i < n && ok; i++) {
        if (a[i].id >= n || seen[a[i].id] || in[a[i].id].key != a[i].key) {
            vf::violation("C20/sort/not-a-permutation", wl, idx, "%s n=%zu pattern %d: element %zu duplicated/lost/changed",
                          an, n, pattern, i);
            ok = false;
        }
        if (a[i].id < n) seen[a[i].id] = 1;
    }
    // doubles through the default ordering
    if (r.chance(0.3)) {
        std::vector<double> d(n), e;
        for (size_t i = 0; i < n; i++) d[i] = (double)keys[i] * 0.5;
        e = d;
        sort(d.data(), (int64_t)n);
        std::sort(e.begin(), e.end());
        if (d != e) vf::violation("C20/sort/double-default", wl, idx, "n=%zu pattern %d: differs from std::sort", n, pattern);
        Array<double> arr = {};
        for (double v : e) arr.append(v);
        sort(arr, dbl_before);
        arr.clear();
        st.add("sort_calls_double");
    }
    if (n > 16) {
        st.add("nontrivial_sorts");
        printf("{\"fp\":\"sort:%s:%zu:%d:%llx\"}\n", an, n, pattern, (unsigned long long)(keys.empty() ? 0 : (uint64_t)keys[n / 3]));
    }
}

static void sort_adversary(uint64_t idx, size_t n) {
    const char* wl = "sort_adversary";
    vf::progress(wl, idx);
    adv_val.assign(n, (int64_t)n);  // gas = n
    adv_gas = (int64_t)n;
    adv_nsolid = 0;
    adv_candidate = 0;
    std::vector<Rec> a(n);
    for (size_t i = 0; i < n; i++) a[i] = Rec{0, i};
    g_cmp_count = 0;
    sort(a.data(), (int64_t)n, adv_before);
    uint64_t cmps = g_cmp_count;
    // after the run every value is fixed (remaining gas elements are equal); verify order under the frozen values
    bool ok = true;
    std::vector<char> seen(n, 0);
    for (size_t i = 0; i < n; i++) {
        if (a[i].id >= n || seen[a[i].id]) {
            vf::violation("C20/sort/not-a-permutation", wl, idx, "adversary n=%zu: element duplicated/lost", n);
            ok = false;
            break;
        }
        seen[a[i].id] = 1;
        if (i && adv_val[a[i].id] < adv_val[a[i - 1].id]) {
            vf::violation("C20/sort/inversion", wl, idx, "adversary n=%zu: inversion at %zu", n, i);
            ok = false;
            break;
        }
    }
    (void)ok;
    // a pure quicksort would need ~n^2/4 comparisons against this adversary; the depth limit must cap it
    double bound = 40.0 * (double)n * (log2((double)n) + 1);
    st.add("sort_adversary_runs");
    st.max("sort_adversary_max_comparisons_per_nlogn_x100", (uint64_t)(100.0 * (double)cmps / ((double)n * log2((double)n))));
    if ((double)cmps > bound)
        vf::violation("C20/sort/quadratic", wl, idx, "adversary n=%zu: %llu comparisons (> %.0f): heap-sort fallback not taken",
                      n, (unsigned long long)cmps, bound);
    if ((double)cmps > 3.0 * (double)n * log2((double)n)) st.add("sort_adversary_forced_fallback");
    printf("{\"fp\":\"sortadv:%zu\"}\n", n);
    st.add("nontrivial_sorts");
}

int main(int argc, char** argv) {
    args.parse(argc, argv);
    FILE* devnull = fopen("/dev/null", "w");
    set_error_logger(devnull);
    struct W {
        const char* name;
        void (*fn)(Rng&, uint64_t);
        uint64_t quick, thorough;
    } ws[] = {
        {"map", map_history, 1600, 30000},       {"set", set_history, 1200, 20000},
        {"tagmap", tagmap_history, 1200, 20000}, {"stylemap", style_history, 800, 12000},
        {"props", props_history, 20000, 400000}, {"sort", sort_case, 8000, 120000},
    };
    for (auto& w : ws) {
        if (!args.only.empty() && args.only != w.name) continue;
        uint64_t total = args.thorough ? w.thorough : w.quick;
        for (uint64_t i = args.batch; i < total; i += args.nbatches) {
            if (args.only_index != (uint64_t)-1 && i != args.only_index) continue;
            Rng r(args.seed * 1000003ull + fnv_str(w.name) % 1000 + i * 7919ull);
            w.fn(r, i);
        }
    }
    if (args.only.empty() || args.only == "sort_adversary") {
        uint64_t total = args.thorough ? 64 : 16;
        for (uint64_t i = args.batch; i < total; i += args.nbatches) {
            if (args.only_index != (uint64_t)-1 && i != args.only_index) continue;
            sort_adversary(i, 50 + i * (args.thorough ? 150 : 130));
        }
    }
    st.add("violations", vf::g_violations);
    st.print();
    return 0;
}
