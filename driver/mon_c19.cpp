// C19 online monitor: number encodings of the GDSII and OASIS formats.
// gdstk's encoders/decoders run on in-memory OasisStreams (both the memory-cursor mode and the
// FILE mode through fmemopen/open_memstream); the reference is oracle_oasnum.cpp, which includes
// no gdstk header.
#include <math.h>

#include <string>
#include <vector>

#include <gdstk/gdstk.hpp>

#include "online.hpp"
#include "oracle_oasnum.hpp"

using namespace gdstk;
using vf::Rng;
using vo::Bytes;

static vf::Stats st;
static vf::Args args;
static uint64_t g_distinct_nontrivial = 0;

static std::string hexs(const Bytes& b) {
    std::string s;
    char t[4];
    for (size_t i = 0; i < b.size() && i < 40; i++) {
        snprintf(t, sizeof t, "%02x", b[i]);
        s += t;
    }
    return s;
}

// ---------------------------------------------------------------- stream plumbing
struct Writer {
    OasisStream s;
    char* mbuf = NULL;
    size_t mlen = 0;
    bool file_mode;
    explicit Writer(bool file_mode_, Rng& r) : file_mode(file_mode_) {
        memset(&s, 0, sizeof s);
        if (file_mode) {
            s.file = open_memstream(&mbuf, &mlen);
        } else {
            s.data_size = 1 + r.below(6);  // tiny: exercises the growth path of oasis_write/oasis_putc
            s.data = (uint8_t*)allocate(s.data_size);
            s.cursor = s.data;
        }
    }
    Bytes bytes() {
        if (file_mode) {
            fflush(s.file);
            return Bytes((uint8_t*)mbuf, (uint8_t*)mbuf + mlen);
        }
        return Bytes(s.data, s.cursor);
    }
    ~Writer() {
        if (file_mode) {
            fclose(s.file);
            free(mbuf);
        } else if (s.data)
            free_allocation(s.data);
    }
};

struct Reader {
    OasisStream s;
    Bytes copy;
    bool file_mode;
    Reader(const Bytes& b, bool file_mode_) : copy(b), file_mode(file_mode_) {
        memset(&s, 0, sizeof s);
        copy.push_back(0x55);  // one spare byte so that decoders which stop correctly never hit EOF
        if (file_mode) {
            s.file = fmemopen(copy.data(), copy.size(), "rb");
        } else {
            s.data_size = copy.size();
            s.data = (uint8_t*)allocate(s.data_size);
            memcpy(s.data, copy.data(), copy.size());
            s.cursor = s.data;
        }
    }
    size_t consumed() {
        if (file_mode) return (size_t)ftell(s.file);
        return s.data ? (size_t)(s.cursor - s.data) : copy.size();
    }
    ~Reader() {
        if (file_mode)
            fclose(s.file);
        else if (s.data)
            free_allocation(s.data);
    }
};

#define FAIL(key, wl, idx, ...) vf::violation(key, wl, idx, __VA_ARGS__)

// ---------------------------------------------------------------- GDSII reals
static double ulp_of(double v) {
    v = fabs(v);
    double n = nextafter(v, INFINITY);
    return n - v;
}

static void gds_real_one(double v, const char* wl, uint64_t idx) {
    uint64_t r = gdsii_real_from_double(v);
    double back = gdsii_real_to_double(r);
    long double exact = vo::gds_real_value(r);
    double u = ulp_of(v);
    st.add("gdsreal_values");
    if (fabsl(exact - (long double)v) > (long double)u)
        FAIL("C19/gdsreal/encode", wl, idx, "%.17g encodes to %016llx which denotes %.20Lg (more than 1 ulp off)", v,
             (unsigned long long)r, exact);
    if (fabs(back - v) > u)
        FAIL("C19/gdsreal/roundtrip", wl, idx, "%.17g -> %016llx -> %.17g (more than 1 ulp)", v, (unsigned long long)r, back);
    if (fabsl((long double)back - exact) > (long double)ulp_of(back) * 0.5000001L)
        FAIL("C19/gdsreal/decode", wl, idx, "%016llx decodes to %.17g, exact value %.20Lg", (unsigned long long)r, back, exact);
    // an independently encoded real (full 56-bit mantissa) must decode to the nearest double
    uint64_t r2 = vo::gds_real_encode((long double)v);
    double d2 = gdsii_real_to_double(r2);
    long double e2 = vo::gds_real_value(r2);
    if (fabsl((long double)d2 - e2) > (long double)ulp_of(d2) * 0.5000001L)
        FAIL("C19/gdsreal/decode", wl, idx, "independent encoding %016llx decodes to %.17g, exact %.20Lg", (unsigned long long)r2, d2, e2);
}

static void gdsreal_case(Rng& r, uint64_t idx) {
    const char* wl = "gdsreal";
    vf::progress(wl, idx);
    if (idx < 128) {  // systematic: 16^k and both neighbours, k = -64 .. 63 ; also 2^j steps in between
        int k = (int)idx - 64;
        double p = ldexp(1.0, 4 * k);
        double vals[] = {p, nextafter(p, 0), nextafter(p, INFINITY), -p, nextafter(-p, 0), nextafter(-p, -INFINITY),
                         2 * p, 4 * p, 8 * p, nextafter(8 * p, 0), 15.999999999999998 * p, p * 1.0000000000000004};
        for (double v : vals)
            if (fabs(v) >= ldexp(1.0, -256) && fabs(v) < ldexp(1.0, 252)) {
                gds_real_one(v, wl, idx);
                g_distinct_nontrivial++;
            }
        if (idx == 0) gds_real_one(0.0, wl, idx);
        return;
    }
    for (int j = 0; j < 64; j++) {
        int e = (int)r.range(-255, 250);
        double m = 1.0 + r.unit();
        if (r.chance(0.2)) m = 1.0 + ldexp((double)r.below(16), -52);  // just above a power of two
        if (r.chance(0.1)) m = 2.0 - ldexp((double)(1 + r.below(16)), -52);
        double v = ldexp(m, e) * (r.chance(0.5) ? -1 : 1);
        gds_real_one(v, wl, idx);
    }
    // typical layout values
    static const double typ[] = {1e-9, 1e-6, 1e-3, 1e-10, 5e-10, 2.5e-7, 0.001, 1.0, 0.5, 90.0, 45.0, 180.0, 270.0, 1e-12, 25.4e-6};
    gds_real_one(typ[idx % (sizeof typ / sizeof typ[0])], wl, idx);
}

// ---------------------------------------------------------------- OASIS integers
static void uint_one(Rng& r, uint64_t v, const char* wl, uint64_t idx, bool boundary) {
    for (int mode = 0; mode < 2; mode++) {
        Writer w(mode == 1, r);
        oasis_write_unsigned_integer(w.s, v);
        Bytes b = w.bytes();
        vo::Cur c{b.data(), b.data() + b.size()};
        uint64_t dv = vo::dec_uint(c);
        if (c.fail || c.overflow || dv != v || c.p != c.end)
            FAIL("C19/uint/encode", wl, idx, "%llu encoded as %s (independent decoder reads %llu, %zu bytes left)",
                 (unsigned long long)v, hexs(b).c_str(), (unsigned long long)dv, (size_t)(c.end - c.p));
        Reader rd(b, mode == 1);
        uint64_t gv = oasis_read_unsigned_integer(rd.s);
        if (gv != v || rd.s.error_code != ErrorCode::NoError || rd.consumed() != b.size())
            FAIL("C19/uint/roundtrip", wl, idx, "%llu -> %s -> %llu (err %d, consumed %zu)", (unsigned long long)v, hexs(b).c_str(),
                 (unsigned long long)gv, (int)rd.s.error_code, rd.consumed());
    }
    // alternative legal encodings: every non-minimal length up to the 10-byte window
    Bytes minimal;
    vo::enc_uint(minimal, v);
    for (int len = (int)minimal.size(); len <= 10; len++) {
        Bytes b;
        vo::enc_uint(b, v, len);
        bool fm = (len + idx) & 1;
        Reader rd(b, fm);
        uint64_t gv = oasis_read_unsigned_integer(rd.s);
        if (gv != v || rd.s.error_code != ErrorCode::NoError || rd.consumed() != b.size())
            FAIL("C19/uint/decode-alt", wl, idx, "%s (value %llu, %d bytes) read as %llu err %d consumed %zu", hexs(b).c_str(),
                 (unsigned long long)v, len, (unsigned long long)gv, (int)rd.s.error_code, rd.consumed());
        st.add("uint_alt_encodings");
    }
    st.add("uint_values");
    if (boundary) g_distinct_nontrivial++;
}

static void uint_overflow(vo::u128 v, const char* wl, uint64_t idx) {
    Bytes b;
    // independent encoder for wide values
    vo::u128 t = v;
    do {
        uint8_t g = (uint8_t)(t & 0x7f);
        t >>= 7;
        b.push_back(g | (t ? 0x80 : 0));
    } while (t);
    for (int mode = 0; mode < 2; mode++) {
        Reader rd(b, mode == 1);
        uint64_t gv = oasis_read_unsigned_integer(rd.s);
        if (rd.s.error_code != ErrorCode::Overflow)
            FAIL("C19/uint/overflow-not-flagged", wl, idx, "%s (>= 2^64) read as %llu with error code %d", hexs(b).c_str(),
                 (unsigned long long)gv, (int)rd.s.error_code);
    }
    st.add("uint_overflow_encodings");
    g_distinct_nontrivial++;
}

static void sint_one(Rng& r, int64_t v, const char* wl, uint64_t idx, bool boundary) {
    for (int mode = 0; mode < 2; mode++) {
        Writer w(mode == 1, r);
        oasis_write_integer(w.s, v);
        Bytes b = w.bytes();
        vo::Cur c{b.data(), b.data() + b.size()};
        int64_t dv = vo::dec_sint(c);
        if (c.fail || c.overflow || dv != v || c.p != c.end)
            FAIL("C19/sint/encode", wl, idx, "%lld encoded as %s (independent decoder reads %lld)", (long long)v, hexs(b).c_str(),
                 (long long)dv);
        Reader rd(b, mode == 1);
        int64_t gv = oasis_read_integer(rd.s);
        if (gv != v || rd.s.error_code != ErrorCode::NoError || rd.consumed() != b.size())
            FAIL("C19/sint/roundtrip", wl, idx, "%lld -> %s -> %lld (err %d)", (long long)v, hexs(b).c_str(), (long long)gv,
                 (int)rd.s.error_code);
    }
    Bytes minimal;
    vo::enc_sint(minimal, v);
    for (int len = (int)minimal.size(); len <= 10; len++) {
        Bytes b;
        vo::enc_sint(b, v, len);
        Reader rd(b, (len + idx) & 1);
        int64_t gv = oasis_read_integer(rd.s);
        if (gv != v || rd.s.error_code != ErrorCode::NoError || rd.consumed() != b.size())
            FAIL("C19/sint/decode-alt", wl, idx, "%s (value %lld, %d bytes) read as %lld err %d", hexs(b).c_str(), (long long)v, len,
                 (long long)gv, (int)rd.s.error_code);
        st.add("sint_alt_encodings");
    }
    if (v == 0) {  // "negative zero" is a legal encoding of 0
        Bytes b = {0x01};
        Reader rd(b, false);
        if (oasis_read_integer(rd.s) != 0) FAIL("C19/sint/decode-alt", wl, idx, "negative zero not read as 0");
    }
    st.add("sint_values");
    if (boundary) g_distinct_nontrivial++;
}

static void sint_overflow(int shift, bool neg, const char* wl, uint64_t idx) {
    // magnitude 2^shift with shift >= 63
    Bytes b;
    vo::u128 t = ((vo::u128)1 << (shift + 1)) | (neg ? 1 : 0);
    do {
        uint8_t g = (uint8_t)(t & 0x7f);
        t >>= 7;
        b.push_back(g | (t ? 0x80 : 0));
    } while (t);
    Reader rd(b, shift & 1);
    int64_t gv = oasis_read_integer(rd.s);
    if (rd.s.error_code != ErrorCode::Overflow)
        FAIL("C19/sint/overflow-not-flagged", wl, idx, "%s (magnitude 2^%d) read as %lld with error code %d", hexs(b).c_str(), shift,
             (long long)gv, (int)rd.s.error_code);
    st.add("sint_overflow_encodings");
    g_distinct_nontrivial++;
}

static void boundary_values(std::vector<uint64_t>& out) {
    out.push_back(0);
    for (int k = 1; k < 64; k++) {
        uint64_t p = 1ull << k;
        out.push_back(p - 1);
        out.push_back(p);
        out.push_back(p + 1);
    }
    out.push_back(~0ull);
    out.push_back(~0ull - 1);
}

static void uint_case(Rng& r, uint64_t idx) {
    const char* wl = "uint";
    vf::progress(wl, idx);
    if (idx == 0) {
        std::vector<uint64_t> bv;
        boundary_values(bv);
        for (uint64_t v : bv) uint_one(r, v, wl, idx, true);
        for (int s = 64; s < 70; s++) {
            uint_overflow((vo::u128)1 << s, wl, idx);
            uint_overflow(((vo::u128)1 << s) + 1, wl, idx);
            uint_overflow(((vo::u128)1 << (s + 1)) - 1, wl, idx);
        }
        for (int s = 70; s < 100; s += 7) uint_overflow((vo::u128)3 << s, wl, idx);
        return;
    }
    for (int j = 0; j < 200; j++) uint_one(r, r.next() >> r.below(64), wl, idx, false);
}

static void sint_case(Rng& r, uint64_t idx) {
    const char* wl = "sint";
    vf::progress(wl, idx);
    if (idx == 0) {
        std::vector<uint64_t> bv;
        boundary_values(bv);
        for (uint64_t v : bv)
            if (v < (1ull << 63)) {
                sint_one(r, (int64_t)v, wl, idx, true);
                sint_one(r, -(int64_t)v, wl, idx, true);
            }
        for (int s = 63; s < 69; s++) {
            sint_overflow(s, false, wl, idx);
            sint_overflow(s, true, wl, idx);
        }
        return;
    }
    for (int j = 0; j < 200; j++) {
        int64_t v = (int64_t)(r.next() >> (1 + r.below(63)));
        sint_one(r, r.chance(0.5) ? v : -v, wl, idx, false);
    }
}

// ---------------------------------------------------------------- deltas
static void delta_one(Rng& r, int kind, int64_t x, int64_t y, const char* wl, uint64_t idx) {
    // kind 2: 2-delta, 3: 3-delta, 4: g-delta
    for (int mode = 0; mode < 2; mode++) {
        Writer w(mode == 1, r);
        if (kind == 2)
            oasis_write_2delta(w.s, x, y);
        else if (kind == 3)
            oasis_write_3delta(w.s, x, y);
        else
            oasis_write_gdelta(w.s, x, y);
        Bytes b = w.bytes();
        vo::Cur c{b.data(), b.data() + b.size()};
        int64_t dx = 0, dy = 0;
        if (kind == 2)
            vo::dec_2delta(c, dx, dy);
        else if (kind == 3)
            vo::dec_3delta(c, dx, dy);
        else
            vo::dec_gdelta(c, dx, dy);
        if (c.fail || c.overflow || dx != x || dy != y || c.p != c.end)
            FAIL(kind == 2 ? "C19/2delta/encode" : kind == 3 ? "C19/3delta/encode" : "C19/gdelta/encode", wl, idx,
                 "(%lld,%lld) encoded as %s, independent decoder reads (%lld,%lld)", (long long)x, (long long)y, hexs(b).c_str(),
                 (long long)dx, (long long)dy);
        Reader rd(b, mode == 1);
        int64_t gx = 7, gy = 7;
        if (kind == 2)
            oasis_read_2delta(rd.s, gx, gy);
        else if (kind == 3)
            oasis_read_3delta(rd.s, gx, gy);
        else
            oasis_read_gdelta(rd.s, gx, gy);
        if (gx != x || gy != y || rd.s.error_code != ErrorCode::NoError || rd.consumed() != b.size())
            FAIL(kind == 2 ? "C19/2delta/roundtrip" : kind == 3 ? "C19/3delta/roundtrip" : "C19/gdelta/roundtrip", wl, idx,
                 "(%lld,%lld) -> %s -> (%lld,%lld) err %d", (long long)x, (long long)y, hexs(b).c_str(), (long long)gx, (long long)gy,
                 (int)rd.s.error_code);
    }
    // alternative encodings: padded lengths; for g-delta also the general form of an octangular vector
    for (int alt = 0; alt < 3; alt++) {
        Bytes b;
        int pad = alt == 0 ? 0 : (alt == 1 ? 10 : 6);
        if (kind == 2)
            vo::enc_2delta(b, x, y, pad);
        else if (kind == 3)
            vo::enc_3delta(b, x, y, pad);
        else
            vo::enc_gdelta(b, x, y, alt == 2, alt == 1 ? 10 : 0);
        Reader rd(b, (alt + idx) & 1);
        int64_t gx = 7, gy = 7;
        if (kind == 2)
            oasis_read_2delta(rd.s, gx, gy);
        else if (kind == 3)
            oasis_read_3delta(rd.s, gx, gy);
        else
            oasis_read_gdelta(rd.s, gx, gy);
        if (gx != x || gy != y || rd.s.error_code != ErrorCode::NoError || rd.consumed() != b.size())
            FAIL(kind == 2 ? "C19/2delta/decode-alt" : kind == 3 ? "C19/3delta/decode-alt" : "C19/gdelta/decode-alt", wl, idx,
                 "%s denotes (%lld,%lld), read as (%lld,%lld) err %d consumed %zu", hexs(b).c_str(), (long long)x, (long long)y,
                 (long long)gx, (long long)gy, (int)rd.s.error_code, rd.consumed());
        st.add("delta_alt_encodings");
    }
    st.add("delta_values");
}

static void delta_case(Rng& r, uint64_t idx) {
    const char* wl = "delta";
    vf::progress(wl, idx);
    static const int dx8[8] = {1, 0, -1, 0, 1, -1, -1, 1};
    static const int dy8[8] = {0, 1, 0, -1, 1, 1, -1, -1};
    if (idx == 0) {
        std::vector<uint64_t> bv;
        boundary_values(bv);
        for (uint64_t v : bv) {
            if (v >= (1ull << 63)) continue;
            int64_t m = (int64_t)v;
            for (int d = 0; d < 8; d++) {
                if (d < 4) delta_one(r, 2, dx8[d] * m, dy8[d] * m, wl, idx);
                delta_one(r, 3, dx8[d] * m, dy8[d] * m, wl, idx);
                delta_one(r, 4, dx8[d] * m, dy8[d] * m, wl, idx);
                g_distinct_nontrivial += 3;
            }
            // general g-deltas with boundary magnitudes in x and in y
            delta_one(r, 4, m, 3, wl, idx);
            delta_one(r, 4, -m, -3, wl, idx);
            delta_one(r, 4, 5, m, wl, idx);
            delta_one(r, 4, -5, -m, wl, idx);
            g_distinct_nontrivial += 4;
        }
        return;
    }
    for (int j = 0; j < 100; j++) {
        int64_t m = (int64_t)(r.next() >> (1 + r.below(63)));
        int d = (int)r.below(8);
        if (d < 4) delta_one(r, 2, dx8[d] * m, dy8[d] * m, wl, idx);
        delta_one(r, 3, dx8[d] * m, dy8[d] * m, wl, idx);
        delta_one(r, 4, dx8[d] * m, dy8[d] * m, wl, idx);
        int64_t y = (int64_t)(r.next() >> (1 + r.below(63)));
        delta_one(r, 4, r.chance(0.5) ? m : -m, r.chance(0.5) ? y : -y, wl, idx);
    }
}

// ---------------------------------------------------------------- reals
static bool same_bits(double a, double b) { return memcmp(&a, &b, 8) == 0 || (a == 0 && b == 0); }

static void real_write_one(Rng& r, double v, const char* wl, uint64_t idx, bool boundary) {
    for (int mode = 0; mode < 2; mode++) {
        Writer w(mode == 1, r);
        oasis_write_real(w.s, v);
        Bytes b = w.bytes();
        vo::Cur c{b.data(), b.data() + b.size()};
        vo::Real d = vo::dec_real(c);
        bool exact_ok;
        if (d.type == 2 || d.type == 3 || d.type == 4 || d.type == 5) {
            // a ratio form is lossless only if the correctly rounded quotient is v itself.  When both
            // integers are exactly representable as doubles, IEEE double division *is* the correctly
            // rounded quotient of the two integers (no double rounding through long double).
            double n = (double)d.num, m = (double)d.den;
            bool representable = (long double)n == d.num && (long double)m == d.den;
            exact_ok = representable && n / m == v;
        } else {
            exact_ok = d.as_double() == v;
        }
        if (c.fail || c.overflow || !exact_ok || c.p != c.end)
            FAIL("C19/real/encode-lossy", wl, idx, "%.17g encoded as %s (type %d) which denotes %.20Lg", v, hexs(b).c_str(), d.type,
                 d.num / d.den);
        Reader rd(b, mode == 1);
        double g = oasis_read_real(rd.s);
        if (!same_bits(g, v) || rd.s.error_code != ErrorCode::NoError || rd.consumed() != b.size())
            FAIL("C19/real/roundtrip", wl, idx, "%.17g -> %s -> %.17g (err %d)", v, hexs(b).c_str(), g, (int)rd.s.error_code);
        st.add(d.type == 7 ? "real_written_as_double" : d.type <= 1 ? "real_written_as_integer" : "real_written_as_reciprocal");
    }
    st.add("real_values");
    if (boundary) g_distinct_nontrivial++;
}

static void real_read_alt(Rng& r, uint64_t idx, const char* wl) {
    // every real type, read through oasis_read_real and oasis_read_real_by_type
    uint64_t a = r.next() >> (11 + r.below(53)), bq = 1 + (r.next() >> (11 + r.below(53)));
    bool neg = r.chance(0.5);
    struct Alt {
        Bytes b;
        double expect;
    } alts[6];
    vo::enc_real_int(alts[0].b, a, neg);
    alts[0].expect = neg ? -(double)a : (double)a;
    vo::enc_real_recip(alts[1].b, bq, neg);
    alts[1].expect = (neg ? -1.0 : 1.0) / (double)bq;
    vo::enc_real_ratio(alts[2].b, a, bq, neg);
    alts[2].expect = (neg ? -1.0 : 1.0) * ((double)a / (double)bq);  // a, b < 2^53: IEEE division is the correctly rounded quotient
    float f = (float)((r.unit() - 0.5) * pow(10.0, (double)r.range(-20, 20)));
    vo::enc_real_float(alts[3].b, f);
    alts[3].expect = (double)f;
    double d = (r.unit() - 0.5) * pow(10.0, (double)r.range(-200, 200));
    vo::enc_real_double(alts[4].b, d);
    alts[4].expect = d;
    vo::enc_real_ratio(alts[5].b, 0, bq, neg);
    alts[5].expect = 0;
    for (int i = 0; i < 6; i++) {
        Reader rd(alts[i].b, (i + idx) & 1);
        double g = oasis_read_real(rd.s);
        if (!(g == alts[i].expect) || rd.s.error_code != ErrorCode::NoError || rd.consumed() != alts[i].b.size())
            FAIL("C19/real/decode-alt", wl, idx, "%s denotes %.17g, read as %.17g err %d", hexs(alts[i].b).c_str(), alts[i].expect, g,
                 (int)rd.s.error_code);
        Bytes tail(alts[i].b.begin() + 1, alts[i].b.end());
        Reader rd2(tail, (i + idx + 1) & 1);
        double g2 = oasis_read_real_by_type(rd2.s, (OasisDataType)alts[i].b[0]);
        if (!(g2 == alts[i].expect))
            FAIL("C19/real/decode-alt", wl, idx, "by_type: %s denotes %.17g, read as %.17g", hexs(alts[i].b).c_str(), alts[i].expect, g2);
        st.add("real_alt_encodings");
    }
}

static void real_case(Rng& r, uint64_t idx) {
    const char* wl = "real";
    vf::progress(wl, idx);
    if (idx < 64) {
        // reciprocals 1/n and their neighbours for n = 2^k +- 1, 2^k, 3, 5, 10^j, 3*2^k
        int k = (int)idx;
        uint64_t ns[] = {(1ull << k) - 1, 1ull << k, (1ull << k) + 1, 3, 5, 7, 10, 100, 1000, 3ull << (k % 62), 10ull * (k + 1), 6, 9, 11};
        for (uint64_t n : ns) {
            if (n == 0) continue;
            double v = 1.0 / (double)n;
            double vals[] = {v, nextafter(v, 0), nextafter(v, 1), -v, nextafter(-v, 0), nextafter(-v, -1),
                             nextafter(nextafter(v, 0), 0), nextafter(nextafter(v, 1), 1)};
            for (double x : vals) real_write_one(r, x, wl, idx, true);
            real_write_one(r, (double)n, wl, idx, true);
            real_write_one(r, -(double)n, wl, idx, true);
            real_write_one(r, (double)n + 0.5, wl, idx, true);
        }
        double big[] = {18446744073709551616.0, 18446744073709549568.0, 9223372036854775808.0, 1e19, 1e20, 1e300, -1e19,
                        -18446744073709549568.0, 5e-324, 2.2250738585072014e-308, 1.7976931348623157e308, 0.0, 0.1, 0.2, 0.3, 1e-3, 1e-6, 1e-9};
        for (double x : big) real_write_one(r, x, wl, idx, true);
        return;
    }
    for (int j = 0; j < 100; j++) {
        double v;
        switch (r.below(5)) {
            case 0: v = (double)r.range(-1000000, 1000000); break;
            case 1: v = 1.0 / (double)(1 + r.below(1000000)); break;
            case 2: {
                double q = 1.0 / (double)(1 + r.below(1ull << r.below(53)));
                v = r.chance(0.5) ? nextafter(q, 0) : nextafter(q, 1);
            } break;
            case 3: v = (r.unit() - 0.5) * pow(10.0, (double)r.range(-300, 300)); break;
            default: v = (double)r.range(-100000, 100000) * 1e-3; break;
        }
        real_write_one(r, v, wl, idx, false);
    }
    for (int j = 0; j < 20; j++) real_read_alt(r, idx, wl);
}

// ---------------------------------------------------------------- point lists
static void gen_pts(Rng& r, vo::Pts& pts, int cls, bool closed) {
    // cls 0: alternating Manhattan starting horizontal, 1: starting vertical, 2: Manhattan (any), 3: octangular, 4: general
    pts.clear();
    int64_t x = r.range(-1000, 1000), y = r.range(-1000, 1000);
    pts.push_back({x, y});
    auto step = [&](int64_t lim) { return (r.chance(0.5) ? 1 : -1) * (int64_t)(1 + r.below((uint64_t)lim)); };
    int64_t lim = r.chance(0.1) ? (int64_t)1 << (10 + r.below(30)) : 60;
    if (cls <= 1) {
        size_t n = closed ? 2 * (2 + r.below(8)) : 1 + r.below(16);  // vertex count (closed: even)
        bool horiz = cls == 0;
        for (size_t i = 1; i < n; i++) {
            if (closed && i == n - 1) {
                // last vertex must make the closing edge perpendicular: (x0, y) or (x, y0)
                if (horiz) x = pts[0].first; else y = pts[0].second;
            } else {
                if (horiz) x += step(lim); else y += step(lim);
            }
            horiz = !horiz;
            pts.push_back({x, y});
        }
        return;
    }
    size_t n = 2 + r.below(r.chance(0.1) ? 300 : 24);
    for (size_t i = 1; i < n; i++) {
        int64_t dx = 0, dy = 0;
        int kind = (int)r.below(cls == 2 ? 2 : cls == 3 ? 4 : 6);
        int64_t m = step(lim);
        switch (kind) {
            case 0: dx = m; break;
            case 1: dy = m; break;
            case 2: dx = m; dy = m; break;
            case 3: dx = m; dy = -m; break;
            default: dx = m; dy = step(lim); break;
        }
        if (r.chance(0.05)) dx = dy = 0;  // repeated vertex
        x += dx;
        y += dy;
        pts.push_back({x, y});
    }
}

static void plist_case(Rng& r, uint64_t idx) {
    const char* wl = "plist";
    vf::progress(wl, idx);
    for (int j = 0; j < 20; j++) {
        int cls = (int)r.below(5);
        bool closed = r.chance(0.6);
        vo::Pts pts;
        gen_pts(r, pts, cls, closed);
        if (closed && pts.size() < 3) continue;
        // (1) gdstk encodes -> independent decoder and gdstk decoder both give the list back
        for (int mode = 0; mode < 2; mode++) {
            Array<IntVec2> ip = {};
            for (auto& p : pts) ip.append(IntVec2{p.first, p.second});
            Writer w(mode == 1, r);
            oasis_write_point_list(w.s, ip, closed);
            ip.clear();
            Bytes b = w.bytes();
            vo::Cur c{b.data(), b.data() + b.size()};
            vo::Pts out;
            out.push_back(pts[0]);
            bool ok = vo::dec_pointlist(c, closed, out);
            if (!ok || c.overflow || out != pts || c.p != c.end)
                FAIL("C19/plist/encode", wl, idx, "class %d closed %d, %zu points: bytes %s decode (independently) to %zu points%s", cls, closed,
                     pts.size(), hexs(b).c_str(), out.size(), out == pts ? "" : " that differ");
            st.add((std::string("plist_written_type_") + (b.empty() ? "none" : std::to_string((int)b[0]))).c_str());
            Reader rd(b, mode == 1);
            Array<Vec2> res = {};
            res.append(Vec2{(double)pts[0].first, (double)pts[0].second});
            oasis_read_point_list(rd.s, 1.0, closed, res);
            bool same = res.count == pts.size();
            for (size_t i = 0; same && i < pts.size(); i++)
                same = res[i].x == (double)pts[i].first && res[i].y == (double)pts[i].second;
            if (!same || rd.s.error_code != ErrorCode::NoError || rd.consumed() != b.size())
                FAIL("C19/plist/roundtrip", wl, idx, "class %d closed %d, %zu points: gdstk re-reads %llu points (err %d) from %s", cls, closed,
                     pts.size(), (unsigned long long)res.count, (int)rd.s.error_code, hexs(b).c_str());
            res.clear();
        }
        // (2) every alternative list type that can hold these points, from the independent encoder
        int ntypes = 0;
        for (int type = 0; type <= 5; type++) {
            if (!vo::can_encode_pointlist(pts, closed, type)) continue;
            ntypes++;
            Bytes b;
            vo::enc_pointlist(b, pts, closed, type);
            Reader rd(b, (type + idx) & 1);
            Array<Vec2> res = {};
            res.append(Vec2{(double)pts[0].first, (double)pts[0].second});
            uint64_t nret = oasis_read_point_list(rd.s, 1.0, closed, res);
            bool same = res.count == pts.size();
            for (size_t i = 0; same && i < pts.size(); i++)
                same = res[i].x == (double)pts[i].first && res[i].y == (double)pts[i].second;
            if (!same || rd.s.error_code != ErrorCode::NoError || rd.consumed() != b.size() || nret + 1 != res.count)
                FAIL("C19/plist/decode-alt", wl, idx, "list type %d closed %d of %zu points: gdstk reads %llu points (returned %llu, err %d)",
                     type, closed, pts.size(), (unsigned long long)res.count, (unsigned long long)nret, (int)rd.s.error_code);
            res.clear();
            st.add((std::string("plist_alt_type_") + std::to_string(type)).c_str());
        }
        st.add("plist_lists");
        if (ntypes >= 3 || cls <= 1) g_distinct_nontrivial++;
        if (idx == 0 && j == 0) vf::sample(wl, idx, "point list class %d closed %d with %zu points, %d alternative types", cls, closed, pts.size(), ntypes);
    }
}

int main(int argc, char** argv) {
    args.parse(argc, argv);
    FILE* devnull = fopen("/dev/null", "w");
    set_error_logger(devnull);
    struct W {
        const char* name;
        void (*fn)(Rng&, uint64_t);
        uint64_t quick, thorough;
    } ws[] = {{"gdsreal", gdsreal_case, 3000, 80000}, {"uint", uint_case, 400, 8000},  {"sint", sint_case, 400, 8000},
              {"delta", delta_case, 300, 6000},       {"real", real_case, 1500, 40000}, {"plist", plist_case, 2500, 60000}};
    for (auto& w : ws) {
        if (!args.only.empty() && args.only != w.name) continue;
        uint64_t total = args.thorough ? w.thorough : w.quick;
        for (uint64_t i = args.batch; i < total; i += args.nbatches) {
            if (args.only_index != (uint64_t)-1 && i != args.only_index) continue;
            Rng r(args.seed * 1000003ull + (uint64_t)w.name[0] * 131 + (uint64_t)w.name[1] + i * 7919ull);
            w.fn(r, i);
        }
    }
    printf("{\"distinct_nontrivial\":%llu}\n", (unsigned long long)g_distinct_nontrivial);
    st.add("violations", vf::g_violations);
    st.print();
    return 0;
}
