// Independent OASIS / GDSII number codecs (written from the format descriptions in DESIGN.md
// appendices A and B).  No gdstk header is included by the implementation.
#ifndef VERIF_ORACLE_OASNUM_HPP
#define VERIF_ORACLE_OASNUM_HPP
#include <stdint.h>

#include <utility>
#include <vector>
namespace vo {
typedef std::vector<uint8_t> Bytes;
typedef unsigned __int128 u128;
struct Cur {
    const uint8_t* p;
    const uint8_t* end;
    bool fail = false;      // ran off the end
    bool overflow = false;  // value does not fit 64 bits
    int get() {
        if (p >= end) {
            fail = true;
            return 0;
        }
        return *p++;
    }
};
// ---- integers
void enc_uint(Bytes& o, uint64_t v, int pad_to = 0);           // pad_to: total length (non-minimal), 0 = minimal
u128 dec_uint_wide(Cur& c);                                    // arbitrary length up to 18 groups
uint64_t dec_uint(Cur& c);                                     // sets overflow if >= 2^64
void enc_sint(Bytes& o, int64_t v, int pad_to = 0);            // sign in bit 0
int64_t dec_sint(Cur& c);
// ---- deltas
void enc_2delta(Bytes& o, int64_t x, int64_t y, int pad_to = 0);
void enc_3delta(Bytes& o, int64_t x, int64_t y, int pad_to = 0);
void enc_gdelta(Bytes& o, int64_t x, int64_t y, bool force_general = false, int pad_to = 0);
void dec_2delta(Cur& c, int64_t& x, int64_t& y);
void dec_3delta(Cur& c, int64_t& x, int64_t& y);
void dec_gdelta(Cur& c, int64_t& x, int64_t& y);
// ---- reals.  decoded as an exact pair (numerator as long double, denominator as long double) or a double
struct Real {
    int type;
    long double num, den;  // value = num/den (den = 1 for non-ratio types)
    double as_double() const { return (double)(num / den); }
};
Real dec_real(Cur& c);
void enc_real_double(Bytes& o, double v);                      // type 7
void enc_real_float(Bytes& o, float v);                        // type 6
void enc_real_int(Bytes& o, uint64_t n, bool neg);             // type 0/1
void enc_real_recip(Bytes& o, uint64_t n, bool neg);           // type 2/3
void enc_real_ratio(Bytes& o, uint64_t a, uint64_t b, bool neg);  // type 4/5
// ---- point lists: pts[0] is the reference point and is not stored
typedef std::vector<std::pair<int64_t, int64_t>> Pts;
// which list types (0..5) can represent pts (closed => implicit closing edge rules for types 0/1)
bool can_encode_pointlist(const Pts& pts, bool closed, int type);
void enc_pointlist(Bytes& o, const Pts& pts, bool closed, int type);
// returns false on malformed input; out starts with the reference point already in it
bool dec_pointlist(Cur& c, bool closed, Pts& out);
// ---- GDSII 8-byte real
long double gds_real_value(uint64_t r);                        // exact
uint64_t gds_real_encode(long double v);                       // normalized, truncated mantissa
}  // namespace vo
#endif
