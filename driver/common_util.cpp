// Fork-per-case runner shared by all drivers (no gdstk headers here).
#include <dirent.h>

#include <fstream>

#include "common.hpp"

namespace vf {

int g_out_fd = 1;
std::string g_case;

int count_open_fds() {
    DIR* d = opendir("/proc/self/fd");
    if (!d) return -1;
    int n = 0;
    while (struct dirent* e = readdir(d)) {
        if (e->d_name[0] == '.') continue;
        n++;
    }
    closedir(d);
    return n - 1;  // minus the descriptor opendir itself holds
}

static std::string read_head(const char* path, size_t limit) {
    std::string r;
    FILE* f = fopen(path, "rb");
    if (!f) return r;
    char buf[4096];
    while (r.size() < limit) {
        size_t n = fread(buf, 1, sizeof buf, f);
        if (!n) break;
        r.append(buf, n);
    }
    fclose(f);
    if (r.size() > limit) r.resize(limit);
    return r;
}

int run_script(const char* script_path, const char* out_path, const char* work_dir, CaseFn fn,
               bool nofork) {
    std::ifstream in(script_path);
    if (!in) {
        fprintf(stderr, "verif-driver: cannot open script %s\n", script_path);
        return 2;
    }
    g_out_fd = open(out_path, O_WRONLY | O_CREAT | O_APPEND, 0644);
    if (g_out_fd < 0) {
        fprintf(stderr, "verif-driver: cannot open output %s\n", out_path);
        return 2;
    }
    char errpath[4096];
    snprintf(errpath, sizeof errpath, "%s/stderr.%d", work_dir, (int)getpid());
    std::string line;
    std::vector<std::string> lines;
    bool in_case = false;
    unsigned timeout_s = 20;
    long ncases = 0;
    while (std::getline(in, line)) {
        if (!in_case) {
            if (line.compare(0, 5, "CASE ") == 0) {
                Toks t = split(line);
                t.next();
                g_case = t.next();
                timeout_s = t.more() ? (unsigned)t.u64() : 20;
                lines.clear();
                in_case = true;
            }
            continue;
        }
        if (line != "END") {
            lines.push_back(line);
            continue;
        }
        in_case = false;
        ncases++;
        if (nofork) {
            fn(lines);
            Json j = ev("exit");
            j.kstr("how", "ok");
            fin(j);
            continue;
        }
        int efd = open(errpath, O_WRONLY | O_CREAT | O_TRUNC, 0644);
        pid_t pid = fork();
        if (pid < 0) {
            perror("fork");
            return 2;
        }
        if (pid == 0) {
            if (efd >= 0) {
                dup2(efd, 2);
                close(efd);
            }
            alarm(timeout_s);
            fn(lines);
            _exit(0);
        }
        if (efd >= 0) close(efd);
        int st = 0;
        while (waitpid(pid, &st, 0) < 0 && errno == EINTR) {
        }
        Json j = ev("exit");
        if (WIFEXITED(st) && WEXITSTATUS(st) == 0) {
            j.kstr("how", "ok");
        } else {
            if (WIFSIGNALED(st) && WTERMSIG(st) == SIGALRM) {
                j.kstr("how", "timeout");
                j.ki64("timeout_s", timeout_s);
            } else if (WIFSIGNALED(st)) {
                j.kstr("how", "signal");
                j.ki64("sig", WTERMSIG(st));
            } else {
                j.kstr("how", "exit");
                j.ki64("code", WEXITSTATUS(st));
            }
            std::string e = read_head(errpath, 6000);
            j.key("stderr");
            j.str(e.data(), e.size());
        }
        fin(j);
    }
    unlink(errpath);
    Json j;
    j.begin_obj();
    j.kstr("op", "driver_done");
    j.ki64("cases", ncases);
    fin(j);
    close(g_out_fd);
    return 0;
}

}  // namespace vf
