// Exact integer geometry used as reference by the online monitors.  Independent of gdstk.
#ifndef VERIF_ORACLE_GEOM_HPP
#define VERIF_ORACLE_GEOM_HPP
#include <stddef.h>
#include <stdint.h>
namespace vo {
// xy = x0,y0,x1,y1,... (closed implicitly).  Returns 2 if (px,py) lies on an edge or vertex,
// 1 if the winding number is non-zero, 0 otherwise.
int point_in_polygon(const int64_t* xy, size_t n, int64_t px, int64_t py);
// twice the signed shoelace area (positive = counter-clockwise), exact
__int128 twice_signed_area(const int64_t* xy, size_t n);
// closed edge-length sum in long double
long double perimeter(const int64_t* xy, size_t n);
}  // namespace vo
#endif
